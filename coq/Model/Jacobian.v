(** Python filter Jacobians: the symbolic Jacobian (sympy Matrix.jacobian, an oracle [D] for the partial
    derivative) is flattened row-major into a BasicBlock, evaluated, and read back with an index
    expression regenerated from the source.  Theorem: entry (row name, column name) is the value of
    D (row expression) (column symbol) exactly when the index expression is row * (number of symbolic
    columns) + col. *)
From Coq Require Import String List Bool Arith Lia.
From FV Require Import Base.Expr Model.BasicBlock Model.Layout.
Import ListNotations.

Section Jac.
Variable T : Type.
Variable ev : (name -> option T) -> expr -> option T.
Variable scope : nat -> list name -> list name.
Hypothesis scope_firstn : forall i ts, scope i ts = firstn i ts.
Variable D : expr -> name -> expr.

Definition jac_exprs (rowexprs : list expr) (cols : list name) : list expr := flatten_rc _ _ _ D rowexprs cols.

Definition py_jacobian (d : defn) (arg_order call_order : list group) (prefix : list (name * expr)) (body : list expr)
    (i : inputs T) (nr nc : nat) (idx : nat -> nat -> nat) : option (list (list (option T))) :=
  option_map (unflat T nr nc idx) (py_block T ev scope d arg_order call_order prefix body i).

Theorem py_jacobian_by_name d order rowexprs cols prefix body i nr nc idx J r c e x :
  shapes_ok T d i ->
  cse_contract T ev (arglist d order) (jac_exprs rowexprs cols) prefix body ->
  (forall r c, idx r c = r * length cols + c) ->
  nr = length rowexprs -> nc <= length cols ->
  py_jacobian d order order prefix body i nr nc idx = Some J ->
  nth_error rowexprs r = Some e -> nth_error cols c = Some x -> c < nc ->
  exists row v, nth_error J r = Some row /\ nth_error row c = Some (Some v) /\
                ev (named_env T d i order) (D e x) = Some v.
Proof.
  intros Sh C Hidx Hnr Hnc E He Hx Hc. unfold py_jacobian in E.
  rewrite (py_block_spec T ev scope scope_firstn d order prefix body _ i Sh C) in E.
  destruct (all_some _) as [vs|] eqn:A; [|discriminate]. injection E as <-.
  assert (Hr : r < nr) by (subst nr; apply nth_error_Some; congruence).
  destruct (unflat_nth T nr nc idx vs r c Hr Hc) as (row & R1 & R2).
  pose proof (all_some_nth _ vs (idx r c) A) as N.
  rewrite Hidx, nth_error_map in N. unfold jac_exprs in N.
  rewrite (flatten_rc_nth _ _ _ D rowexprs cols r c e x He Hx) in N. cbn [option_map] in N.
  rewrite Hidx in R2.
  destruct (nth_error vs (r * length cols + c)) as [v|] eqn:Ev.
  - exists row, v. repeat split; [exact R1|exact R2|symmetry; exact N].
  - exfalso. apply nth_error_None in Ev.
    pose proof (all_some_length _ _ A) as L. rewrite map_length in L. unfold jac_exprs in L.
    rewrite flatten_rc_length in L.
    assert (c < length cols) by (apply nth_error_Some; congruence).
    assert (r < length rowexprs) by (apply nth_error_Some; congruence). nia.
Qed.

End Jac.

(** The converse, as a refutation: with any other stride some Jacobian is read back wrongly.
    Witness: 2 rows, 3 symbolic columns, stride 2 (the pre-fix sensor_jacobian with 2 readings,
    2 states, 1 calibration value). *)
Example wrong_stride_refuted :
  exists vs : list nat, option_map (fun row => nth_error row 0) (nth_error (unflat nat 2 2 (fun r c => r * 2 + c) vs) 1)
                        <> option_map (fun row => nth_error row 0) (nth_error (unflat nat 2 2 (fun r c => r * 3 + c) vs) 1).
Proof. exists [10; 11; 12; 20; 21; 22]. cbv. congruence. Qed.
