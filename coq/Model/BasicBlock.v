(** python.BasicBlock: lambdified prefix (CSE temporaries) and body, executed with positional arguments
    and temporaries passed by keyword.  Theorem: it computes the sequential-let semantics of the program. *)
From Coq Require Import String List Bool Arith Lia ZArith QArith.
From FV Require Import Base.Expr.
Import ListNotations.

Section Block.
Variable T : Type.
Variable ev : (name -> option T) -> expr -> option T.

(** which temporaries the i-th prefix function is lambdified over: `temporaries[:i]` in the source;
    regenerated into gen/LayoutParams.v *)
Variable scope : nat -> list name -> list name.

(** Python call of f with positional arguments pos and keyword arguments kw, for a function lambdified over [params] from [e]:
    TypeError (None) on too many positionals, unexpected or missing keywords *)
Definition call (params : list name) (e : expr) (pos : list T) (kw : list (name * T)) : option T :=
  let npos := List.length pos in
  if negb (Nat.leb npos (List.length params)) then None else
  let ppos := firstn npos params in
  let prest := skipn npos params in
  if negb (forallb (fun k => existsb (String.eqb k) prest) (map fst kw)) then None else
  if negb (forallb (fun p => existsb (String.eqb p) (map fst kw)) prest) then None else
  ev (fun x => lookup x (combine ppos pos ++ kw)) e.

(** BasicBlock.execute: each temporary is computed by calling its function with the positional arguments and all earlier temporaries by keyword, in prefix order *)
Fixpoint run_prefix (temps : list name) (args : list name) (pos : list T) (done : list (name * T))
         (prefix : list (name * expr)) : option (list (name * T)) :=
  match prefix with
  | [] => Some done
  | (t, e) :: p =>
      match call (args ++ scope (List.length done) temps) e pos done with
      | Some v => run_prefix temps args pos (done ++ [(t, v)]) p
      | None => None
      end
  end.

Definition execute (args : list name) (prefix : list (name * expr)) (body : list expr) (pos : list T)
  : option (list T) :=
  let temps := map fst prefix in
  match run_prefix temps args pos [] prefix with
  | Some tv => all_some (map (fun e => call (args ++ temps) e pos tv) body)
  | None => None
  end.

(** reference semantics of a post-CSE program: sequential let-binding by name *)
Fixpoint ref_prefix (env : list (name * T)) (prefix : list (name * expr)) : option (list (name * T)) :=
  match prefix with
  | [] => Some env
  | (t, e) :: p =>
      match ev (fun x => lookup x env) e with
      | Some v => ref_prefix (env ++ [(t, v)]) p
      | None => None
      end
  end.

Definition ref_execute (args : list name) (prefix : list (name * expr)) (body : list expr) (pos : list T) :=
  match ref_prefix (combine args pos) prefix with
  | Some env => all_some (map (ev (fun x => lookup x env)) body)
  | None => None
  end.

Lemma forallb_self (l : list name) : forallb (fun k => existsb (String.eqb k) l) l = true.
Proof.
  apply forallb_forall. intros x Hx. apply existsb_exists. exists x. split; [assumption|apply String.eqb_refl].
Qed.

Lemma call_ok args e pos (done : list (name * T)) :
  List.length pos = List.length args ->
  call (args ++ map fst done) e pos done = ev (fun x => lookup x (combine args pos ++ done)) e.
Proof.
  intros Hlen. unfold call.
  rewrite app_length, Hlen.
  replace (Nat.leb (List.length args) (List.length args + List.length (map fst done))) with true
    by (symmetry; apply Nat.leb_le; lia).
  simpl negb. cbv iota.
  rewrite firstn_app, Nat.sub_diag, firstn_all. simpl firstn. rewrite app_nil_r.
  rewrite skipn_app, Nat.sub_diag, skipn_all. simpl.
  rewrite !forallb_self. simpl. reflexivity.
Qed.

Hypothesis scope_firstn : forall i ts, scope i ts = firstn i ts.

Lemma run_prefix_ref args pos : List.length pos = List.length args ->
  forall prefix done temps, temps = map fst done ++ map fst prefix ->
  option_map (fun tv => combine args pos ++ tv) (run_prefix temps args pos done prefix)
  = ref_prefix (combine args pos ++ done) prefix.
Proof.
  intros Hlen. induction prefix as [|[t e] p IH]; intros done temps Ht; simpl; [reflexivity|].
  assert (Hs : scope (List.length done) temps = map fst done).
  { rewrite scope_firstn, Ht, <- (map_length fst done), firstn_app, Nat.sub_diag, firstn_all.
    simpl firstn. apply app_nil_r. }
  rewrite Hs, call_ok by assumption.
  destruct (ev _ e) as [v|]; [|reflexivity].
  rewrite (IH (done ++ [(t, v)]) temps), app_assoc; [reflexivity|].
  rewrite Ht, map_app. simpl. now rewrite <- app_assoc.
Qed.

(** BasicBlock.execute = sequential-let semantics, for every program and every input *)
Theorem execute_is_ref args prefix body pos : List.length pos = List.length args ->
  execute args prefix body pos = ref_execute args prefix body pos.
Proof.
  intros Hlen. unfold execute, ref_execute.
  pose proof (run_prefix_ref args pos Hlen prefix [] (map fst prefix) eq_refl) as H.
  rewrite app_nil_r in H.
  destruct (run_prefix (map fst prefix) args pos [] prefix) as [tv|] eqn:E; simpl in H; rewrite <- H; [|reflexivity].
  f_equal. apply map_ext. intros e.
  assert (Htv : map fst tv = map fst prefix).
  { clear H.
    assert (G : forall p d tv0, run_prefix (map fst prefix) args pos d p = Some tv0 -> map fst tv0 = map fst d ++ map fst p).
    { induction p as [|[t e'] p IHp]; intros d tv0 R; simpl in R.
      - injection R as <-. now rewrite app_nil_r.
      - destruct (call _ e' pos d); [|discriminate]. apply IHp in R. rewrite R, map_app. simpl. now rewrite <- app_assoc. }
    apply G in E. simpl in E. exact E. }
  rewrite <- Htv. apply call_ok. assumption.
Qed.

(** the CSE contract: what sympy.cse (+ simplify) must deliver for FormaK to be right —
    the program (prefix, body) evaluates, under sequential-let semantics, to the values of the
    original expressions, at every environment *)
Definition cse_contract (args : list name) (original : list expr) (prefix : list (name * expr)) (body : list expr) : Prop :=
  forall pos, List.length pos = List.length args ->
    ref_execute args prefix body pos = ref_execute args [] original pos.

Lemma cse_off_contract args original : cse_contract args original [] original.
Proof. intros pos _. reflexivity. Qed.

(** hence: with or without CSE the block returns the values of the original expressions *)
Theorem execute_original args original prefix body pos :
  cse_contract args original prefix body -> List.length pos = List.length args ->
  execute args prefix body pos = all_some (map (ev (fun x => lookup x (combine args pos))) original).
Proof. intros C L. rewrite execute_is_ref by exact L. rewrite (C pos L). reflexivity. Qed.

End Block.
