(** Managed-filter time stepping and tick folding: specification level.
    [plan]/[steps]/[propagate]/[tick_spec] are the hand-written specification (Num-polymorphic);
    the Python code is regenerated into gen/RuntimePy.v and proved equal to it in Props/C10.v, C11.v;
    the C++ header is hand-modelled in Model/RuntimeCpp.v and tied by bit-exact traces. *)
From Coq Require Import ZArith QArith Qround Qabs List Bool Lia Lqa.
From Coq Require Import PrimFloat.
From FV Require Import Base.Num.
Import ListNotations.

Section Spec.
Variable N : Num.

Definition eps9 : N := lit N (1 # 1000000000)%Q (0x1.12e0be826d695p-30)%float.

(** direction-adjusted step, number of full steps, optional remainder step *)
Definition plan (max_dt cur out : N) : option (N * Z * option N) :=
  let m := if ltb N out cur then opp N max_dt else max_dt in
  match floorZ N (div N (sub N out cur) m) with
  | None => None
  | Some n =>
      let k := Z.abs n in
      let iter := add N cur (mul N m (ofZ N k)) in
      let r := sub N out iter in
      Some (m, k, if leb N eps9 (absv N r) then Some r else None)
  end.

Definition expand (p : N * Z * option N) : list N :=
  let '(m, k, r) := p in
  repeat m (Z.to_nat k) ++ match r with Some d => [d] | None => [] end.

Definition steps (max_dt cur out : N) : option (list N) := option_map expand (plan max_dt cur out).

Section Filter.
Variables St R : Type.
Variable pm : N -> St -> St.          (* one prediction step of length dt (control fixed) *)
Variable upd : R -> St -> St.         (* sensor update with a reading *)
Variable ts : R -> N.                 (* reading timestamp *)

Definition propagate (max_dt cur : N) (st : St) (out : N) : option St :=
  option_map (fun ds => fold_left (fun s d => pm d s) ds st) (steps max_dt cur out).

(** the managed filter's held state: time and estimate *)
Definition held := (N * St)%type.

Definition absorb (max_dt : N) (h : held) (r : R) : option held :=
  option_map (fun st => (ts r, upd r st)) (propagate max_dt (fst h) (snd h) (ts r)).

(** tick = fold readings in order (propagate, update, hold at the reading's time), then report the
    held estimate propagated to the output time, without holding it *)
Definition tick_spec (max_dt : N) (h : held) (out : N) (rs : list R) : option (held * St) :=
  obind (ofold (absorb max_dt) rs h) (fun h' =>
  option_map (fun st => (h', st)) (propagate max_dt (fst h') (snd h') out)).

Lemma tick_no_readings_pure max_dt h out :
  option_map fst (tick_spec max_dt h out []) = option_map (fun _ => h) (propagate max_dt (fst h) (snd h) out).
Proof. unfold tick_spec; cbn [ofold obind]. destruct (propagate _ _ _ _); reflexivity. Qed.

Lemma tick_spec_cons max_dt h out r rs :
  tick_spec max_dt h out (r :: rs) = obind (absorb max_dt h r) (fun h1 => tick_spec max_dt h1 out rs).
Proof. unfold tick_spec; cbn [ofold obind]. destruct (absorb max_dt h r); reflexivity. Qed.

Lemma ofold_app {A B : Type} (f : A -> B -> option A) l1 l2 a :
  ofold f (l1 ++ l2) a = obind (ofold f l1 a) (ofold f l2).
Proof.
  revert a; induction l1 as [|x l IH]; intro a; [reflexivity|].
  cbn [app ofold obind]. destruct (f a x) as [a'|]; cbn [obind]; [apply IH|reflexivity].
Qed.

(** readings handed over in two batches: what is held after the first batch is all that the second sees *)
Lemma tick_spec_app max_dt h out rs1 rs2 :
  tick_spec max_dt h out (rs1 ++ rs2) =
  obind (ofold (absorb max_dt) rs1 h) (fun h1 => tick_spec max_dt h1 out rs2).
Proof. unfold tick_spec. rewrite ofold_app. destruct (ofold (absorb max_dt) rs1 h); reflexivity. Qed.

(** two ticks equal one tick over the concatenated readings, whatever the first tick's output time was:
    reporting an estimate at an output time leaves no trace in what is held *)
Lemma tick_split max_dt h out1 out rs1 rs2 h1 e1 :
  tick_spec max_dt h out1 rs1 = Some (h1, e1) ->
  tick_spec max_dt h1 out rs2 = tick_spec max_dt h out (rs1 ++ rs2).
Proof.
  rewrite tick_spec_app. unfold tick_spec at 1.
  destruct (ofold (absorb max_dt) rs1 h) as [h'|]; cbn [obind]; [|discriminate].
  destruct (propagate max_dt (fst h') (snd h') out1) as [e|]; cbn [option_map]; [|discriminate].
  intro E. injection E as -> _. reflexivity.
Qed.

End Filter.
End Spec.


(** * Exact-arithmetic theorems about the step decomposition *)
Open Scope Q_scope.

Definition eps : Q := 1 # 1000000000.
Definition qm (max_dt cur out : Q) : Q := if Qlt_le_dec out cur then - max_dt else max_dt.
Definition qk (max_dt cur out : Q) : Z := Z.abs (Qfloor ((out - cur) / qm max_dt cur out)).
Definition qrem (max_dt cur out : Q) : Q := out - (cur + qm max_dt cur out * inject_Z (qk max_dt cur out)).
Definition qsteps (max_dt cur out : Q) : list Q :=
  repeat (qm max_dt cur out) (Z.to_nat (qk max_dt cur out))
  ++ (if Qle_bool eps (Qabs (qrem max_dt cur out)) then [qrem max_dt cur out] else []).

Lemma ltb_Q a b : ltb QNum a b = if Qlt_le_dec a b then true else false.
Proof.
  cbn. destruct (Qlt_le_dec a b) as [H|H].
  - destruct (Qle_bool b a) eqn:E; [apply Qle_bool_iff in E; lra|reflexivity].
  - apply Qle_bool_iff in H. now rewrite H.
Qed.

Lemma steps_Q max_dt cur out : steps QNum max_dt cur out = Some (qsteps max_dt cur out).
Proof.
  unfold steps, plan. rewrite ltb_Q. unfold qsteps, qrem, qk, qm, eps9, eps.
  destruct (Qlt_le_dec out cur);
  cbn [floorZ QNum option_map expand div sub add mul ofZ opp leb absv lit T];
  match goal with |- context [Qle_bool ?a ?b] => destruct (Qle_bool a b) end; reflexivity.
Qed.

Definition sumQ (l : list Q) : Q := fold_right Qplus 0 l.

Lemma sum_repeat m n : sumQ (repeat m n) == m * inject_Z (Z.of_nat n).
Proof.
  induction n as [|n IH]; [simpl; ring|].
  change (sumQ (repeat m (S n))) with (m + sumQ (repeat m n)).
  rewrite IH, Nat2Z.inj_succ. unfold Z.succ. rewrite inject_Z_plus. ring.
Qed.

Lemma sumQ_app a b : sumQ (a ++ b) == sumQ a + sumQ b.
Proof. induction a as [|x a IH]; simpl; [ring|rewrite IH; ring]. Qed.

Section Facts.
Variables max_dt cur out : Q.
Hypothesis Hpos : 0 < max_dt.
Let m := qm max_dt cur out.
Let q := (out - cur) / m.
Let k := qk max_dt cur out.
Let r := qrem max_dt cur out.

Lemma m_nz : ~ m == 0.
Proof. unfold m, qm; destruct (Qlt_le_dec out cur); lra. Qed.

Lemma m_abs : Qabs m == max_dt.
Proof.
  unfold m, qm; destruct (Qlt_le_dec out cur).
  - rewrite Qabs_opp. apply Qabs_pos; lra.
  - apply Qabs_pos; lra.
Qed.

Lemma q_nonneg : 0 <= q.
Proof.
  unfold q, m, qm. destruct (Qlt_le_dec out cur) as [H|H].
  - setoid_replace ((out - cur) / - max_dt) with ((cur - out) / max_dt) by (field; lra).
    apply Qle_shift_div_l; lra.
  - apply Qle_shift_div_l; lra.
Qed.

Lemma k_floor : inject_Z k <= q /\ q < inject_Z k + 1.
Proof.
  assert (H0 : (0 <= Qfloor q)%Z).
  { pose proof q_nonneg as Hq. change 0%Z with (Qfloor 0). apply Qfloor_resp_le. exact Hq. }
  unfold k, qk. fold m. fold q. rewrite Z.abs_eq by exact H0. split.
  - apply Qfloor_le.
  - pose proof (Qlt_floor q) as H. rewrite inject_Z_plus in H. exact H.
Qed.

Lemma k_nonneg : (0 <= k)%Z.
Proof. unfold k, qk. apply Z.abs_nonneg. Qed.

Lemma rem_eq : r == m * (q - inject_Z k).
Proof. unfold r, qrem. fold m. fold k. unfold q. field. apply m_nz. Qed.

Lemma rem_bound : Qabs r < max_dt.
Proof.
  rewrite rem_eq, Qabs_Qmult. destruct k_floor as [H1 H2].
  rewrite m_abs, (Qabs_pos (q - inject_Z k)) by lra.
  setoid_replace max_dt with (max_dt * 1) at 2 by ring.
  apply Qmult_lt_l; lra.
Qed.

(** every step is at most the configured maximum *)
Lemma steps_bounded : forall d, In d (qsteps max_dt cur out) -> Qabs d <= max_dt.
Proof.
  intros d Hd. unfold qsteps in Hd. apply in_app_or in Hd. destruct Hd as [Hd|Hd].
  - apply repeat_spec in Hd. subst d. fold m. rewrite m_abs. lra.
  - fold r in Hd. destruct (Qle_bool eps (Qabs r)); [|contradiction].
    destruct Hd as [<-|[]]. pose proof rem_bound. lra.
Qed.

(** the steps sum to the time difference within 1e-9 *)
Lemma steps_sum : Qabs (sumQ (qsteps max_dt cur out) - (out - cur)) < eps.
Proof.
  unfold qsteps. fold m k r.
  rewrite sumQ_app, sum_repeat, Z2Nat.id by apply k_nonneg.
  destruct (Qle_bool eps (Qabs r)) eqn:E.
  - match goal with |- Qabs ?e < _ => assert (X : e == 0) by (unfold r, qrem; fold m k; simpl; ring); rewrite X end.
    reflexivity.
  - match goal with |- Qabs ?e < _ => assert (X : e == - r) by (unfold r, qrem; fold m k; simpl; ring); rewrite X end.
    rewrite Qabs_opp. apply Qnot_le_lt. intro H. apply Qle_bool_iff in H. congruence.
Qed.

(** every step points in the direction of travel *)
Lemma steps_direction : forall d, In d (qsteps max_dt cur out) ->
  (cur < out -> 0 < d) /\ (out < cur -> d < 0) /\ ~ cur == out.
Proof.
  intros d Hd. unfold qsteps in Hd. apply in_app_or in Hd.
  assert (Hq := k_floor). assert (Hq0 := q_nonneg).
  destruct Hd as [Hd|Hd].
  - (* a full step exists, so k >= 1, so q >= 1, so out <> cur *)
    assert (Hk : (1 <= k)%Z).
    { fold k in Hd. destruct (Z.to_nat k) eqn:E; [contradiction|]. pose proof k_nonneg. lia. }
    apply repeat_spec in Hd. subst d. fold m.
    assert (H1 : 1 <= q).
    { destruct Hq as [Hq _]. assert (inject_Z 1 <= inject_Z k) by (rewrite <- Zle_Qle; exact Hk).
      change (inject_Z 1) with 1 in H. lra. }
    unfold q, m, qm in *. destruct (Qlt_le_dec out cur) as [H|H].
    + repeat split; try lra.
    + assert (~ out == cur).
      { intro E. assert (Z0' : (out - cur) / max_dt == 0) by (rewrite E; field; lra). lra. }
      repeat split; try lra.
  - fold r in Hd. destruct (Qle_bool eps (Qabs r)) eqn:E; [|contradiction].
    destruct Hd as [<-|[]]. apply Qle_bool_iff in E. unfold eps in E.
    assert (Hr := rem_eq). destruct Hq as [Hq1 Hq2].
    assert (Hqk : 0 <= q - inject_Z k) by lra.
    assert (Hne : ~ r == 0).
    { intro Z0'. rewrite Z0' in E. simpl in E. unfold Qle in E; simpl in E; lia. }
    assert (Hqk' : 0 < q - inject_Z k).
    { destruct (Qlt_le_dec 0 (q - inject_Z k)) as [|Hle]; [assumption|].
      exfalso; apply Hne. rewrite Hr. assert (q - inject_Z k == 0) by lra. rewrite H. ring. }
    unfold m, qm in Hr. unfold q, m, qm in Hqk'. destruct (Qlt_le_dec out cur) as [H|H].
    + assert (r < 0). { rewrite Hr. assert (0 < max_dt * (q - inject_Z k)) by (apply Qmult_lt_0_compat; [lra|unfold q, m, qm; destruct (Qlt_le_dec out cur); [exact Hqk'|lra]]). lra. }
      repeat split; try lra.
    + assert (0 < r). { rewrite Hr. apply Qmult_lt_0_compat; [lra|]. unfold q, m, qm; destruct (Qlt_le_dec out cur); [lra|exact Hqk']. }
      assert (~ cur == out).
      { intro E0. apply Hne. unfold r, qrem, qk, qm. destruct (Qlt_le_dec out cur); [lra|].
        assert (Z1 : (out - cur) / max_dt == 0) by (rewrite E0; field; lra).
        rewrite (Qfloor_comp _ _ Z1). simpl. rewrite E0. ring. }
      repeat split; try lra.
Qed.

(** no step at all when the two times coincide *)
Lemma steps_none_when_equal : cur == out -> qsteps max_dt cur out = [].
Proof.
  intro E. unfold qsteps, qrem, qk, qm. destruct (Qlt_le_dec out cur) as [H|H]; [lra|].
  assert (Z1 : (out - cur) / max_dt == 0) by (rewrite E; field; lra).
  rewrite (Qfloor_comp _ _ Z1). change (Z.abs (Qfloor 0)) with 0%Z. cbn [Z.to_nat repeat app].
  assert (Z2 : out - (cur + max_dt * inject_Z 0) == 0) by (rewrite E; simpl; ring).
  destruct (Qle_bool eps (Qabs (out - (cur + max_dt * inject_Z 0)))) eqn:B; [|reflexivity].
  apply Qle_bool_iff in B. rewrite Z2 in B. simpl in B. unfold eps, Qle in B; simpl in B; lia.
Qed.

(** the number of full-length steps is floor(|out - cur| / max_dt) *)
Lemma steps_count : k = Qfloor (Qabs (out - cur) / max_dt).
Proof.
  unfold k, qk, qm. destruct (Qlt_le_dec out cur) as [H|H].
  - assert (E : (out - cur) / - max_dt == Qabs (out - cur) / max_dt).
    { rewrite (Qabs_neg (out - cur)) by lra. field; lra. }
    rewrite (Qfloor_comp _ _ E). apply Z.abs_eq. change 0%Z with (Qfloor 0). apply Qfloor_resp_le.
    apply Qle_shift_div_l; [lra|]. rewrite Qmult_0_l. apply Qabs_nonneg.
  - assert (E : (out - cur) / max_dt == Qabs (out - cur) / max_dt).
    { rewrite (Qabs_pos (out - cur)) by lra. reflexivity. }
    rewrite (Qfloor_comp _ _ E). apply Z.abs_eq. change 0%Z with (Qfloor 0). apply Qfloor_resp_le.
    apply Qle_shift_div_l; [lra|]. rewrite Qmult_0_l. apply Qabs_nonneg.
Qed.

(** the shape of the whole list: exactly [k] full-length steps, then at most one remainder step, which is
    strictly shorter than a full step and not shorter than 1e-9 (so the move is never cut into many
    small pieces, and the remainder is never applied twice) *)
Lemma steps_shape : exists tail,
  qsteps max_dt cur out = repeat m (Z.to_nat k) ++ tail /\
  Qabs m == max_dt /\ (length tail <= 1)%nat /\
  (forall d, In d tail -> d == r /\ eps <= Qabs d /\ Qabs d < max_dt).
Proof.
  unfold qsteps. fold m k r. destruct (Qle_bool eps (Qabs r)) eqn:E.
  - exists [r]. split; [reflexivity|]. split; [apply m_abs|]. split; [simpl; lia|].
    intros d [<-|[]]. split; [reflexivity|]. split; [apply Qle_bool_iff; exact E|apply rem_bound].
  - exists []. split; [reflexivity|]. split; [apply m_abs|]. split; [simpl; lia|]. intros d [].
Qed.

Lemma steps_length : (length (qsteps max_dt cur out) <= Z.to_nat k + 1)%nat.
Proof.
  destruct steps_shape as [tail [-> [_ [Hl _]]]]. rewrite app_length, repeat_length. lia.
Qed.

End Facts.

(** moving to the time the estimate is already at calls the filter not at all and returns the estimate as it is *)
Lemma propagate_equal_id (St : Type) (pm : QNum -> St -> St) max_dt cur st out :
  0 < max_dt -> cur == out -> propagate QNum St pm max_dt cur st out = Some st.
Proof.
  intros Hp E. unfold propagate. rewrite steps_Q, (steps_none_when_equal max_dt cur out Hp E). reflexivity.
Qed.

(** polling: a tick without readings at the held time reports exactly the held estimate and holds it unchanged *)
Lemma tick_poll_id (St R : Type) (pm : QNum -> St -> St) (upd : R -> St -> St) (ts : R -> QNum) max_dt h out :
  0 < max_dt -> fst h == out -> tick_spec QNum St R pm upd ts max_dt h out [] = Some (h, snd h).
Proof.
  intros Hp E. unfold tick_spec. cbn [ofold obind].
  pose proof (propagate_equal_id St pm max_dt (fst h) (snd h) out Hp E) as X.
  match goal with |- option_map _ ?p = _ => replace p with (Some (snd h)) by (symmetry; exact X) end. reflexivity.
Qed.
