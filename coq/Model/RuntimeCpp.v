(** Hand-written model of cpp/runtime/include/formak/runtime/ManagedFilter.h (processUpdate and the
    four tick overloads).  The header is C++ templates + lambdas and is not translated; this model is
    tied to it by bit-exact call traces of the compiled header (tools/harness, check C10/C11). *)
From Coq Require Import ZArith QArith List Bool PrimFloat.
From FV Require Import Base.Num Model.Runtime.
Import ListNotations.

Section Cpp.
Variable N : Num.
Variables SV R : Type.
Variable pmc : N -> SV -> SV.   (* _impl.process_model(dt, state [, _calibration] [, control]) *)
Variable smc : R -> SV -> SV.   (* stampedReading.data->sensor_model(_impl, state [, _calibration]) *)
Variable ts : R -> N.
Variable tag_max_dt : N.        (* Impl::Tag::max_dt_sec *)

(** State processUpdate(double outputTime [, control]) const *)
Definition cpp_process_update (cur : N) (st : SV) (out : N) : option (N * SV) :=
  (* max_dt lambda: if (state.currentTime > outputTime) return -max_dt_sec; return max_dt_sec; *)
  let max_dt := if ltb N out cur then opp N tag_max_dt else tag_max_dt in
  (* size_t expected_iterations = static_cast<size_t>(std::abs(std::floor((outputTime - currentTime) / max_dt))) *)
  obind (floorZ N (div N (sub N out cur) max_dt)) (fun fl =>
  let expected_iterations := Z.abs fl in
  let st := Nat.iter (Z.to_nat expected_iterations) (pmc max_dt) st in
  (* double iterTime = currentTime + max_dt * expected_iterations *)
  let iterTime := add N cur (mul N max_dt (ofZ N expected_iterations)) in
  (* if (std::abs(outputTime - iterTime) >= 1e-9) state = process_model(outputTime - iterTime, ...) *)
  let st := if leb N (eps9 N) (absv N (sub N out iterTime)) then pmc (sub N out iterTime) st else st in
  Some (out, st)).

(** tick(outputTime [, control], readings): for each reading _state = processUpdate(ts); _state.state =
    sensor_model(...); then return tick(outputTime [, control]) = processUpdate(outputTime).state
    (which does not assign _state) *)
Definition cpp_tick (h : N * SV) (out : N) (rs : list R) : option ((N * SV) * SV) :=
  obind (ofold (fun h r => obind (cpp_process_update (fst h) (snd h) (ts r))
                             (fun h1 => Some (fst h1, smc r (snd h1)))) rs h)
    (fun h' => option_map (fun o => (h', snd o)) (cpp_process_update (fst h') (snd h') out)).

Lemma cpp_process_update_is_propagate cur st out :
  cpp_process_update cur st out = option_map (fun s => (out, s)) (propagate N SV pmc tag_max_dt cur st out).
Proof.
  unfold cpp_process_update, propagate, steps, plan. cbv zeta.
  set (m := if ltb N out cur then opp N tag_max_dt else tag_max_dt).
  destruct (floorZ N (div N (sub N out cur) m)) as [fl|]; [|reflexivity].
  cbn [obind option_map expand].
  rewrite (iter_fold_repeat (fun s d => pmc d s)), fold_left_app.
  destruct (leb N (eps9 N) _); reflexivity.
Qed.

Lemma cpp_tick_is_spec h out rs :
  cpp_tick h out rs = tick_spec N SV R pmc smc ts tag_max_dt h out rs.
Proof.
  unfold cpp_tick, tick_spec.
  assert (E : forall h0, ofold (fun h r => obind (cpp_process_update (fst h) (snd h) (ts r))
                             (fun h1 => Some (fst h1, smc r (snd h1)))) rs h0
                       = ofold (absorb N SV R pmc smc ts tag_max_dt) rs h0).
  { induction rs as [|r rs' IH]; intro h0; [reflexivity|].
    cbn [ofold]. unfold absorb at 1. rewrite cpp_process_update_is_propagate.
    destruct (propagate N SV pmc tag_max_dt (fst h0) (snd h0) (ts r)); cbn [option_map obind fst snd]; [apply IH|reflexivity]. }
  rewrite E. destruct (ofold (absorb N SV R pmc smc ts tag_max_dt) rs h) as [h1|]; [|reflexivity]. cbn [obind].
  rewrite cpp_process_update_is_propagate. destruct (propagate _ _ _ _ _ _ _); reflexivity.
Qed.

End Cpp.
