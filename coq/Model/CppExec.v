(** Executable comparison of the generator model (Model/CppGen.v) with tables parsed back from the
    generated C++ text. *)
From Coq Require Import String List Bool Arith.
From FV Require Import Base.Names Base.Expr Model.Layout Model.CppGen Model.GlueExec.
Import ListNotations.

Definition pair_eqb (a b : nat * nat) : bool := Nat.eqb (fst a) (fst b) && Nat.eqb (snd a) (snd b).

Fixpoint list_eqb {A} (eqb : A -> A -> bool) (a b : list A) : bool :=
  match a, b with
  | [], [] => true
  | x :: a', y :: b' => eqb x y && list_eqb eqb a' b'
  | _, _ => false
  end.

(** container: declared names (any order); parsed accessor table (name, row index), Options fields, ctor args *)
Definition check_container (declared : list name) (acc : list (name * nat)) (opts ctor : list name) : bool :=
  let s := sort_names declared in
  list_eqb (fun a b => String.eqb (fst a) (fst b) && Nat.eqb (snd a) (snd b)) (accessor_table s) acc &&
  names_eqb (options_fields s) opts && names_eqb (ctor_args s) ctor.

(** matrix function: parsed entry targets in statement order *)
Definition check_targets (nr nc : nat) (parsed : list (nat * nat)) : bool := list_eqb pair_eqb (targets nr nc) parsed.

(** every entry assigned (process-noise function assigns off-diagonal entries twice) *)
Definition check_covers (nr nc : nat) (parsed : list (nat * nat)) : bool :=
  forallb (fun t => existsb (pair_eqb t) parsed) (targets nr nc) &&
  forallb (fun t => Nat.ltb (fst t) nr && Nat.ltb (snd t) nc) parsed.

(** model-like function: locals declared in the sorted order of the declared names *)
Definition check_locals (declared parsed : list name) : bool := names_eqb (sort_names declared) parsed.

Definition check_ssa (body : list (name * list name)) : bool := ssa_ok [] body.
