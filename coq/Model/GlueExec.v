(** Executable harness for the Python glue model: runs Model.model / SensorModel.model / the Jacobian
    un-flattening on the REAL post-CSE programs exported from the implementation, over exact rationals,
    with the parameters regenerated from python.py, and compares with what the implementation returned. *)
From Coq Require Import String List Bool Arith ZArith QArith Qabs.
From FV Require Import Base.Names Base.Expr Model.BasicBlock Model.Layout Model.Jacobian gen.LayoutParams.
Import ListNotations.

Record pydef := mkPydef {
  p_dt : name; p_state : list name; p_ctl : list name; p_cal : list name;   (* as declared, any order *)
  p_model : list (name * expr) }.

Definition mk_defn (p : pydef) : defn :=
  mkDefn (p_dt p) (sort_names (p_state p)) (sort_names (p_cal p)) (sort_names (p_ctl p))
         (fun n => match lookup n (p_model p) with Some e => e | None => Num 0 end).

Definition getq (m : list (name * Q)) (n : name) : Q := match lookup n m with Some v => v | None => 0 end.

(** inputs supplied by name (keyword construction of State etc.: missing names default to zero) *)
Definition mk_inputs (p : pydef) (dtv : Q) (st ctl cal : list (name * Q)) : inputs Q :=
  let d := mk_defn p in
  mkInputs Q dtv (map (getq st) (d_S d)) (map (getq cal) (d_C d)) (map (getq ctl) (d_U d)).

Definition qmax (a b : Q) : Q := if Qle_bool a b then b else a.
Definition close (tol a b : Q) : bool := Qle_bool (Qabs (a - b)) (tol * qmax 1 (Qabs a)).
  
Fixpoint names_eqb (a b : list name) : bool :=
  match a, b with
  | [], [] => true
  | x :: a', y :: b' => String.eqb x y && names_eqb a' b'
  | _, _ => false
  end.

(** every expected (name, value) is matched by the model's value under the same name *)
Definition assoc_close (tol : Q) (model : list (name * Q)) (expected : list (name * Q)) : bool :=
  Nat.eqb (length model) (length expected) &&
  forallb (fun kv => match lookup (fst kv) model with Some m => close tol m (snd kv) | None => false end) expected.

Definition tol : Q := 1 # 1000000000.

(** codes: 1 arglist differs, 2 model value differs / model undefined, 3 the exported program does not
    evaluate to the original expressions at this point (CSE contract instance), 0 ok *)
Definition check_model (p : pydef) (impl_arglist : list name)
    (prefix : list (name * expr)) (body : list expr)
    (dtv : Q) (st ctl cal : list (name * Q)) (impl_out : list (name * Q)) : nat :=
  let d := mk_defn p in
  let i := mk_inputs p dtv st ctl cal in
  if negb (names_eqb (arglist d model_arglist_order) impl_arglist) then 1%nat else
  match py_model Q qeval prefix_scope d model_arglist_order model_call_order prefix body i with
  | None => 2%nat
  | Some r =>
      if negb (assoc_close tol r impl_out) then 2%nat else
      match all_some (map (fun x => qeval (named_env Q d i model_arglist_order) (d_model d x)) (d_S d)) with
      | None => 3%nat
      | Some vs => if assoc_close tol r (combine (d_S d) vs) then 0%nat else 3%nat
      end
  end.

(** sensor predictions: readings as declared (any order), expressions by reading name *)
Definition check_sensor (p : pydef) (readings : list (name * expr))
    (prefix : list (name * expr)) (body : list expr)
    (st cal : list (name * Q)) (impl_out : list (name * Q)) : nat :=
  let d := mk_defn p in
  let i := mk_inputs p 0 st [] cal in
  let rn := sort_names (map fst readings) in
  let rexprs := map (fun n => match lookup n readings with Some e => e | None => Num 0 end) rn in
  match py_block Q qeval prefix_scope d sensor_arglist_order sensor_call_order prefix body i with
  | None => 2%nat
  | Some vs =>
      if negb (assoc_close tol (combine rn vs) impl_out) then 2%nat else
      match all_some (map (qeval (named_env Q d i sensor_arglist_order)) rexprs) with
      | None => 3%nat
      | Some ws => if assoc_close tol (combine rn vs) (combine rn ws) then 0%nat else 3%nat
      end
  end.

(** Jacobians.  [impl] is the matrix the implementation returned (rows of values); [dexprs] the
    independently computed partial derivatives, by (row name, column name). *)
Definition mat_close (tol : Q) (m : list (list (option Q))) (impl : list (list Q)) : bool :=
  Nat.eqb (length m) (length impl) &&
  forallb (fun rr => Nat.eqb (length (fst rr)) (length (snd rr)) &&
                     forallb (fun ab => match fst ab with Some a => close tol a (snd ab) | None => false end)
                             (combine (fst rr) (snd rr)))
          (combine m impl).

Definition dlookup (dexprs : list (name * list (name * expr))) (r c : name) : expr :=
  match lookup r dexprs with
  | Some row => match lookup c row with Some e => e | None => Num 0 end
  | None => Num 0
  end.

Definition oracle_mat (d : defn) (i : inputs Q) (order : list group)
    (dexprs : list (name * list (name * expr))) (rows cols : list name) : list (list (option Q)) :=
  map (fun r => map (fun c => qeval (named_env Q d i order) (dlookup dexprs r c)) cols) rows.

Fixpoint omat_close (a b : list (list (option Q))) : bool :=
  match a, b with
  | [], [] => true
  | ra :: a', rb :: b' =>
      (fix row (x y : list (option Q)) : bool :=
         match x, y with
         | [], [] => true
         | Some u :: x', Some v :: y' => close tol u v && row x' y'
         | _, _ => false
         end) ra rb && omat_close a' b'
  | _, _ => false
  end.

(** which: 0 process, 1 control, 2 sensor.  codes: 2 value differs from implementation,
    3 un-flattened entries are not sympy.diff's by-name derivatives (oracle / layout), 4 they are not the
    verified symbolic derivative's values, 0 ok *)
Definition check_jacobian (which : nat) (p : pydef) (readings : list (name * expr))
    (prefix : list (name * expr)) (body : list expr)
    (dtv : Q) (st ctl cal : list (name * Q)) (impl : list (list Q))
    (dexprs : list (name * list (name * expr))) : nat :=
  let d := mk_defn p in
  let i := mk_inputs p dtv st ctl cal in
  let nst := length (d_S d) in let nct := length (d_U d) in let ncal := length (d_C d) in
  let rn := sort_names (map fst readings) in
  let nss := length rn in
  let '(aorder, corder, nr, nc, idx, rows, cols) :=
    match which with
    | O => (model_arglist_order, process_jac_call_order, process_jac_row_range nst nct ncal nss,
            process_jac_col_range nst nct ncal nss, process_jac_idx nst nct ncal nss, d_S d, d_S d)
    | S O => (model_arglist_order, control_jac_call_order, control_jac_row_range nst nct ncal nss,
            control_jac_col_range nst nct ncal nss, control_jac_idx nst nct ncal nss, d_S d, d_U d)
    | _ => (ekf_sensor_arglist_order, sensor_jac_call_order, sensor_jac_row_range nst nct ncal nss,
            sensor_jac_col_range nst nct ncal nss, sensor_jac_idx nst nct ncal nss, rn, d_S d)
    end in
  match py_jacobian Q qeval prefix_scope d aorder corder prefix body i nr nc idx with
  | None => 2%nat
  | Some J =>
      if negb (mat_close tol J impl) then 2%nat else
      if negb (omat_close J (oracle_mat d i aorder dexprs rows cols)) then 3%nat else
      (* the verified symbolic derivative (Base/Expr.deriv, correct by Theory/Deriv.deriv_correct) of the row
         expression with respect to the column symbol, evaluated exactly at the same point *)
      let rowexpr := fun r => match which with
                              | S (S O) => match lookup r readings with Some e => e | None => Num 0 end
                              | _ => d_model d r end in
      let verified := map (fun r => map (fun c => qeval (named_env Q d i aorder) (deriv c (rowexpr r))) cols) rows in
      if omat_close J verified then 0%nat else 4%nat
  end.

Fixpoint nonzero_indexed (l : list nat) (i : nat) : list (nat * nat) :=
  match l with
  | [] => []
  | O :: r => nonzero_indexed r (S i)
  | c :: r => (i, c) :: nonzero_indexed r (S i)
  end.
