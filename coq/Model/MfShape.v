(** Call shapes of cpp/runtime/include/formak/runtime/ManagedFilter.h (hand model, after the header's
    `if constexpr` conditions), to be compared with the signatures the generator emits
    (gen/CppGenParams.v, regenerated).  Tied by compiling every combination against the real header. *)
From Coq Require Import List Bool.
From FV Require Import Base.Expr Model.Layout gen.CppGenParams.
Import ListNotations.

(** _impl.process_model(...) in processUpdate(outputTime, control) / processUpdate(outputTime) *)
Definition mf_process_call (ctl cal : bool) : list akind :=
  if ctl then (if cal then [Adt; Astate; Acal; Actl] else [Adt; Astate; Actl])
  else (if cal then [Adt; Astate; Acal] else [Adt; Astate]).

(** stampedReading.data->sensor_model(_impl, _state.state [, _calibration]) in both reading overloads *)
Definition mf_sensor_call (ctl cal : bool) : list akind :=
  if cal then [Aimpl; Astate; Acal] else [Aimpl; Astate].

(** constructor selected by SFINAE on Tag::CalibrationT, tick overload selected by Tag::ControlT *)
Definition mf_ctor_takes_calibration (cal : bool) : bool := cal.
Definition mf_tick_takes_control (ctl : bool) : bool := ctl.

Theorem mf_compatible : forall ctl cal,
  mf_process_call ctl cal = gen_process_sig ctl cal /\
  mf_sensor_call ctl cal = gen_stamped_sig ctl cal /\
  gen_reading_override_sig ctl cal = gen_stamped_sig ctl cal /\
  gen_tag_false_type_when_absent = true.
Proof. intros [|] [|]; repeat split; reflexivity. Qed.

(** the overriding Reading::sensor_model forwards (state [, calibration], *this) to
    ExtendedKalmanFilter::sensor_model<ReadingT>(state [, calibration], reading) *)
Theorem reading_forward_matches : forall ctl cal,
  gen_reading_sig ctl cal = [Astate] ++ (if cal then [Acal] else []) ++ [Areading].
Proof. intros [|] [|]; reflexivity. Qed.
