(** Renaming of symbols: evaluation commutes with a consistent renaming (substitution lemma). *)
From Coq Require Import String List Bool.
From FV Require Import Base.Expr.
Import ListNotations.

Fixpoint rename (f : name -> name) (e : expr) : expr :=
  match e with
  | Num q => Num q
  | Var x => Var (f x)
  | Add a b => Add (rename f a) (rename f b)
  | Mul a b => Mul (rename f a) (rename f b)
  | Pow a n => Pow (rename f a) n
  | Fn g a => Fn g (rename f a)
  end.

Section R.
Variable T : Type.
Variable ofQ : QArith_base.Q -> T.
Variables tadd tmul : T -> T -> T.
Variable tinv : T -> option T.
Variable tone : T.
Variable fnI : name -> T -> option T.
Notation ev := (eval T ofQ tadd tmul tinv tone fnI).

Lemma eval_rename f rho e : ev rho (rename f e) = ev (fun x => rho (f x)) e.
Proof.
  induction e as [q|x|a IHa b IHb|a IHa b IHb|a IHa n|g a IHa]; cbn [eval rename]; try reflexivity;
  rewrite ?IHa, ?IHb; reflexivity.
Qed.

(** consistently renaming a model's symbols and its inputs leaves every value unchanged: if the renamed
    environment gives [f x] the value the original gave [x], the renamed expression evaluates the same *)
Theorem rename_invariant f rho rho' e :
  (forall x, rho' (f x) = rho x) -> ev rho' (rename f e) = ev rho e.
Proof. intro H. rewrite eval_rename. apply eval_ext. exact H. Qed.
End R.
