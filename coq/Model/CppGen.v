(** The C++ generator's emission layout (hand model of ast_fragments.py / cpp.py, tied by parsing the
    generated text back on every run): accessor indices, Options / constructor orders, per-function
    assignment targets, and the single-assignment discipline of CSE temporaries. *)
From Coq Require Import String List Bool Arith Lia.
From FV Require Import Base.Names Base.Expr Model.Layout.
Import ListNotations.

(** * Named containers: State / Control / Calibration / Reading *)
Definition accessor_table (names : list name) : list (name * nat) := combine names (seq 0 (length names)).
Definition options_fields (names : list name) : list name := names.
Definition ctor_args (names : list name) : list name := names.

Section Slots.
Variable V : Type.
(** constructing from named options stores [opt x] at the position of x in the constructor list; the
    accessor emitted for x reads position [index x] *)
Definition construct (ctor : list name) (opt : name -> V) : list V := map opt ctor.

Lemma lookup_accessor names x i : NoDup names -> nth_error names i = Some x -> lookup x (accessor_table names) = Some i.
Proof.
  intros ND H. unfold accessor_table.
  apply (lookup_combine_nth names (seq 0 (length names)) i x i ND).
  - now rewrite seq_length.
  - exact H.
  - assert (i < length names) by (apply nth_error_Some; congruence).
    rewrite (nth_error_nth' _ 0) by (now rewrite seq_length). now rewrite seq_nth.
Qed.

(** slot consistency: value set under a name through Options = value read through that name's accessor *)
Theorem slot_consistency names (opt : name -> V) x :
  NoDup names -> In x names ->
  exists i, lookup x (accessor_table names) = Some i /\ nth_error (construct (ctor_args names) opt) i = Some (opt x).
Proof.
  intros ND Hin. apply In_nth_error in Hin. destruct Hin as [i Hi]. exists i. split.
  - now apply lookup_accessor.
  - unfold construct, ctor_args. now rewrite nth_error_map, Hi.
Qed.

(** and distinct names never share a slot *)
Theorem slots_injective names x y i :
  NoDup names -> lookup x (accessor_table names) = Some i -> lookup y (accessor_table names) = Some i ->
  In x names -> In y names -> x = y.
Proof.
  intros ND Hx Hy Ix Iy. apply In_nth_error in Ix, Iy. destruct Ix as [a Ha], Iy as [b Hb].
  rewrite (lookup_accessor names x a ND Ha) in Hx. rewrite (lookup_accessor names y b ND Hb) in Hy.
  injection Hx as <-. injection Hy as <-. congruence.
Qed.
End Slots.

(** * Matrix-valued functions: jacobian(i, j) / covariance(i, j) targets in row-major order *)
Definition targets (nr nc : nat) : list (nat * nat) := flatten_rc _ _ _ pair (seq 0 nr) (seq 0 nc).

(** the emitted statement list pairs target (i, j) with the derivative of the i-th row expression with
    respect to the j-th column symbol *)
Definition jacobian_statements (D : expr -> name -> expr) (rowexprs : list expr) (cols : list name) : list ((nat * nat) * expr) :=
  combine (targets (length rowexprs) (length cols)) (flatten_rc _ _ _ D rowexprs cols).

Lemma targets_nth nr nc i j : i < nr -> j < nc -> nth_error (targets nr nc) (i * nc + j) = Some (i, j).
Proof.
  intros Hi Hj. unfold targets.
  pose proof (flatten_rc_nth _ _ _ pair (seq 0 nr) (seq 0 nc) i j i j) as H. rewrite seq_length in H. apply H.
  - rewrite (nth_error_nth' _ 0) by (now rewrite seq_length). now rewrite seq_nth.
  - rewrite (nth_error_nth' _ 0) by (now rewrite seq_length). now rewrite seq_nth.
Qed.

Theorem jacobian_statement_at D rowexprs cols i j e x :
  nth_error rowexprs i = Some e -> nth_error cols j = Some x ->
  nth_error (jacobian_statements D rowexprs cols) (i * length cols + j) = Some ((i, j), D e x).
Proof.
  intros He Hx. unfold jacobian_statements.
  assert (Hi : i < length rowexprs) by (apply nth_error_Some; congruence).
  assert (Hj : j < length cols) by (apply nth_error_Some; congruence).
  pose proof (targets_nth (length rowexprs) (length cols) i j Hi Hj) as T.
  pose proof (flatten_rc_nth _ _ _ D rowexprs cols i j e x He Hx) as F.
  revert T F. generalize (targets (length rowexprs) (length cols)) (flatten_rc expr name expr D rowexprs cols) (i * length cols + j).
  intros l1 l2 k. revert l2 k. induction l1 as [|a l1 IH]; intros [|b l2] [|k] T F; simpl in *; try discriminate.
  - now injection T as ->; injection F as ->.
  - now apply IH.
Qed.

Lemma nodup_app {A} (l1 l2 : list A) :
  NoDup l1 -> NoDup l2 -> (forall x, In x l1 -> In x l2 -> False) -> NoDup (l1 ++ l2).
Proof.
  induction l1 as [|a l1 IH]; intros N1 N2 D; simpl; [exact N2|].
  inversion N1 as [|? ? Ha N1']; subst. constructor.
  - intro H. apply in_app_or in H. destruct H as [H|H]; [exact (Ha H)|exact (D a (or_introl eq_refl) H)].
  - apply IH; [exact N1'|exact N2|]. intros x H1 H2. exact (D x (or_intror H1) H2).
Qed.

(** every entry of the result is assigned exactly once *)
Theorem targets_complete nr nc : length (targets nr nc) = nr * nc /\ NoDup (targets nr nc).
Proof.
  split.
  - unfold targets. now rewrite flatten_rc_length, !seq_length.
  - unfold targets, flatten_rc. generalize (seq_NoDup nr 0). generalize (seq 0 nr) as rows. intros rows NDr.
    induction rows as [|r rows IH]; simpl; [constructor|].
    inversion NDr as [|? ? Hn ND']; subst. apply nodup_app.
    + apply FinFun.Injective_map_NoDup; [intros a b E; now injection E|apply seq_NoDup].
    + apply IH; exact ND'.
    + intros [a b] H1 H2. apply in_map_iff in H1. destruct H1 as (c & Ec & _). injection Ec as <- <-.
      apply in_concat in H2. destruct H2 as (l & Hl & Hin). apply in_map_iff in Hl. destruct Hl as (r' & <- & Hr').
      apply in_map_iff in Hin. destruct Hin as (c' & Ec' & _). injection Ec' as -> ->. contradiction.
Qed.

(** * Single assignment of temporaries (C08, C++ side) *)
(** a generated body as a list of (assigned name, names it reads); inputs are not names here (they are
    accessed through state.x() etc.) *)
Definition assignment := (name * list name)%type.

Fixpoint ssa_ok (defined : list name) (body : list assignment) : bool :=
  match body with
  | [] => true
  | (t, uses) :: rest =>
      negb (existsb (String.eqb t) defined) &&
      forallb (fun u => existsb (String.eqb u) defined) uses &&
      ssa_ok (t :: defined) rest
  end.

(** soundness: every name is assigned exactly once and only reads names assigned strictly earlier *)
Theorem ssa_ok_sound body : ssa_ok [] body = true ->
  NoDup (map fst body) /\
  forall k t uses, nth_error body k = Some (t, uses) -> forall u, In u uses -> In u (map fst (firstn k body)).
Proof.
  assert (G : forall defined, ssa_ok defined body = true ->
            (NoDup (map fst body) /\ (forall t, In t (map fst body) -> ~ In t defined)) /\
            forall k t uses, nth_error body k = Some (t, uses) -> forall u, In u uses -> In u defined \/ In u (map fst (firstn k body))).
  { induction body as [|[t uses] rest IH]; intros defined H; simpl in H.
    - repeat split; [constructor|intros t []|intros [|k] t uses E; discriminate].
    - apply andb_prop in H. destruct H as [H H3]. apply andb_prop in H. destruct H as [H1 H2].
      destruct (IH (t :: defined) H3) as [[ND Fresh] Uses].
      assert (Ht : ~ In t defined).
      { intro Hin. apply negb_true_iff in H1. assert (existsb (String.eqb t) defined = true); [|congruence].
        apply existsb_exists. exists t. split; [exact Hin|apply String.eqb_refl]. }
      repeat split.
      + simpl. constructor; [|exact ND]. intro Hin. apply (Fresh t Hin). now left.
      + intros t0 [<-|Hin]; [exact Ht|]. intro Hd. apply (Fresh t0 Hin). now right.
      + intros [|k] t0 uses0 E u Hu; simpl in E.
        * injection E as <- <-. left. rewrite forallb_forall in H2. specialize (H2 u Hu).
          apply existsb_exists in H2. destruct H2 as (v & Hv & Ev). apply String.eqb_eq in Ev. now subst.
        * destruct (Uses k t0 uses0 E u Hu) as [[<-|Hd]|Hf]; [right; now left|now left|right; now right]. }
  intro H. destruct (G [] H) as [[ND _] Uses]. split; [exact ND|].
  intros k t uses E u Hu. destruct (Uses k t uses E u Hu) as [[]|Hf]. exact Hf.
Qed.
