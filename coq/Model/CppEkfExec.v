(** Executable harness for the generated C++ filter: the C++ template formulas as regenerated (rendering B of
    gen/EkfB.v: cpp_process_model_cov_l, cpp_sensor_model_l) are evaluated exactly on the matrices the compiled
    generated functions returned (G, V, M, H, Q, h) and compared with what the compiled process_model /
    sensor_model returned.  The premises of the refinement theorems (shapes, inverse certificate) are evaluated on
    every case. *)
From Coq Require Import String List Bool Arith ZArith QArith Qabs.
From FV Require Import Base.ListMat Base.Store Base.ListMatFacts Model.GlueExec Model.EkfExec gen.EkfB.
Import ListNotations.

(** codes: 9 shape premise fails, 4 covariance differs, 0 ok *)
Definition check_cpp_predict (G V P M impl_cov : lmat) : nat :=
  let n := length P in let c := length M in
  if negb ((1 <=? n)%nat && (1 <=? c)%nat && shaped2b n n G && shaped2b n c V && shaped2b n n P && shaped2b c c M) then 9%nat else
  if negb (lclose_norm tol (cpp_process_model_cov_l G V P M) impl_cov) then 4%nat else 0%nat.

(** codes: 8 premise (shape / inverse certificate) fails, 3 state, 4 covariance, 5 stored innovation, 0 ok;
    [rej] is the decision the compiled filter took (the decision itself is C06's) *)
Definition check_cpp_update (rej : bool) (x P z hx H Qm impl_x impl_P impl_inn : lmat) : nat :=
  let n := length P in let m := length Qm in
  let St := ladd (lmul (lmul H P) (ltr H)) Qm in
  let okp := (1 <=? n)%nat && (1 <=? m)%nat && shaped2b n 1 x && shaped2b n n P && shaped2b m 1 z && shaped2b m 1 hx
             && shaped2b m n H && shaped2b m m Qm && cert_inv m St (linv St) in
  if negb okp then 8%nat else
  let '((x', P'), inn) := cpp_sensor_model_l (fun _ _ => rej) x P z hx H Qm in
  if negb (lclose_norm tol x' impl_x) then 3%nat else
  if negb (lclose_norm tol P' impl_P) then 4%nat else
  if negb (lclose_norm tol inn impl_inn) then 5%nat else 0%nat.
