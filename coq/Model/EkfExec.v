(** Executable harness for the Python filter: chains the glue model (argument binding, CSE program,
    Jacobian un-flattening, named noise assembly) with rendering B of the regenerated EKF formulas,
    over exact rationals, and compares with what the implementation returned. *)
From Coq Require Import String List Bool Arith ZArith QArith Qabs.
From FV Require Import Base.Names Base.Expr Base.ListMat Base.Store Base.ListMatFacts Model.BasicBlock Model.Layout Model.Jacobian
  Model.Named Model.GlueExec gen.LayoutParams gen.EkfB.
Import ListNotations.

Definition prog := (list (name * expr) * list expr)%type.

(** option-valued matrix -> matrix (None if any entry undefined) *)
Definition omat (J : list (list (option Q))) : option lmat :=
  all_some (map (fun row => all_some row) J).

Definition colv (l : list Q) : lmat := map (fun x => [x]) l.
Definition uncol (m : lmat) : list Q := map (fun r => hd 0%Q r) m.

Record filt := mkFilt {
  f_def : pydef;
  f_model : prog; f_gjac : prog; f_vjac : prog;
  f_noise : list (nkey * Q) }.

Record sens := mkSens {
  s_readings : list (name * expr);     (* as declared *)
  s_block : prog; s_hjac : prog;
  s_noise : list (name * Q) }.

Definition jac (which : nat) (F : filt) (readings : list (name * expr)) (p : prog) (i : inputs Q) : option lmat :=
  let d := mk_defn (f_def F) in
  let nst := length (d_S d) in let nct := length (d_U d) in let ncal := length (d_C d) in
  let nss := length readings in
  let '(aorder, corder, nr, nc, idx) :=
    match which with
    | O => (model_arglist_order, process_jac_call_order, process_jac_row_range nst nct ncal nss,
            process_jac_col_range nst nct ncal nss, process_jac_idx nst nct ncal nss)
    | S O => (model_arglist_order, control_jac_call_order, control_jac_row_range nst nct ncal nss,
            control_jac_col_range nst nct ncal nss, control_jac_idx nst nct ncal nss)
    | _ => (ekf_sensor_arglist_order, sensor_jac_call_order, sensor_jac_row_range nst nct ncal nss,
            sensor_jac_col_range nst nct ncal nss, sensor_jac_idx nst nct ncal nss)
    end in
  match py_jacobian Q qeval prefix_scope d aorder corder (fst p) (snd p) i nr nc idx with
  | Some J => omat J
  | None => None
  end.

(** ExtendedKalmanFilter.process_model: (next state by name order, next covariance) *)
Definition run_predict (F : filt) (dtv : Q) (st ctl cal : list (name * Q)) (P : lmat) : option (list Q * lmat) :=
  let d := mk_defn (f_def F) in
  let i := mk_inputs (f_def F) dtv st ctl cal in
  match jac 0 F [] (f_gjac F) i, py_block Q qeval prefix_scope d model_arglist_order model_call_order
                                   (fst (f_model F)) (snd (f_model F)) i with
  | Some G, Some fx =>
      (* without controls numpy multiplies an (n,0) by a (0,0) matrix: an n x n zero block; the list
         representation cannot carry empty shapes, so an explicit zero column and a 1x1 zero noise
         (same value) stand for it *)
      let VM := match d_U d with
                | [] => Some (map (fun _ => [0%Q]) (d_S d), [[0%Q]])
                | _ => option_map (fun V => (V, py_noise_matrix (d_U d) (f_noise F))) (jac 1 F [] (f_vjac F) i)
                end in
      match VM with
      | Some (V, M) =>
          (* premises of Proofs/Refine.refine_py_predict, checked by computation on this case *)
          let n := length P in let c := length M in
          if (1 <=? n)%nat && (1 <=? c)%nat && shaped2b n n G && shaped2b n c V && shaped2b n n P && shaped2b c c M
          then Some (fx, py_process_model_cov_l G V P M) else Some (fx, [])
      | None => None
      end
  | _, _ => None
  end.

(** exact decision: nis > k*sqrt(2m)+m  <->  nis - m > 0 and (nis - m)^2 > 2 m k^2   (k >= 0) *)
Definition rm_exact (k : option Q) (innovation S_inv : lmat) : bool :=
  match k with
  | None => false
  | Some k =>
      let m := inject_Z (Z.of_nat (length innovation)) in
      let e := (py_nis_l innovation S_inv - m)%Q in
      negb (Qle_bool e 0) && negb (Qle_bool (e * e) (2 * m * k * k))
  end.

(** ExtendedKalmanFilter.sensor_model: ((state, covariance), (recorded innovation, recorded S)) *)
Definition run_update (F : filt) (S : sens) (k : option Q) (st cal : list (name * Q)) (P : lmat)
    (reading : list (name * Q)) : option ((list Q * lmat) * (list Q * lmat) * bool) :=
  let d := mk_defn (f_def F) in
  let i := mk_inputs (f_def F) 0 st [] cal in
  let rn := sort_names (map fst (s_readings S)) in
  match py_block Q qeval prefix_scope d sensor_arglist_order sensor_call_order (fst (s_block S)) (snd (s_block S)) i,
        jac 2 F (s_readings S) (s_hjac S) i, ncov_make rn (s_noise S), nv_make rn reading with
  | Some hx, Some H, Ok Qm, Ok z =>
      let x := colv (i_S Q i) in
      let '((x', P'), (inn, St)) := py_sensor_model_l (rm_exact k) x P (colv z) (colv hx) H Qm in
      (* premises of Proofs/Refine.refine_py_update (shapes, inverse certificate S * linv S = I), checked by
         computation on this case; an empty covariance marks a failed premise *)
      let n := length P in let m := length Qm in
      let Sinv := linv St in
      let okp := (1 <=? n)%nat && (1 <=? m)%nat && shaped2b n 1 x && shaped2b n n P && shaped2b m 1 (colv z) && shaped2b m 1 (colv hx)
                 && shaped2b m n H && shaped2b m m Qm && cert_inv m St Sinv in
      Some ((uncol x', if okp then P' else []), (uncol inn, St), rm_exact k (lsub (colv z) (colv hx)) Sinv)
  | _, _, _, _ => None
  end.

Definition vclose (a b : list Q) : bool := lclose_norm tol (colv a) (colv b).

(** codes: 2 model undefined, 3 state differs, 4 covariance differs, 9 a shape premise of the refinement theorem fails, 0 ok *)
Definition check_predict (F : filt) (dtv : Q) (st ctl cal : list (name * Q)) (P : lmat)
    (impl_state : list Q) (impl_cov : lmat) : nat :=
  match run_predict F dtv st ctl cal P with
  | None => 2%nat
  | Some (fx, P') => if Nat.eqb (length P') 0 then 9%nat else
                     if negb (vclose fx impl_state) then 3%nat else if negb (lclose_norm tol P' impl_cov) then 4%nat else 0%nat
  end.

(** codes: 2 undefined, 3 state, 4 covariance, 5 recorded innovation, 6 recorded S, 7 decision,
    8 a premise of the refinement theorem (shapes, inverse certificate) fails on this case, 0 ok *)
Definition check_update (F : filt) (S : sens) (k : option Q) (st cal : list (name * Q)) (P : lmat)
    (reading : list (name * Q)) (impl_state : list Q) (impl_cov : lmat) (impl_innov : list Q) (impl_S : lmat)
    (impl_rejected : bool) : nat :=
  match run_update F S k st cal P reading with
  | None => 2%nat
  | Some ((x', P'), (inn, St), rej) =>
      if Nat.eqb (length P') 0 then 8%nat else
      if negb (Bool.eqb rej impl_rejected) then 7%nat else
      if negb (vclose x' impl_state) then 3%nat else
      if negb (lclose_norm tol P' impl_cov) then 4%nat else
      if negb (vclose inn impl_innov) then 5%nat else
      if negb (lclose_norm tol St impl_S) then 6%nat else 0%nat
  end.
