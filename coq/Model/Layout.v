(** Layout glue of the Python back end: argument lists, positional calls, named results, and
    row-major flattening / un-flattening of Jacobians.  Orders, scopes and index expressions are
    parameters here; their values are regenerated from python.py into gen/LayoutParams.v. *)
From Coq Require Import String List Bool Arith Lia.
From FV Require Import Base.Expr Model.BasicBlock.
Import ListNotations.

Inductive group := Gdt | Gstate | Gcal | Gctl.

(** a model definition, symbol lists already in the library's (name-sorted) order *)
Record defn := mkDefn { d_dt : name; d_S : list name; d_C : list name; d_U : list name; d_model : name -> expr }.

Definition group_names (d : defn) (g : group) : list name :=
  match g with Gdt => [d_dt d] | Gstate => d_S d | Gcal => d_C d | Gctl => d_U d end.

Definition arglist (d : defn) (order : list group) : list name := flat_map (group_names d) order.

Section Py.
Variable T : Type.
Variable ev : (name -> option T) -> expr -> option T.
Variable scope : nat -> list name -> list name.
Hypothesis scope_firstn : forall i ts, scope i ts = firstn i ts.

Record inputs := mkInputs { i_dt : T; i_S : list T; i_C : list T; i_U : list T }.

Definition group_vals (i : inputs) (g : group) : list T :=
  match g with Gdt => [i_dt i] | Gstate => i_S i | Gcal => i_C i | Gctl => i_U i end.

Definition posargs (i : inputs) (order : list group) : list T := flat_map (group_vals i) order.

Definition shapes_ok (d : defn) (i : inputs) : Prop :=
  length (i_S i) = length (d_S d) /\ length (i_C i) = length (d_C d) /\ length (i_U i) = length (d_U d).

Lemma posargs_length d i order : shapes_ok d i -> length (posargs i order) = length (arglist d order).
Proof.
  intros (HS & HC & HU). unfold posargs, arglist.
  induction order as [|g o IH]; [reflexivity|]. simpl. rewrite !app_length, IH. f_equal.
  destruct g; simpl; auto.
Qed.

(** the environment that binds every symbol to the value supplied under its name *)
Definition named_env (d : defn) (i : inputs) (order : list group) : name -> option T :=
  fun x => lookup x (combine (arglist d order) (posargs i order)).

(** python.Model.model: BasicBlock over [arglist], called positionally, results zipped with the
    state names and stored by keyword in a State *)
Definition py_block (d : defn) (arg_order call_order : list group)
    (prefix : list (name * expr)) (body : list expr) (i : inputs) : option (list T) :=
  execute T ev scope (arglist d arg_order) prefix body (posargs i call_order).

Definition py_model (d : defn) (arg_order call_order : list group)
    (prefix : list (name * expr)) (body : list expr) (i : inputs) : option (list (name * T)) :=
  option_map (combine (d_S d)) (py_block d arg_order call_order prefix body i).

(** Central theorem (by-name correctness): with the call order equal to the arglist order, for any
    CSE result satisfying the contract, the block returns, in statement order, the value of every
    original expression in the named environment. *)
Theorem py_block_spec d order prefix body original i :
  shapes_ok d i ->
  cse_contract T ev (arglist d order) original prefix body ->
  py_block d order order prefix body i = all_some (map (ev (named_env d i order)) original).
Proof.
  intros Sh C. unfold py_block, named_env.
  apply (execute_original T ev scope scope_firstn); [exact C|].
  apply posargs_length; exact Sh.
Qed.

Corollary py_model_spec d order prefix body i :
  shapes_ok d i ->
  cse_contract T ev (arglist d order) (map (d_model d) (d_S d)) prefix body ->
  py_model d order order prefix body i =
  option_map (combine (d_S d)) (all_some (map (fun x => ev (named_env d i order) (d_model d x)) (d_S d))).
Proof.
  intros Sh C. unfold py_model. rewrite (py_block_spec d order prefix body _ i Sh C).
  now rewrite map_map.
Qed.

(** reading the result back by name gives that state variable's own expression *)
Corollary py_model_by_name d order prefix body i r k x :
  shapes_ok d i -> NoDup (d_S d) ->
  cse_contract T ev (arglist d order) (map (d_model d) (d_S d)) prefix body ->
  py_model d order order prefix body i = Some r ->
  nth_error (d_S d) k = Some x ->
  option_map Some (lookup x r) = Some (ev (named_env d i order) (d_model d x)).
Proof.
  intros Sh ND C E Hk. rewrite (py_model_spec d order prefix body i Sh C) in E.
  destruct (all_some _) as [vs|] eqn:A; [|discriminate]. injection E as <-.
  pose proof (all_some_length _ _ A) as L. rewrite map_length in L.
  pose proof (all_some_nth _ vs k A) as N. rewrite nth_error_map, Hk in N. cbn [option_map] in N.
  destruct (nth_error vs k) as [v|] eqn:Ev.
  - rewrite (lookup_combine_nth (d_S d) vs k x v ND (eq_sym L) Hk Ev). cbn. now rewrite N.
  - exfalso. apply nth_error_None in Ev. assert (k < length (d_S d)) by (apply nth_error_Some; congruence). lia.
Qed.

(** a symbol's value in the named environment is the value stored under that name *)
Lemma named_env_state d i k x v :
  NoDup (arglist d [Gdt; Gstate; Gcal; Gctl]) -> shapes_ok d i ->
  nth_error (d_S d) k = Some x -> nth_error (i_S i) k = Some v ->
  named_env d i [Gdt; Gstate; Gcal; Gctl] x = Some v.
Proof.
  intros ND Sh Hk Hv. unfold named_env.
  apply (lookup_combine_nth _ _ (S k)); [exact ND|symmetry; apply posargs_length; exact Sh| |].
  - cbn. rewrite nth_error_app1; [exact Hk|]. apply nth_error_Some. congruence.
  - cbn. rewrite nth_error_app1; [exact Hv|]. apply nth_error_Some. congruence.
Qed.

End Py.

(** * Row-major flattening and un-flattening of Jacobians *)
Section Flat.
Variables A B E : Type.

Definition flatten_rc (f : A -> B -> E) (rows : list A) (cols : list B) : list E :=
  concat (map (fun r => map (f r) cols) rows).

Lemma flatten_rc_nth f rows cols r c a b :
  nth_error rows r = Some a -> nth_error cols c = Some b ->
  nth_error (flatten_rc f rows cols) (r * length cols + c) = Some (f a b).
Proof.
  unfold flatten_rc. revert r. induction rows as [|a0 rows IH]; intros [|r] Ha Hb; simpl in *; try discriminate.
  - injection Ha as ->. rewrite nth_error_app1.
    + rewrite nth_error_map, Hb. reflexivity.
    + rewrite map_length. apply nth_error_Some. congruence.
  - rewrite nth_error_app2; rewrite map_length; [|lia].
    replace (length cols + r * length cols + c - length cols) with (r * length cols + c) by lia.
    apply IH; assumption.
Qed.

Lemma flatten_rc_length f rows cols : length (flatten_rc f rows cols) = length rows * length cols.
Proof.
  unfold flatten_rc. induction rows as [|a rows IH]; [reflexivity|]. simpl. now rewrite app_length, map_length, IH.
Qed.
End Flat.

Section Unflat.
Variable V : Type.
(** result[row][col] = computed[idx row col] for row < nr, col < nc *)
Definition unflat (nr nc : nat) (idx : nat -> nat -> nat) (vs : list V) : list (list (option V)) :=
  map (fun r => map (fun c => nth_error vs (idx r c)) (seq 0 nc)) (seq 0 nr).

Lemma unflat_nth nr nc idx vs r c : r < nr -> c < nc ->
  exists row, nth_error (unflat nr nc idx vs) r = Some row /\ nth_error row c = Some (nth_error vs (idx r c)).
Proof.
  intros Hr Hc. unfold unflat. eexists. split.
  - rewrite nth_error_map. rewrite (nth_error_nth' (seq 0 nr) 0) by (now rewrite seq_length).
    rewrite seq_nth by exact Hr. cbn [option_map]. reflexivity.
  - rewrite nth_error_map. rewrite (nth_error_nth' (seq 0 nc) 0) by (now rewrite seq_length).
    rewrite seq_nth by exact Hc. reflexivity.
Qed.
End Unflat.
