(** Executable harness: runs the regenerated Python tick and the C++ hand model over PrimFloat with a
    call-recording filter and compares with the traces observed on the implementations (bit-exact). *)
From Coq Require Import ZArith List PrimFloat SpecFloat FloatOps Bool.
From FV Require Import Base.Num Model.Runtime Model.RuntimeCpp gen.RuntimePy.
Import ListNotations.

Definition sf_eqb (a b : spec_float) : bool :=
  match a, b with
  | S754_zero s1, S754_zero s2 => Bool.eqb s1 s2
  | S754_infinity s1, S754_infinity s2 => Bool.eqb s1 s2
  | S754_nan, S754_nan => true
  | S754_finite s1 m1 e1, S754_finite s2 m2 e2 => Bool.eqb s1 s2 && Pos.eqb m1 m2 && Z.eqb e1 e2
  | _, _ => false
  end.
Definition feqb (a b : float) : bool := sf_eqb (Prim2SF a) (Prim2SF b).

(** events: (0, dt) = prediction step of length dt ; (1 + key, 0) = sensor update with sensor [key] *)
Definition ev := (Z * float)%type.
Definition ev_eqb (a b : ev) : bool := Z.eqb (fst a) (fst b) && feqb (snd a) (snd b).

(** run-length encoding of a trace given newest-first; result oldest-first *)
Fixpoint rle_rev (tr : list ev) (acc : list (ev * Z)) : list (ev * Z) :=
  match tr with
  | [] => acc
  | e :: r => match acc with
              | (e', n) :: acc' => if ev_eqb e e' then rle_rev r ((e', (n + 1)%Z) :: acc') else rle_rev r ((e, 1%Z) :: acc)
              | [] => rle_rev r [(e, 1%Z)]
              end
  end.
Definition rle (tr : list ev) : list (ev * Z) := rle_rev tr [].

Fixpoint rle_eqb (a b : list (ev * Z)) : bool :=
  match a, b with
  | [], [] => true
  | (e1, n1) :: a', (e2, n2) :: b' => ev_eqb e1 e2 && Z.eqb n1 n2 && rle_eqb a' b'
  | _, _ => false
  end.

Definition rd := (float * Z)%type.  (* timestamp, sensor key *)
Definition tick_in := (float * bool * option (list rd))%type.   (* output time, control given?, readings *)
(** observed per tick: None = the call raised; Some (returned trace, held time, held trace) *)
Definition tick_obs := option (list (ev * Z) * float * list (ev * Z))%type.

(** [full = false]: only the returned estimate is observable (C++: the held state is private; it is
    observed through the traces returned by later ticks of the same history) *)
Definition obs_eqb (full : bool) (m o : tick_obs) : bool :=
  match m, o with
  | None, None => true
  | Some (r1, t1, h1), Some (r2, t2, h2) =>
      rle_eqb r1 r2 && (negb full || (feqb t1 t2 && rle_eqb h1 h2))
  | _, _ => false
  end.

(** Python: the regenerated py_tick over FNum with a recording filter (state = trace, covariance = unit) *)
Definition py_one (max_dt : float) (cs : Z) (h : float * list ev) (t : tick_in) : tick_obs * (float * list ev) :=
  let '(out, hasctl, rs) := t in
  match py_tick FNum (list ev) unit unit rd Z unit Z
          (fun d s c _ => ((0%Z, d) :: s, tt)) (fun s c k _ => (((1 + k)%Z, 0%float) :: s, tt)) (fun k _ => k)
          cs max_dt fst snd (fun _ => None) (fun _ => tt)
          (fst h) (snd h) tt out (if hasctl then Some tt else None) rs with
  | None => (None, h)
  | Some ((s, _), (t', s', _)) => (Some (rle s, t', rle s'), (t', s'))
  end.

Fixpoint py_history (max_dt : float) (cs : Z) (h : float * list ev) (ts : list tick_in) : list tick_obs :=
  match ts with
  | [] => []
  | t :: r => let '(o, h') := py_one max_dt cs h t in o :: py_history max_dt cs h' r
  end.

(** C++: hand model over FNum with the same recorder *)
Definition cpp_one (max_dt : float) (h : float * list ev) (t : tick_in) : tick_obs * (float * list ev) :=
  let '(out, _, rs) := t in
  match cpp_tick FNum (list ev) rd (fun d s => (0%Z, d) :: s) (fun r s => ((1 + snd r)%Z, 0%float) :: s) fst
          max_dt h out (odefault rs []) with
  | None => (None, h)
  | Some (h', s) => (Some (rle s, fst h', rle (snd h')), h')
  end.

Fixpoint cpp_history (max_dt : float) (h : float * list ev) (ts : list tick_in) : list tick_obs :=
  match ts with
  | [] => []
  | t :: r => let '(o, h') := cpp_one max_dt h t in o :: cpp_history max_dt h' r
  end.

Fixpoint all_eqb (full : bool) (m o : list tick_obs) : bool :=
  match m, o with
  | [], [] => true
  | a :: m', b :: o' => obs_eqb full a b && all_eqb full m' o'
  | _, _ => false
  end.

(** a case: configuration, history, observed results.  Returns the indices of disagreeing cases. *)
Definition case := (float * Z * float * list tick_in * list tick_obs)%type.

Fixpoint mismatches (full : bool) (run : float -> Z -> float * list ev -> list tick_in -> list tick_obs)
  (cs : list case) (i : nat) : list nat :=
  match cs with
  | [] => []
  | (max_dt, csz, start, ticks, obs) :: r =>
      (if all_eqb full (run max_dt csz (start, []) ticks) obs then [] else [i]) ++ mismatches full run r (S i)
  end.

Definition py_mismatches (cs : list case) := mismatches true py_history cs 0.
Definition cpp_mismatches (cs : list case) := mismatches false (fun m _ => cpp_history m) cs 0.

(** the step plan itself, for the property predicate on exact and float instances *)
Definition fplan (max_dt cur out : float) := plan FNum max_dt cur out.

(** the filter calls a tick adds to the held trace, oldest first (for the by-hand replay of C12) *)
Definition new_events (held ret : list ev) : list ev := rev (firstn (length ret - length held) ret).

Fixpoint cpp_history_events (max_dt : float) (h : float * list ev) (ts : list tick_in) : list (option (list ev)) :=
  match ts with
  | [] => []
  | (out, c, rs) :: r =>
      match cpp_tick FNum (list ev) rd (fun d s => (0%Z, d) :: s) (fun r s => ((1 + snd r)%Z, 0%float) :: s) fst
              max_dt h out (odefault rs []) with
      | None => None :: cpp_history_events max_dt h r
      | Some (h', s) => Some (new_events (snd h) s) :: cpp_history_events max_dt h' r
      end
  end.
