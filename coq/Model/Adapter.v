(** SklearnEKFAdapter.transform: how a data row is cut into the control vector and one reading vector per
    sensor (sensors in sorted key order), and the fold over rows.  Hand model of the pinned loop. *)
From Coq Require Import String List Bool Arith Lia.
From FV Require Import Base.Names Base.Expr.
Import ListNotations.

Section Slices.
Variable V : Type.

(** sizes = control_size :: size of each sensor in sorted key order *)
Fixpoint slices (sizes : list nat) (row : list V) : list (list V) :=
  match sizes with
  | [] => []
  | n :: r => firstn n row :: slices r (skipn n row)
  end.

Definition total (sizes : list nat) : nat := fold_right Nat.add 0 sizes.

(** the slices are consecutive, disjoint pieces of the row, of exactly the requested sizes, and together
    they are the row *)
Theorem slices_lengths sizes row : total sizes <= length row -> map (@length V) (slices sizes row) = sizes.
Proof.
  revert row. induction sizes as [|n r IH]; intros row H; [reflexivity|]. simpl in *.
  rewrite firstn_length, Nat.min_l by lia. f_equal. apply IH. rewrite skipn_length. lia.
Qed.

Theorem slices_concat sizes row : total sizes = length row -> concat (slices sizes row) = row.
Proof.
  revert row. induction sizes as [|n r IH]; intros row H; simpl in *.
  - destruct row; [reflexivity|discriminate].
  - rewrite IH; [apply firstn_skipn|]. rewrite skipn_length. lia.
Qed.

Lemma nth_error_firstn_lt' (l : list V) n j : j < n -> nth_error (firstn n l) j = nth_error l j.
Proof.
  revert l j. induction n as [|n IH]; intros l j H; [lia|]. destruct l as [|x l]; [now destruct j|].
  destruct j as [|j]; [reflexivity|]. simpl. apply IH. lia.
Qed.

Lemma nth_error_skipn' (l : list V) n j : nth_error (skipn n l) j = nth_error l (n + j).
Proof.
  revert l. induction n as [|n IH]; intro l; [reflexivity|]. destruct l as [|x l]; [now destruct j|]. simpl. apply IH.
Qed.

(** the k-th slice starts right after the previous ones: entry j of slice k is entry (sum of earlier sizes + j) of the row *)
Theorem slices_nth sizes row k j piece :
  nth_error (slices sizes row) k = Some piece -> j < nth k sizes 0 ->
  nth_error piece j = nth_error row (total (firstn k sizes) + j).
Proof.
  revert row k. induction sizes as [|n r IH]; intros row k Hk Hj; [destruct k; discriminate|].
  destruct k as [|k]; simpl in *.
  - injection Hk as <-. apply nth_error_firstn_lt'. exact Hj.
  - rewrite (IH (skipn n row) k Hk Hj), nth_error_skipn'. f_equal. lia.
Qed.
End Slices.

(** transform = fold over rows of: predict with the fixed step, then update the sensors in sorted key order,
    emitting one normalised innovation squared per sensor *)
Section Fold.
Variables St V Out : Type.
Variable predict : St -> list V -> St.                 (* process_model(dt, state, covariance, control) *)
Variable update : name -> St -> list V -> St * Out.    (* sensor_model + NIS from the recorded innovation and S *)
Variable control_size : nat.
Variable sensors : list (name * nat).                  (* declared (key, reading size), any order *)

Definition ordered : list (name * nat) :=
  map (fun k => (k, match lookup k sensors with Some n => n | None => 0 end)) (sort_names (map fst sensors)).

Definition row_step (s : St) (row : list V) : St * list Out :=
  let pieces := slices V (control_size :: map snd ordered) row in
  let s1 := predict s (hd [] pieces) in
  fold_left (fun acc kp => let '(st, outs) := acc in
                           let '(st', o) := update (fst (fst kp)) st (snd kp) in (st', outs ++ [o]))
            (combine ordered (tl pieces)) (s1, []).

Definition transform (s0 : St) (X : list (list V)) : list (list Out) :=
  snd (fold_left (fun acc row => let '(s, outs) := acc in let '(s', o) := row_step s row in (s', outs ++ [o])) X (s0, [])).

(** one output row per data row *)
Lemma transform_rows s0 X : length (transform s0 X) = length X.
Proof.
  unfold transform. assert (G : forall acc, length (snd (fold_left (fun acc row => let '(s, outs) := acc in let '(s', o) := row_step s row in (s', outs ++ [o])) X acc)) = length (snd acc) + length X).
  { induction X as [|r X IH]; intro acc; simpl; [lia|]. destruct acc as [s outs]. destruct (row_step s r) as [s' o].
    rewrite IH. simpl. rewrite app_length. simpl. lia. }
  rewrite G. reflexivity.
Qed.
End Fold.
