(** Structural validity of a definition (from the property text) and hand models of the guard sequences
    of the five entry points (ui.Model, python.compile, python.compile_ekf, cpp.compile, cpp.compile_ekf);
    theorems: each entry point accepts exactly the definitions that are valid in the facts it sees. *)
From Coq Require Import String List Bool Arith Lia.
From FV Require Import Base.Expr.
Import ListNotations.

Definition mem (x : name) (l : list name) : bool := existsb (String.eqb x) l.
Definition subset (a b : list name) : bool := forallb (fun x => mem x b) a.
Definition seteq (a b : list name) : bool := subset a b && subset b a.
Definition disj (a b : list name) : bool := forallb (fun x => negb (mem x b)) a.

Lemma mem_In x l : mem x l = true <-> In x l.
Proof.
  unfold mem. rewrite existsb_exists. split.
  - intros (y & Hy & E). apply String.eqb_eq in E. now subst.
  - intro H. exists x. split; [exact H|apply String.eqb_refl].
Qed.

Lemma subset_incl a b : subset a b = true <-> incl a b.
Proof.
  unfold subset. rewrite forallb_forall. split.
  - intros H x Hx. apply mem_In. now apply H.
  - intros H x Hx. apply mem_In. now apply H.
Qed.

Record vdef := mkV {
  vs : list name; vu : list name; vc : list name;          (* declared state / control / calibration *)
  vmk : list name;                                          (* keys of the state-model dict *)
  vck : list name;                                          (* keys of the calibration map *)
  vpn : list (bool * name * bool);                          (* process noise: (key is a Symbol, its name, value >= 0) *)
  vsm : list (name * list (name * list name));              (* sensor -> reading -> free symbols of its model *)
  vsn : list (name * list name) }.                          (* sensor -> readings that were given a noise *)

Definition pn_names (d : vdef) : list name := map (fun e => snd (fst e)) (vpn d).

(** dict keys are unique; declared symbol collections have no repeated symbol *)
Definition wf (d : vdef) : Prop :=
  NoDup (vs d) /\ NoDup (vu d) /\ NoDup (vc d) /\ NoDup (vmk d) /\ NoDup (vck d) /\ NoDup (pn_names d) /\
  NoDup (map fst (vsm d)) /\ NoDup (map fst (vsn d)) /\
  Forall (fun s => NoDup (map fst (snd s))) (vsm d) /\ Forall (fun s => NoDup (snd s)) (vsn d).

(** * Structural validity, as the property states it *)
Definition valid_symbols (d : vdef) : bool := disj (vs d) (vc d) && disj (vs d) (vu d) && disj (vc d) (vu d).
Definition valid_model (d : vdef) : bool := seteq (vmk d) (vs d).
Definition valid_calibration (d : vdef) : bool := seteq (vck d) (vc d).
Definition valid_process_noise (d : vdef) : bool :=
  forallb (fun e => fst (fst e) && mem (snd (fst e)) (vu d) && snd e) (vpn d) && subset (vu d) (pn_names d).
Definition valid_sensor_models (d : vdef) : bool :=
  forallb (fun s => forallb (fun r => subset (snd r) (vs d ++ vc d)) (snd s)) (vsm d).
Definition noise_of (k : name) (d : vdef) : option (list name) := lookup k (vsn d).
Definition valid_sensor_noise (d : vdef) : bool :=
  seteq (map fst (vsn d)) (map fst (vsm d)) &&
  forallb (fun s => match noise_of (fst s) d with Some rs => seteq rs (map fst (snd s)) | None => false end) (vsm d).

Definition valid_definition (d : vdef) : bool := valid_symbols d && valid_model d.
Definition valid_model_compile (d : vdef) : bool := valid_definition d && valid_calibration d.
Definition valid_filter_compile (d : vdef) : bool :=
  valid_model_compile d && valid_process_noise d && valid_sensor_models d && valid_sensor_noise d.

(** * Guard sequences of the entry points (hand models) *)
(** ui.Model.__init__: three disjointness tests, len(state_model) == len(state), every state in state_model *)
Definition accepts_ui (d : vdef) : bool :=
  disj (vs d) (vc d) && disj (vs d) (vu d) && disj (vc d) (vu d) &&
  Nat.eqb (length (vmk d)) (length (vs d)) && forallb (fun k => mem k (vmk d)) (vs d).

(** common.model_validation *)
Definition mv_process_noise (d : vdef) : bool := forallb (fun e => fst (fst e) && mem (snd (fst e)) (vu d)) (vpn d).
Definition mv_calibration (d : vdef) : bool := seteq (vck d) (vc d).
Definition mv_sensors (d : vdef) : bool := valid_sensor_models d.

(** python.Model / cpp.Model / both filter constructors: calibration map size checks *)
Definition ctor_calibration (d : vdef) : bool :=
  match vc d with
  | [] => true
  | _ => negb (Nat.eqb (length (vck d)) 0) && Nat.eqb (length (vck d)) (length (vc d))
  end.

Definition accepts_py_compile (d : vdef) : bool := accepts_ui d && mv_calibration d && ctor_calibration d.
Definition accepts_cpp_compile (d : vdef) : bool := accepts_ui d && mv_calibration d && ctor_calibration d.

(** python.ExtendedKalmanFilter: len(process_noise) == control_size, the noise matrix must be a valid
    covariance (no negative variance), sensor keys equal, per-sensor noise has one entry per reading and no
    unknown reading (named covariance constructor) *)
Definition ekf_noise_checks (d : vdef) : bool :=
  Nat.eqb (length (vpn d)) (length (vu d)) && forallb (fun e => snd e) (vpn d).
Definition py_sensor_checks (d : vdef) : bool :=
  seteq (map fst (vsm d)) (map fst (vsn d)) && Nat.eqb (length (vsn d)) (length (vsm d)) &&
  forallb (fun s => match noise_of (fst s) d with
                    | Some rs => Nat.eqb (length rs) (length (snd s)) && subset rs (map fst (snd s))
                    | None => false end) (vsm d).
(** cpp.ExtendedKalmanFilter: the same facts checked as set equalities *)
Definition cpp_sensor_checks (d : vdef) : bool :=
  seteq (map fst (vsm d)) (map fst (vsn d)) &&
  forallb (fun s => match noise_of (fst s) d with Some rs => seteq rs (map fst (snd s)) | None => false end) (vsm d).

Definition accepts_py_compile_ekf (d : vdef) : bool :=
  accepts_ui d && mv_process_noise d && mv_calibration d && mv_sensors d && ctor_calibration d && ekf_noise_checks d && py_sensor_checks d.
Definition accepts_cpp_compile_ekf (d : vdef) : bool :=
  accepts_ui d && mv_process_noise d && mv_calibration d && mv_sensors d && ctor_calibration d && ekf_noise_checks d && cpp_sensor_checks d.

(** * Equivalences *)
Lemma nodup_incl_len_seteq a b : NoDup a -> NoDup b ->
  (Nat.eqb (length a) (length b) && subset b a) = seteq a b.
Proof.
  intros Na Nb. unfold seteq. destruct (subset b a) eqn:Sb; rewrite ?andb_true_r, ?andb_false_r; [|reflexivity].
  apply subset_incl in Sb.
  destruct (Nat.eqb_spec (length a) (length b)) as [E|E].
  - symmetry. apply subset_incl. apply NoDup_length_incl; [exact Nb|lia|exact Sb].
  - destruct (subset a b) eqn:Sa; [|reflexivity]. apply subset_incl in Sa.
    pose proof (NoDup_incl_length Na Sa). pose proof (NoDup_incl_length Nb Sb). lia.
Qed.

Lemma seteq_sym a b : seteq a b = seteq b a.
Proof. unfold seteq. apply andb_comm. Qed.

Lemma subset_forall_mem a b : forallb (fun k => mem k b) a = subset a b.
Proof. reflexivity. Qed.

Theorem ui_accepts_iff_valid d : wf d -> accepts_ui d = valid_definition d.
Proof.
  intros (Ns & _ & _ & Nm & _). unfold accepts_ui, valid_definition, valid_symbols, valid_model.
  rewrite <- !andb_assoc. do 3 f_equal.
  rewrite subset_forall_mem. exact (nodup_incl_len_seteq (vmk d) (vs d) Nm Ns).
Qed.

Lemma ctor_calibration_implied d : NoDup (vck d) -> NoDup (vc d) -> mv_calibration d = true -> ctor_calibration d = true.
Proof.
  intros Nk Nc H. unfold mv_calibration in H. unfold ctor_calibration.
  destruct (vc d) as [|c l] eqn:E; [reflexivity|].
  rewrite <- (nodup_incl_len_seteq _ _ Nk Nc) in H. apply andb_prop in H. destruct H as [H _].
  rewrite H. simpl in *. apply Nat.eqb_eq in H. rewrite H. reflexivity.
Qed.

Theorem py_compile_accepts_iff_valid d : wf d -> accepts_py_compile d = valid_model_compile d.
Proof.
  intros W. pose proof W as (Ns & Nu & Nc & Nm & Nk & _). unfold accepts_py_compile, valid_model_compile.
  rewrite (ui_accepts_iff_valid d W). unfold valid_calibration.
  destruct (valid_definition d); [|reflexivity]. cbn [andb].
  destruct (mv_calibration d) eqn:E; unfold mv_calibration in E; rewrite E; [|reflexivity].
  cbn [andb]. apply ctor_calibration_implied; assumption.
Qed.

Theorem cpp_compile_accepts_iff_valid d : wf d -> accepts_cpp_compile d = valid_model_compile d.
Proof. exact (py_compile_accepts_iff_valid d). Qed.

Lemma pn_checks d : NoDup (pn_names d) -> NoDup (vu d) ->
  (mv_process_noise d && ekf_noise_checks d) = valid_process_noise d.
Proof.
  intros Np Nu. unfold mv_process_noise, ekf_noise_checks, valid_process_noise.
  set (A := forallb (fun e => fst (fst e) && mem (snd (fst e)) (vu d)) (vpn d)).
  set (B := forallb (fun e => snd e) (vpn d)).
  assert (E : forallb (fun e => fst (fst e) && mem (snd (fst e)) (vu d) && snd e) (vpn d) = A && B).
  { unfold A, B. induction (vpn d) as [|e l IH]; [reflexivity|]. cbn [forallb]. rewrite IH.
    destruct (fst (fst e)), (mem (snd (fst e)) (vu d)), (snd e); cbn; try reflexivity;
    now destruct (forallb _ l), (forallb _ l). }
  rewrite E. destruct A eqn:EA; [|reflexivity]. cbn [andb].
  assert (Hincl : subset (pn_names d) (vu d) = true).
  { apply subset_incl. intros x Hx. unfold pn_names in Hx. apply in_map_iff in Hx. destruct Hx as (e & <- & He).
    unfold A in EA. rewrite forallb_forall in EA. specialize (EA e He). apply andb_prop in EA. apply mem_In. exact (proj2 EA). }
  assert (L : length (vpn d) = length (pn_names d)) by (unfold pn_names; now rewrite map_length).
  rewrite L, (andb_comm _ B). f_equal.
  apply subset_incl in Hincl.
  destruct (Nat.eqb_spec (length (pn_names d)) (length (vu d))) as [EL|EL].
  - symmetry. apply subset_incl. apply NoDup_length_incl; [exact Np|lia|exact Hincl].
  - destruct (subset (vu d) (pn_names d)) eqn:S2; [|reflexivity]. apply subset_incl in S2.
    pose proof (NoDup_incl_length Nu S2). pose proof (NoDup_incl_length Np Hincl). lia.
Qed.

Lemma forallb_ext_in {A} (f g : A -> bool) l : (forall x, In x l -> f x = g x) -> forallb f l = forallb g l.
Proof.
  induction l as [|a l IH]; intro H; [reflexivity|]. cbn [forallb]. rewrite (H a (or_introl eq_refl)).
  f_equal. apply IH. intros x Hx. apply H. now right.
Qed.

Lemma lookup_In {V} k (l : list (name * V)) v : lookup k l = Some v -> In (k, v) l.
Proof.
  induction l as [|[k' v'] l IH]; simpl; [discriminate|]. destruct (String.eqb_spec k k') as [->|N].
  - intro E. injection E as ->. now left.
  - intro E. right. now apply IH.
Qed.

Lemma sensor_checks_agree d : wf d -> py_sensor_checks d = cpp_sensor_checks d.
Proof.
  intros (_ & _ & _ & _ & _ & _ & Nsm & Nsn & Fsm & Fsn). unfold py_sensor_checks, cpp_sensor_checks.
  destruct (seteq (map fst (vsm d)) (map fst (vsn d))) eqn:E; [|reflexivity]. cbn [andb].
  assert (EL : Nat.eqb (length (vsn d)) (length (vsm d)) = true).
  { rewrite <- (nodup_incl_len_seteq _ _ Nsm Nsn) in E. apply andb_prop in E. destruct E as [E _].
    rewrite !map_length in E. now rewrite Nat.eqb_sym. }
  rewrite EL. cbn [andb]. apply forallb_ext_in. intros s Hs. unfold noise_of.
  destruct (lookup (fst s) (vsn d)) as [rs|] eqn:L; [|reflexivity].
  assert (Nrs : NoDup rs).
  { rewrite Forall_forall in Fsn. apply lookup_In in L. exact (Fsn _ L). }
  assert (Nr : NoDup (map fst (snd s))) by (rewrite Forall_forall in Fsm; now apply Fsm).
  rewrite (seteq_sym rs), <- (nodup_incl_len_seteq (map fst (snd s)) rs Nr Nrs).
  now rewrite map_length, Nat.eqb_sym.
Qed.

Theorem py_compile_ekf_accepts_iff_valid d : wf d -> accepts_py_compile_ekf d = valid_filter_compile d.
Proof.
  intros W. pose proof W as (Ns & Nu & Nc & Nm & Nk & Np & _).
  unfold accepts_py_compile_ekf, valid_filter_compile, valid_model_compile.
  rewrite (ui_accepts_iff_valid d W), (sensor_checks_agree d W).
  rewrite <- (pn_checks d Np Nu).
  unfold valid_calibration, mv_sensors, valid_sensor_noise, cpp_sensor_checks.
  rewrite (seteq_sym (map fst (vsn d))).
  pose proof (ctor_calibration_implied d Nk Nc) as HK. unfold mv_calibration in *.
  destruct (seteq (vck d) (vc d)).
  - rewrite (HK eq_refl).
    destruct (valid_definition d), (mv_process_noise d), (valid_sensor_models d), (ekf_noise_checks d),
             (seteq (map fst (vsm d)) (map fst (vsn d))); reflexivity.
  - destruct (valid_definition d), (mv_process_noise d); reflexivity.
Qed.

Theorem cpp_compile_ekf_accepts_iff_valid d : wf d -> accepts_cpp_compile_ekf d = valid_filter_compile d.
Proof.
  intro W. rewrite <- (py_compile_ekf_accepts_iff_valid d W).
  unfold accepts_cpp_compile_ekf, accepts_py_compile_ekf. now rewrite (sensor_checks_agree d W).
Qed.

(** the Python and the C++ entry points give the same verdict on every definition *)
Theorem entry_points_agree d : wf d ->
  accepts_py_compile d = accepts_cpp_compile d /\ accepts_py_compile_ekf d = accepts_cpp_compile_ekf d.
Proof.
  intro W. split; [reflexivity|].
  now rewrite (py_compile_ekf_accepts_iff_valid d W), (cpp_compile_ekf_accepts_iff_valid d W).
Qed.

(** non-vacuity: a valid two-state definition with one control, one calibration value and one sensor *)
Example valid_example :
  let d := mkV ["v"; "x"]%string ["a"]%string ["c"]%string ["x"; "v"]%string ["c"]%string [(true, "a"%string, true)]
               [("gps"%string, [("r"%string, ["x"; "c"]%string)])] [("gps"%string, ["r"]%string)] in
  valid_filter_compile d = true /\ accepts_py_compile_ekf d = true /\ accepts_cpp_compile_ekf d = true /\ accepts_ui d = true.
Proof. vm_compute. repeat split. Qed.
