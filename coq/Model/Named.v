(** common.named_vector / named_covariance (hand model, tied by correspondence) and noise assembly. *)
From Coq Require Import String List Bool Arith ZArith QArith Lia.
From FV Require Import Base.Names Base.Expr Base.ListMat.
Import ListNotations.

Inductive nerr := UnexpectedKeyword (k : name) | WrongShape.
Inductive result (A : Type) := Ok (a : A) | Err (e : nerr).
Arguments Ok {A} a. Arguments Err {A} e.

Definition known (arglist : list name) (k : name) : bool := existsb (String.eqb k) arglist.

Fixpoint first_unknown (arglist : list name) (kw : list (name * Q)) : option name :=
  match kw with
  | [] => None
  | (k, _) :: r => if known arglist k then first_unknown arglist r else Some k
  end.

(** named_vector(name, arglist) called with keyword values: unknown keyword -> TypeError; missing -> 0 *)
(** two generated classes carry the same names (what `cls._arglist == Other._arglist` compares) *)
Fixpoint same_names (a b : list name) : bool :=
  match a, b with
  | [], [] => true
  | x :: a', y :: b' => String.eqb x y && same_names a' b'
  | _, _ => false
  end.

Definition nv_make (arglist : list name) (kw : list (name * Q)) : result (list Q) :=
  match first_unknown arglist kw with
  | Some k => Err (UnexpectedKeyword k)
  | None => Ok (map (fun a => match lookup a kw with Some v => v | None => 0%Q end) arglist)
  end.

(** from_data: shape (len(arglist), 1) required *)
Definition nv_from_data (arglist : list name) (data : lmat) : result (list Q) :=
  if Nat.eqb (length data) (length arglist) && forallb (fun r => Nat.eqb (length r) 1) data
  then Ok (map (fun r => hd 0%Q r) data) else Err WrongShape.

Definition nv_get (arglist : list name) (v : list Q) (a : name) : option Q := lookup a (combine arglist v).

(** named_covariance: identity by default, keyword sets the diagonal entry *)
Definition ncov_make (arglist : list name) (kw : list (name * Q)) : result lmat :=
  match first_unknown arglist kw with
  | Some k => Err (UnexpectedKeyword k)
  | None =>
      Ok (map (fun a => map (fun b => if String.eqb a b
                                      then match lookup a kw with Some v => v | None => 1%Q end
                                      else 0%Q) arglist) arglist)
  end.

Definition ncov_from_data (arglist : list name) (data : lmat) : result lmat :=
  let n := length arglist in
  if Nat.eqb (length data) n && forallb (fun r => Nat.eqb (length r) n) data then Ok data else Err WrongShape.

Lemma first_unknown_none arglist kw :
  first_unknown arglist kw = None <-> forall k, In k (map fst kw) -> known arglist k = true.
Proof.
  induction kw as [|[k v] r IH]; simpl.
  - split; [intros _ k []|reflexivity].
  - destruct (known arglist k) eqn:E.
    + rewrite IH. split.
      * intros H k0 [<-|Hk]; [exact E|apply H; exact Hk].
      * intros H k0 Hk. apply H. right. exact Hk.
    + split; [discriminate|]. intro H. specialize (H k (or_introl eq_refl)). congruence.
Qed.

(** values are stored under their own names; the rest defaults to zero *)
Theorem nv_make_get arglist kw v a :
  NoDup arglist -> nv_make arglist kw = Ok v -> In a arglist ->
  nv_get arglist v a = Some (match lookup a kw with Some q => q | None => 0%Q end).
Proof.
  unfold nv_make, nv_get. destruct (first_unknown arglist kw); [discriminate|].
  intros ND E Ha. injection E as <-.
  induction arglist as [|b l IH]; [destruct Ha|]. simpl.
  destruct (String.eqb_spec a b) as [->|N]; [reflexivity|].
  destruct Ha as [->|Ha]; [congruence|]. inversion ND; subst. apply IH; assumption.
Qed.

Theorem nv_make_rejects_unknown arglist kw :
  (exists k, In k (map fst kw) /\ known arglist k = false) <-> exists k, nv_make arglist kw = Err (UnexpectedKeyword k).
Proof.
  unfold nv_make. split.
  - intros (k & Hk & Hf). destruct (first_unknown arglist kw) as [k0|] eqn:E; [now exists k0|].
    apply first_unknown_none with (k := k) in E; [congruence|exact Hk].
  - intros (k & E). destruct (first_unknown arglist kw) as [k0|] eqn:E0; [|discriminate].
    clear E. induction kw as [|[k1 v] r IH]; simpl in E0; [discriminate|].
    destruct (known arglist k1) eqn:K.
    + destruct (IH E0) as (k2 & H1 & H2). exists k2. split; [right; exact H1|exact H2].
    + exists k1. split; [left; reflexivity|exact K].
Qed.

Theorem nv_from_data_shape arglist data v :
  nv_from_data arglist data = Ok v -> length data = length arglist /\ length v = length arglist.
Proof.
  unfold nv_from_data. destruct (Nat.eqb (length data) (length arglist)) eqn:E; simpl; [|discriminate].
  destruct (forallb _ data); [|discriminate]. intro H. injection H as <-.
  apply Nat.eqb_eq in E. now rewrite map_length.
Qed.

(** covariances: unit variance by default, the named variance on the diagonal, zero elsewhere *)
Theorem ncov_make_entry arglist kw C i j a b :
  ncov_make arglist kw = Ok C -> nth_error arglist i = Some a -> nth_error arglist j = Some b ->
  option_map (fun row => nth_error row j) (nth_error C i) =
  Some (Some (if String.eqb a b then match lookup a kw with Some v => v | None => 1%Q end else 0%Q)).
Proof.
  unfold ncov_make. destruct (first_unknown arglist kw); [discriminate|]. intro E. injection E as <-.
  intros Hi Hj. unfold name in *. rewrite nth_error_map, Hi. cbn [option_map]. rewrite nth_error_map, Hj. reflexivity.
Qed.

(** * Noise assembly *)
Inductive nkey := K1 (a : name) | K2 (a b : name).
Definition nkey_eqb (x y : nkey) : bool :=
  match x, y with
  | K1 a, K1 b => String.eqb a b
  | K2 a b, K2 c d => String.eqb a c && String.eqb b d
  | _, _ => false
  end.
Fixpoint nlookup (k : nkey) (d : list (nkey * Q)) : option Q :=
  match d with [] => None | (k', v) :: r => if nkey_eqb k k' then Some v else nlookup k r end.

(** [key in d] and [d[key]] of the Python dict (the latter only evaluated under the former) *)
Definition nmem (k : nkey) (d : list (nkey * Q)) : bool := match nlookup k d with Some _ => true | None => false end.
Definition nget (k : nkey) (d : list (nkey * Q)) : Q := match nlookup k d with Some v => v | None => 0%Q end.

(** the value the source computes at loop iteration (i, j) *)
Definition noise_value (d : list (nkey * Q)) (i j : name) : Q :=
  match nlookup (K2 i j) d with
  | Some v => v
  | None => match nlookup (K2 j i) d with
            | Some v => v
            | None => if String.eqb i j then match nlookup (K1 i) d with Some v => v | None => 0%Q end else 0%Q
            end
  end.

(** process-noise matrix: the double loop stores value(i,j) into [i,j] and [j,i]; the last store wins,
    so entry [a,b] holds value(max(a,b), min(a,b)) by position (closed form of the loop; hand model) *)
Definition py_noise_matrix (controls : list name) (d : list (nkey * Q)) : lmat :=
  let n := length controls in
  map (fun a => map (fun b =>
         let hi := Nat.max a b in let lo := Nat.min a b in
         noise_value d (nth hi controls EmptyString) (nth lo controls EmptyString)) (seq 0 n)) (seq 0 n).

Definition only_symbol_keys (d : list (nkey * Q)) : bool :=
  forallb (fun kv => match fst kv with K1 _ => true | K2 _ _ => false end) d.

Lemma nlookup_K2_none d a b : only_symbol_keys d = true -> nlookup (K2 a b) d = None.
Proof.
  induction d as [|[k v] r IH]; simpl; [reflexivity|]. destruct k; simpl; [exact IH|discriminate].
Qed.

(** with per-control noise supplied by symbol (the only keys validation accepts): M is the diagonal
    matrix of the named noise, zero elsewhere *)
Theorem noise_matrix_diag controls d i j :
  only_symbol_keys d = true -> NoDup controls -> (i < length controls)%nat -> (j < length controls)%nat ->
  option_map (fun row => nth_error row j) (nth_error (py_noise_matrix controls d) i) =
  Some (Some (if Nat.eqb i j then match nlookup (K1 (nth i controls EmptyString)) d with Some v => v | None => 0%Q end
              else 0%Q)).
Proof.
  intros OK ND Hi Hj. unfold py_noise_matrix.
  rewrite nth_error_map, (nth_error_nth' _ 0%nat) by (now rewrite seq_length). rewrite seq_nth by exact Hi.
  cbn [option_map]. rewrite nth_error_map, (nth_error_nth' _ 0%nat) by (now rewrite seq_length).
  rewrite seq_nth by exact Hj. cbn [option_map plus]. unfold noise_value.
  rewrite !nlookup_K2_none by exact OK.
  destruct (Nat.eqb_spec i j) as [->|N].
  - rewrite Nat.max_id, Nat.min_id, String.eqb_refl. reflexivity.
  - destruct (String.eqb_spec (nth (Nat.max i j) controls EmptyString) (nth (Nat.min i j) controls EmptyString)) as [E|_]; [|reflexivity].
    exfalso.
    assert (Hmax : (Nat.max i j < length controls)%nat) by (apply Nat.max_lub_lt; assumption).
    assert (Hmin : (Nat.min i j < length controls)%nat) by (apply Nat.min_lt_iff; auto).
    pose proof (proj1 (NoDup_nth controls EmptyString) ND (Nat.max i j) (Nat.min i j) Hmax Hmin E) as X.
    apply N. lia.
Qed.

Theorem noise_matrix_symmetric controls d i j :
  (i < length controls)%nat -> (j < length controls)%nat ->
  option_map (fun row => nth_error row j) (nth_error (py_noise_matrix controls d) i) =
  option_map (fun row => nth_error row i) (nth_error (py_noise_matrix controls d) j).
Proof.
  intros Hi Hj. unfold py_noise_matrix.
  rewrite !nth_error_map, !(nth_error_nth' _ 0%nat) by (now rewrite seq_length). rewrite !seq_nth by assumption.
  cbn [option_map]. rewrite !nth_error_map, !(nth_error_nth' _ 0%nat) by (now rewrite seq_length).
  rewrite !seq_nth by assumption. cbn [option_map plus].
  now rewrite (Nat.max_comm j i), (Nat.min_comm j i).
Qed.
