(** The design workflow: breadth-first search over declared transitions (model of
    StateMachineState.search, whose source text is pinned by gen_workflow.py) and the history invariant. *)
From Coq Require Import String List Bool Arith Lia.
Import ListNotations.

Section BFS.
Variable St : Type.
Variable st_eqb : St -> St -> bool.
Hypothesis st_eqb_eq : forall a b, st_eqb a b = true <-> a = b.
Variable trans : St -> list (string * St).

(** frontier entries: (state, transition names that lead to it from the start); one iteration pops the
    head, returns its path if it is the target, otherwise appends its successors; [fuel] = max_iter *)
Fixpoint bfs (fuel : nat) (frontier : list (St * list string)) (target : St) : option (list string) :=
  match fuel with
  | O => None
  | S k =>
      match frontier with
      | [] => None
      | (s, path) :: rest =>
          if st_eqb s target then Some path
          else bfs k (rest ++ map (fun t => (snd t, path ++ [fst t])) (trans s)) target
      end
  end.

Definition search (max_iter : nat) (s0 target : St) : option (list string) := bfs max_iter [(s0, [])] target.

(** calling the named transitions in order *)
Fixpoint step_named (s : St) (n : string) (l : list (string * St)) : option St :=
  match l with
  | [] => None
  | (m, s') :: r => if String.eqb n m then Some s' else step_named s n r
  end.
Fixpoint follow (s : St) (path : list string) : option St :=
  match path with
  | [] => Some s
  | n :: r => match step_named s n (trans s) with Some s' => follow s' r | None => None end
  end.

Lemma follow_app s p q : follow s (p ++ q) = match follow s p with Some s' => follow s' q | None => None end.
Proof.
  revert s. induction p as [|n p IH]; intro s; [reflexivity|]. simpl.
  destruct (step_named s n (trans s)); [apply IH|reflexivity].
Qed.

(** transition names of a state are distinct (so the name determines the transition) *)
Definition names_unique := forall s, NoDup (map fst (trans s)).

Lemma step_named_in s n s' l : NoDup (map fst l) -> In (n, s') l -> step_named s n l = Some s'.
Proof.
  induction l as [|[m t] l IH]; intros ND H; [destruct H|]. simpl.
  destruct H as [E|H].
  - injection E as -> ->. now rewrite String.eqb_refl.
  - inversion ND as [|? ? Hn ND']; subst. destruct (String.eqb_spec n m) as [->|_].
    + exfalso. apply Hn. apply in_map_iff. exists (m, s'). auto.
    + now apply IH.
Qed.

(** soundness: a returned path, followed from the start state, ends in the target *)
Theorem bfs_sound : names_unique -> forall fuel frontier s0 target p,
  (forall s path, In (s, path) frontier -> follow s0 path = Some s) ->
  bfs fuel frontier target = Some p -> follow s0 p = Some target.
Proof.
  intros NU fuel. induction fuel as [|k IH]; intros frontier s0 target p Inv H; [discriminate|].
  simpl in H. destruct frontier as [|[s path] rest]; [discriminate|].
  destruct (st_eqb s target) eqn:E.
  - injection H as <-. apply st_eqb_eq in E. subst. apply Inv. now left.
  - eapply IH; [|exact H]. intros s1 p1 Hin. apply in_app_or in Hin. destruct Hin as [Hin|Hin].
    + apply Inv. now right.
    + apply in_map_iff in Hin. destruct Hin as ([n t] & E1 & Ht). injection E1 as <- <-. simpl.
      rewrite follow_app, (Inv s path (or_introl eq_refl)). simpl.
      now rewrite (step_named_in s n t (trans s) (NU s) Ht).
Qed.

Corollary search_sound : names_unique -> forall max_iter s0 target p,
  search max_iter s0 target = Some p -> follow s0 p = Some target.
Proof.
  intros NU max_iter s0 target p H. apply (bfs_sound NU max_iter [(s0, [])] s0 target p); [|exact H].
  intros s path [E|[]]. now injection E as <- <-.
Qed.

(** searching for the state one is in returns the empty path *)
Lemma search_self max_iter s : search (S max_iter) s s = Some [].
Proof. unfold search. simpl. now rewrite (proj2 (st_eqb_eq s s) eq_refl). Qed.
End BFS.

(** * History: every constructor appends its own state id to the history it is given *)
Section History.
Variable St : Type.
Variable trans : St -> list (string * St).
(** a run of the workflow: the list of states entered, in order *)
Definition history (start : St) (entered : list St) : list St := start :: entered.

Fixpoint valid_run (s : St) (entered : list St) : Prop :=
  match entered with
  | [] => True
  | t :: r => In t (map snd (trans s)) /\ valid_run t r
  end.

(** the recorded history is the list of states visited, starts at the start state, and every adjacent
    pair is a declared transition *)
Theorem history_invariant start entered : valid_run start entered ->
  hd_error (history start entered) = Some start /\
  forall k a b, nth_error (history start entered) k = Some a -> nth_error (history start entered) (S k) = Some b ->
                In b (map snd (trans a)).
Proof.
  intro V. split; [reflexivity|]. unfold history. revert start V.
  induction entered as [|t r IH]; intros start V k a b Ha Hb.
  - destruct k as [|k]; simpl in Hb; [discriminate|destruct k; discriminate].
  - destruct V as [Ht Vr]. destruct k as [|k]; simpl in Ha, Hb.
    + injection Ha as <-. injection Hb as <-. exact Ht.
    + exact (IH t Vr k a b Ha Hb).
Qed.
End History.
