(** SklearnEKFAdapter parameters: get_params / set_params, flattening of the noise maps for fitting.
    Hand model (source of set_params / _flatten_* / _inverse_flatten_* pinned by gen_adapter.py),
    tied by correspondence. *)
From Coq Require Import String List Bool Arith ZArith QArith Lia.
From FV Require Import Base.Names Base.Expr.
Import ListNotations.

Definition kconfig : name := "config"%string.

Section P.
Variable V : Type.   (* opaque parameter values *)

Fixpoint update (l : list (name * V)) (k : name) (v : V) : list (name * V) :=
  match l with
  | [] => []
  | (k', v') :: r => if String.eqb k k' then (k', v) :: r else (k', v') :: update r k v
  end.

Definition has (l : list (name * V)) (k : name) : bool := existsb (fun kv => String.eqb k (fst kv)) l.

(** estimator: the five non-config constructor parameters and the configuration's fields *)
Record est := mkEst { e_params : list (name * V); e_config : list (name * V) }.

Inductive pval := PV (v : V) | PConfig (c : list (name * V)).
Inductive perr := InvalidKey (k : name).
Inductive res (A : Type) := ROk (a : A) | RErr (e : perr).
Arguments ROk {A} a. Arguments RErr {A} e.

(** one key of a set_params call: allowed constructor key -> setattr; Config field -> replace that
    field of the CURRENT config; anything else -> ModelConstructionError *)
Definition set_param (e : est) (kv : name * pval) : res est :=
  let '(k, pv) := kv in
  if String.eqb k kconfig then
    match pv with
    | PConfig c => ROk (mkEst (e_params e) c)
    | PV _ => ROk e
    end
  else if has (e_params e) k then
    match pv with PV v => ROk (mkEst (update (e_params e) k v) (e_config e)) | PConfig _ => ROk e end
  else if has (e_config e) k then
    match pv with PV v => ROk (mkEst (e_params e) (update (e_config e) k v)) | PConfig _ => ROk e end
  else RErr (InvalidKey k).

Fixpoint set_params (e : est) (l : list (name * pval)) : res est :=
  match l with
  | [] => ROk e
  | kv :: r => match set_param e kv with ROk e' => set_params e' r | RErr x => RErr x end
  end.

Definition get_params (e : est) : list (name * pval) :=
  map (fun kv => (fst kv, PV (snd kv))) (e_params e) ++ [(kconfig, PConfig (e_config e))].

Lemma update_same l k v : lookup k l = Some v -> update l k v = l.
Proof.
  induction l as [|[k' v'] l IH]; simpl; [reflexivity|].
  destruct (String.eqb_spec k k') as [->|N]; intro H; [now injection H as ->|]. now rewrite IH.
Qed.

Lemma has_lookup l k : has l k = true <-> exists v, lookup k l = Some v.
Proof.
  induction l as [|[k' v'] l IH]; simpl.
  - split; [discriminate|intros [v H]; discriminate].
  - destruct (String.eqb_spec k k') as [->|N]; simpl.
    + split; [intros _; now exists v'|reflexivity].
    + exact IH.
Qed.

Definition wf_est (e : est) : Prop :=
  NoDup (map fst (e_params e)) /\ has (e_params e) kconfig = false /\
  (forall k, has (e_params e) k = true -> has (e_config e) k = false).

(** get-then-set leaves the estimator unchanged *)
Theorem get_set_roundtrip e : wf_est e -> set_params e (get_params e) = ROk e.
Proof.
  intros (ND & Hc & _). unfold get_params. destruct e as [ps cfg]. simpl in *.
  assert (G : forall done todo, ps = done ++ todo -> NoDup (map fst ps) ->
              set_params (mkEst ps cfg) (map (fun kv => (fst kv, PV (snd kv))) todo ++ [(kconfig, PConfig cfg)]) = ROk (mkEst ps cfg)).
  { intros done todo. revert done. induction todo as [|[k v] todo IH]; intros done E N.
    - simpl. reflexivity.
    - cbn [map app set_params set_param fst snd].
      assert (Hk : k <> kconfig).
      { intro X. subst k. assert (has ps kconfig = true); [|congruence].
        subst ps. unfold has. apply existsb_exists. exists (kconfig, v). split; [apply in_or_app; right; now left|apply String.eqb_refl]. }
      destruct (String.eqb_spec k kconfig) as [X|_]; [contradiction|].
      assert (L : lookup k ps = Some v).
      { subst ps. rewrite map_app in N. clear - N. induction done as [|[k0 v0] done IHd]; simpl in *.
        - now rewrite String.eqb_refl.
        - inversion N as [|? ? Hn N']; subst. destruct (String.eqb_spec k k0) as [->|_].
          + exfalso. apply Hn. rewrite in_app_iff. right. simpl. now left.
          + now apply IHd. }
      assert (Hh : has ps k = true) by (apply has_lookup; now exists v).
      cbn [e_params e_config]. rewrite Hh. rewrite (update_same ps k v L).
      apply (IH (done ++ [(k, v)])); [now rewrite <- app_assoc|exact N]. }
  exact (G [] ps eq_refl ND).
Qed.

(** a configuration field passed to set_params changes exactly that field *)
Theorem set_config_field_frame e k v :
  k <> kconfig -> has (e_params e) k = false -> has (e_config e) k = true ->
  exists e', set_params e [(k, PV v)] = ROk e' /\ e_params e' = e_params e /\
             lookup k (e_config e') = Some v /\ forall k', k' <> k -> lookup k' (e_config e') = lookup k' (e_config e).
Proof.
  intros Hk Hp Hc. cbn [set_params set_param]. destruct (String.eqb_spec k kconfig) as [X|_]; [contradiction|].
  rewrite Hp, Hc. eexists. split; [reflexivity|]. cbn [e_params e_config]. split; [reflexivity|].
  clear Hp. induction (e_config e) as [|[k0 v0] l IH]; [discriminate|]. simpl in *.
  destruct (String.eqb_spec k k0) as [->|N].
  - simpl. rewrite String.eqb_refl. split; [reflexivity|]. intros k' Hk'. now destruct (String.eqb_spec k' k0).
  - simpl in Hc. destruct (IH Hc) as [I1 I2]. simpl. destruct (String.eqb_spec k k0) as [|_]; [contradiction|].
    split; [exact I1|]. intros k' Hk'. destruct (String.eqb k' k0); [reflexivity|now apply I2].
Qed.

(** unknown parameter names are refused *)
Theorem set_unknown_refused e k pv :
  k <> kconfig -> has (e_params e) k = false -> has (e_config e) k = false ->
  set_params e [(k, pv)] = RErr (InvalidKey k).
Proof.
  intros Hk Hp Hc. cbn [set_params set_param]. destruct (String.eqb_spec k kconfig) as [X|_]; [contradiction|].
  now rewrite Hp, Hc.
Qed.
End P.

(** * Flattening the noise maps for the minimiser *)
Definition tol6 : Q := 1 # 1000000.
Definition clampq (v : Q) : Q := if Qle_bool tol6 v then v else tol6.

Definition diagv (m : list (name * Q)) (k : name) : Q := match lookup k m with Some v => v | None => 0%Q end.

(** [process_noise] by control; [sensor_noises] by sensor key then reading; all lists name-sorted as the source does *)
Definition flatten (controls : list name) (pn : list (name * Q)) (sn : list (name * list (name * Q))) : list Q :=
  map (diagv pn) (sort_names controls) ++
  flat_map (fun k => match lookup k sn with
                     | Some m => map (diagv m) (sort_names (map fst m))
                     | None => [] end) (sort_names (map fst sn)).

Fixpoint inv_sensors (keys : list name) (sn : list (name * list (name * Q))) (x : list Q) : list (name * list (name * Q)) :=
  match keys with
  | [] => []
  | k :: r =>
      match lookup k sn with
      | Some m => let rs := sort_names (map fst m) in
                  (k, combine rs (map clampq (firstn (length rs) x))) :: inv_sensors r sn (skipn (length rs) x)
      | None => inv_sensors r sn x
      end
  end.

Definition inverse_flatten (controls : list name) (sn : list (name * list (name * Q))) (x : list Q)
  : list (name * Q) * list (name * list (name * Q)) :=
  let cs := sort_names controls in
  (combine cs (map clampq (firstn (length cs) x)), inv_sensors (sort_names (map fst sn)) sn (skipn (length cs) x)).

Lemma map_fst_combine_len {A B} (a : list A) (b : list B) : length a = length b -> map fst (combine a b) = a.
Proof. revert b. induction a as [|x a IH]; intros [|y b] H; simpl in *; try discriminate; [reflexivity|]. f_equal. apply IH. lia. Qed.

Lemma clamp_pos v : (0 < clampq v)%Q.
Proof.
  unfold clampq. destruct (Qle_bool tol6 v) eqn:E.
  - apply Qle_bool_iff in E. eapply Qlt_le_trans; [|exact E]. reflexivity.
  - reflexivity.
Qed.

(** the fitted process-noise map names exactly the controls and every magnitude is strictly positive *)
Theorem inverse_process_noise controls sn x : (length (sort_names controls) <= length x)%nat ->
  map fst (fst (inverse_flatten controls sn x)) = sort_names controls /\
  Forall (fun kv => (0 < snd kv)%Q) (fst (inverse_flatten controls sn x)).
Proof.
  intro L. unfold inverse_flatten. cbn [fst]. split.
  - apply map_fst_combine_len. rewrite map_length, firstn_length. symmetry. apply Nat.min_l. exact L.
  - apply Forall_forall. intros [k v] H. apply in_combine_r in H. apply in_map_iff in H. destruct H as (w & <- & _).
    apply clamp_pos.
Qed.
