(** C09 — Valid covariance in, valid covariance out, along any update history. *)
From mathcomp Require Import all_ssreflect all_algebra.
From FV Require Import Theory.Psd gen.EkfA Proofs.Ekf.
Set Implicit Arguments. Unset Strict Implicit. Unset Printing Implicit Defensive.
Import Order.Theory GRing.Theory Num.Theory.
Local Open Scope ring_scope.

(** any finite history of predictions (any Jacobians, singular included) and sensor updates of the
    regenerated filter keeps the covariance symmetric positive semi-definite; induction over the history *)
Theorem C09_history_valid : forall (F : realFieldType) (n : nat) (ops : seq (op F n)) (P0 : 'M[F]_n),
  valid P0 -> all_ok ops -> valid (foldl (@step F n) P0 ops).
Proof. exact history_valid. Qed.

(** the validity gate (refuse iff an eigenvalue < negative_tol * scale) never refuses a PSD covariance *)
Theorem C09_gate_accepts_psd : forall (F : realFieldType) (n : nat) (P : 'M[F]_n) (v : 'cV[F]_n) (lam tol scale : F),
  psd P -> v != 0 -> P *m v = lam *: v -> tol <= 0 -> 0 <= scale -> ~~ (lam < tol * scale).
Proof. exact gate_accepts_psd. Qed.

(** non-vacuity: the identity is a valid covariance and the 1-step history with a singular Jacobian
    (G = 0) is covered *)
Example C09_nonvacuous : forall (F : realFieldType),
  valid (1%:M : 'M[F]_2) /\ all_ok [:: Predict (0 : 'M[F]_2) (0 : 'M[F]_(2, 1)) (1%:M : 'M[F]_1)].
Proof.
move=> F; split; last first.
  split=> //; split; first by rewrite /sym trmx1.
  by move=> x; rewrite /qf mulmx1 mxE big_ord1 mxE -expr2 sqr_ge0.
split; first by rewrite /sym trmx1.
move=> x; rewrite /qf mulmx1 mxE; apply: sumr_ge0 => i _; by rewrite mxE -expr2 sqr_ge0.
Qed.

Print Assumptions C09_history_valid.
Print Assumptions C09_gate_accepts_psd.
