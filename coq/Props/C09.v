(** C09 — Valid covariance in, valid covariance out, along any update history. *)
From mathcomp Require Import all_ssreflect all_algebra.
From FV Require Import Theory.Psd Theory.Perturb Theory.Dominate gen.EkfA Proofs.Ekf.
Set Implicit Arguments. Unset Strict Implicit. Unset Printing Implicit Defensive.
Import Order.Theory GRing.Theory Num.Theory.
Local Open Scope ring_scope.

(** any finite history of predictions (any Jacobians, singular included) and sensor updates of the
    regenerated filter keeps the covariance symmetric positive semi-definite; induction over the history *)
Theorem C09_history_valid : forall (F : realFieldType) (n : nat) (ops : seq (op F n)) (P0 : 'M[F]_n),
  valid P0 -> all_ok ops -> valid (foldl (@step F n) P0 ops).
Proof. exact history_valid. Qed.

(** the regenerated C++ templates compute the same covariances along the same history, hence valid ones *)
Theorem C09_cpp_history_valid : forall (F : realFieldType) (n : nat) (ops : seq (op F n)) (P0 : 'M[F]_n),
  valid P0 -> all_ok ops -> valid (foldl (@cpp_step F n) P0 ops).
Proof. exact cpp_history_valid. Qed.

Theorem C09_cpp_history_eq_py : forall (F : realFieldType) (n : nat) (ops : seq (op F n)) (P0 : 'M[F]_n),
  foldl (@cpp_step F n) P0 ops = foldl (@step F n) P0 ops.
Proof. exact cpp_history_eq_py. Qed.

(** "up to rounding": a defect D of the covariance travels through an accepted step by congruence with the
    step's transition matrix (exact identities), and congruence is monotone for the Loewner order; this is
    the recurrence E' = F E F^T + (new rounding) that the history harness carries as its rounding bound *)
Theorem C09_predict_perturbation : forall (F : realFieldType) (n c : nat) (G : 'M[F]_n) (V : 'M[F]_(n, c)) (M : 'M[F]_c) (P D : 'M[F]_n),
  step (P + D) (Predict G V M) - step P (Predict G V M) = G *m D *m G^T.
Proof. exact predict_step_perturbation. Qed.

Theorem C09_update_perturbation : forall (F : realFieldType) (n m : nat) (x : 'cV[F]_n) (z hx : 'cV[F]_m) (H : 'M[F]_(m, n)) (Q : 'M[F]_m) (P D : 'M[F]_n),
  sym P -> sym Q -> innov_cov P H Q \in unitmx -> innov_cov (P + D) H Q \in unitmx ->
  step (P + D) (Update (fun _ _ => false) x z hx H Q) - step P (Update (fun _ _ => false) x z hx H Q) =
  (1%:M - kalman_gain (P + D) H Q *m H) *m D *m (1%:M - kalman_gain P H Q *m H)^T.
Proof. exact update_step_perturbation. Qed.

Theorem C09_defect_bound_propagates : forall (F : realFieldType) (n k : nat) (E D : 'M[F]_n) (T : 'M[F]_(k, n)),
  psd (E - D) -> psd (E + D) -> psd (T *m E *m T^T - T *m D *m T^T) /\ psd (T *m E *m T^T + T *m D *m T^T).
Proof. exact loewner_congr. Qed.

(** an entry-wise rounding bound |D_ij| <= B_ij (B symmetric) is dominated, in the Loewner order, by the diagonal
    matrix of the row sums of B: the local term L of the harness' recurrence E' = F E F^T + C u L *)
Theorem C09_entrywise_bound_dominated_by_row_sums : forall (F : realFieldType) (n : nat) (D B : 'M[F]_n),
  (forall i j, `|D i j| <= B i j) -> (forall i j, B i j = B j i) ->
  psd (rowsum_diag B - D) /\ psd (rowsum_diag B + D).
Proof. exact rowsum_loewner. Qed.

(** the update the filter computes is the same matrix as the Joseph form *)
Theorem C09_update_is_joseph_form : forall (F : realFieldType) (n m : nat) (x : 'cV[F]_n) (z hx : 'cV[F]_m) (H : 'M[F]_(m, n)) (Q : 'M[F]_m) (P : 'M[F]_n),
  sym P -> sym Q -> innov_cov P H Q \in unitmx ->
  step P (Update (fun _ _ => false) x z hx H Q) =
  (1%:M - kalman_gain P H Q *m H) *m P *m (1%:M - kalman_gain P H Q *m H)^T + kalman_gain P H Q *m Q *m (kalman_gain P H Q)^T.
Proof. exact update_is_joseph. Qed.

(** the validity gate (refuse iff an eigenvalue < negative_tol * scale) never refuses a PSD covariance *)
Theorem C09_gate_accepts_psd : forall (F : realFieldType) (n : nat) (P : 'M[F]_n) (v : 'cV[F]_n) (lam tol scale : F),
  psd P -> v != 0 -> P *m v = lam *: v -> tol <= 0 -> 0 <= scale -> ~~ (lam < tol * scale).
Proof. exact gate_accepts_psd. Qed.

(** non-vacuity: the identity is a valid covariance and the 1-step history with a singular Jacobian
    (G = 0) is covered *)
Example C09_nonvacuous : forall (F : realFieldType),
  valid (1%:M : 'M[F]_2) /\ all_ok [:: Predict (0 : 'M[F]_2) (0 : 'M[F]_(2, 1)) (1%:M : 'M[F]_1)].
Proof.
move=> F; split; last first.
  split=> //; split; first by rewrite /sym trmx1.
  by move=> x; rewrite /qf mulmx1 mxE big_ord1 mxE -expr2 sqr_ge0.
split; first by rewrite /sym trmx1.
move=> x; rewrite /qf mulmx1 mxE; apply: sumr_ge0 => i _; by rewrite mxE -expr2 sqr_ge0.
Qed.

Print Assumptions C09_history_valid.
Print Assumptions C09_cpp_history_valid.
Print Assumptions C09_cpp_history_eq_py.
Print Assumptions C09_predict_perturbation.
Print Assumptions C09_update_perturbation.
Print Assumptions C09_defect_bound_propagates.
Print Assumptions C09_update_is_joseph_form.
Print Assumptions C09_entrywise_bound_dominated_by_row_sums.
Print Assumptions C09_gate_accepts_psd.
