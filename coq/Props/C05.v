(** C05 — Sensor update is the Kalman correction, for any number of readings. *)
From mathcomp Require Import all_ssreflect all_algebra.
From FV Require Import Theory.Psd Theory.Diag gen.EkfA Proofs.Ekf.
Set Implicit Arguments. Unset Strict Implicit. Unset Printing Implicit Defensive.
Import GRing.Theory Num.Theory.
Local Open Scope ring_scope.

(** the update regenerated from ExtendedKalmanFilter.sensor_model: for every reading dimension m, state
    dimension n and decision function rm, the result is (x + K (z - h), P - K H P) with S = H P H^T + Q,
    K = P H^T S^-1 unless the reading is discarded, and the recorded pair is (z - h, S) in both cases *)
Theorem C05_update_spec : forall (F : realFieldType) (n m : nat)
  (rm : 'cV[F]_m -> 'M[F]_m -> bool) (x : 'cV[F]_n) (P : 'M[F]_n) (z hx : 'cV[F]_m) (H : 'M[F]_(m, n)) (Q : 'M[F]_m),
  py_sensor_model rm x P z hx H Q =
  if rm (z - hx) (invmx (H *m P *m H^T + Q)) then ((x, P), (z - hx, H *m P *m H^T + Q))
  else ((x + (P *m H^T *m invmx (H *m P *m H^T + Q)) *m (z - hx),
         P - (P *m H^T *m invmx (H *m P *m H^T + Q)) *m H *m P), (z - hx, H *m P *m H^T + Q)).
Proof. exact py_update_spec. Qed.

Theorem C05_recorded : forall (F : realFieldType) (n m : nat)
  (rm : 'cV[F]_m -> 'M[F]_m -> bool) (x : 'cV[F]_n) (P : 'M[F]_n) (z hx : 'cV[F]_m) (H : 'M[F]_(m, n)) (Q : 'M[F]_m),
  (py_sensor_model rm x P z hx H Q).2 = (z - hx, innov_cov P H Q).
Proof. exact py_records. Qed.

Theorem C05_fixed_point : forall (F : realFieldType) (n m : nat)
  (rm : 'cV[F]_m -> 'M[F]_m -> bool) (x : 'cV[F]_n) (P : 'M[F]_n) (z : 'cV[F]_m) (H : 'M[F]_(m, n)) (Q : 'M[F]_m),
  (py_sensor_model rm x P z z H Q).1.1 = x.
Proof. exact py_update_fixed_point. Qed.

Theorem C05_covariance_does_not_depend_on_the_reading : forall (F : realFieldType) (n m : nat)
  (rm : 'cV[F]_m -> 'M[F]_m -> bool) (x x' : 'cV[F]_n) (P : 'M[F]_n) (z hx z' hx' : 'cV[F]_m) (H : 'M[F]_(m, n)) (Q : 'M[F]_m),
  ~~ rm (z - hx) (invmx (innov_cov P H Q)) -> ~~ rm (z' - hx') (invmx (innov_cov P H Q)) ->
  (py_sensor_model rm x P z hx H Q).1.2 = (py_sensor_model rm x' P z' hx' H Q).1.2 /\
  (py_sensor_model rm x P z hx H Q).1.2 = update_cov P H Q.
Proof. exact py_update_cov_independent. Qed.

Theorem C05_posterior_valid : forall (F : realFieldType) (n m : nat)
  (rm : 'cV[F]_m -> 'M[F]_m -> bool) (x : 'cV[F]_n) (P : 'M[F]_n) (z hx : 'cV[F]_m) (H : 'M[F]_(m, n)) (Q : 'M[F]_m),
  valid P -> sym Q -> pd Q -> valid (py_sensor_model rm x P z hx H Q).1.2.
Proof. exact py_update_valid. Qed.

Theorem C05_posterior_le_prior : forall (F : realFieldType) (n m : nat)
  (rm : 'cV[F]_m -> 'M[F]_m -> bool) (x : 'cV[F]_n) (P : 'M[F]_n) (z hx : 'cV[F]_m) (H : 'M[F]_(m, n)) (Q : 'M[F]_m),
  valid P -> sym Q -> pd Q -> psd (P - (py_sensor_model rm x P z hx H Q).1.2).
Proof. exact py_update_le_prior. Qed.

(** the premises [sym Q], [pd Q] are met by per-reading noise values that are positive: the named covariance
    container assembles them (Props/C05_glue.v) to a diagonal matrix *)
Theorem C05_positive_diagonal_noise_is_pd : forall (F : realFieldType) (m : nat) (d : 'rV[F]_m),
  (forall i, 0 < d 0 i) -> sym (diag_mx d) /\ pd (diag_mx d).
Proof. by move=> F m d h; split; [exact: diag_sym | exact: diag_pd]. Qed.

Print Assumptions C05_update_spec.
Print Assumptions C05_covariance_does_not_depend_on_the_reading.
Print Assumptions C05_positive_diagonal_noise_is_pd.
Print Assumptions C05_posterior_valid.
Print Assumptions C05_posterior_le_prior.
