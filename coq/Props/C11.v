(** C11 — tick = fold readings in order, hold at last reading, report at output time. *)
From Coq Require Import ZArith QArith List Bool.
From FV Require Import Base.Num Model.Runtime Model.RuntimeCpp gen.RuntimePy Proofs.RuntimePy gen.RuntimeCppGen Proofs.RuntimeCpp.
Import ListNotations.

Section C11.
Variable N : Num.
Variables St Cov Ctl Rd RdData KW Key : Type.
Variable impl_process_model : N -> St -> Cov -> option Ctl -> (St * Cov).
Variable impl_sensor_model : St -> Cov -> Key -> RdData -> (St * Cov).
Variable impl_make_reading : Key -> KW -> RdData.
Variable impl_control_size : Z.
Variable cfg_max_dt_sec : N.
Variable rd_ts : Rd -> N.
Variable rd_key : Rd -> Key.
Variable rd_data : Rd -> option RdData.
Variable rd_kwargs : Rd -> KW.

Notation pytick := (py_tick N St Cov Ctl Rd RdData KW Key impl_process_model impl_sensor_model
                      impl_make_reading impl_control_size cfg_max_dt_sec rd_ts rd_key rd_data rd_kwargs).
Notation pm' := (pm N St Cov Ctl impl_process_model).
Notation upd' := (upd St Cov Rd RdData KW Key impl_sensor_model impl_make_reading rd_key rd_data rd_kwargs).

(** the regenerated Python tick is the specification fold, for every list of readings in any order *)
Theorem C11_py_tick_is_spec : forall cur st cov out ctl rs,
  pytick cur st cov out ctl rs =
  if is_none ctl && Z.ltb 0 impl_control_size then None
  else option_map (fun '(h, s) => (s, (fst h, fst (snd h), snd (snd h))))
         (tick_spec N (St * Cov) Rd (pm' ctl) upd' rd_ts cfg_max_dt_sec (cur, (st, cov)) out (odefault rs [])).
Proof. exact (py_tick_is_spec N St Cov Ctl Rd RdData KW Key impl_process_model impl_sensor_model
                impl_make_reading impl_control_size cfg_max_dt_sec rd_ts rd_key rd_data rd_kwargs). Qed.

(** Python and C++ issue the same filter calls in the same order *)
Theorem C11_py_eq_cpp : forall cur st cov out ctl rs,
  pytick cur st cov out ctl rs =
  if is_none ctl && Z.ltb 0 impl_control_size then None
  else option_map (fun '(h, s) => (s, (fst h, fst (snd h), snd (snd h))))
         (cpp_tick N (St * Cov) Rd (pm' ctl) upd' rd_ts cfg_max_dt_sec (cur, (st, cov)) out (odefault rs [])).
Proof. exact (py_tick_eq_cpp_tick N St Cov Ctl Rd RdData KW Key impl_process_model impl_sensor_model
                impl_make_reading impl_control_size cfg_max_dt_sec rd_ts rd_key rd_data rd_kwargs). Qed.

(** a model with control inputs cannot be ticked without them *)
Theorem C11_requires_control : forall cur st cov out rs,
  (0 < impl_control_size)%Z -> pytick cur st cov out None rs = None.
Proof. exact (py_tick_requires_control N St Cov Ctl Rd RdData KW Key impl_process_model impl_sensor_model
                impl_make_reading impl_control_size cfg_max_dt_sec rd_ts rd_key rd_data rd_kwargs). Qed.

(** a tick without readings never changes what is held *)
Theorem C11_no_readings_holds : forall cur st cov out ctl r,
  pytick cur st cov out ctl None = Some r -> snd r = (cur, st, cov).
Proof. exact (py_tick_no_readings_holds N St Cov Ctl Rd RdData KW Key impl_process_model impl_sensor_model
                impl_make_reading impl_control_size cfg_max_dt_sec rd_ts rd_key rd_data rd_kwargs). Qed.
End C11.

Theorem C11_cpp_tick_is_spec : forall (N : Num) (SV R : Type) pmc smc ts max_dt h out rs,
  cpp_tick N SV R pmc smc ts max_dt h out rs = tick_spec N SV R pmc smc ts max_dt h out rs.
Proof. exact cpp_tick_is_spec. Qed.

(** hold at the last reading: two ticks equal one tick over the concatenated readings, whatever output time the
    first tick reported at — reporting leaves no trace in what is held *)
Theorem C11_two_ticks_are_one : forall (N : Num) (SV R : Type) pmc smc ts max_dt h out1 out rs1 rs2 h1 e1,
  tick_spec N SV R pmc smc ts max_dt h out1 rs1 = Some (h1, e1) ->
  tick_spec N SV R pmc smc ts max_dt h1 out rs2 = tick_spec N SV R pmc smc ts max_dt h out (rs1 ++ rs2).
Proof. exact tick_split. Qed.
Print Assumptions C11_two_ticks_are_one.

(** polling: a tick without readings at the held time reports exactly the held estimate and holds it unchanged *)
Theorem C11_poll_at_held_time : forall (St R : Type) (pm : QNum -> St -> St) (upd : R -> St -> St) (ts : R -> QNum)
  (max_dt : Q) (h : Q * St) (out : Q),
  (0 < max_dt)%Q -> (fst h == out)%Q -> tick_spec QNum St R pm upd ts max_dt h out [] = Some (h, snd h).
Proof. exact tick_poll_id. Qed.
Print Assumptions C11_poll_at_held_time.

(** the header's tick overloads have the modelled skeleton (regenerated fact), and its processUpdate is the model's *)
Theorem C11_cpp_header_as_modelled : cpp_tick_skeleton_as_modelled = true /\
  forall (N : Num) (SV : Type) pmc max_dt cur st out,
    cpp_process_update_ctl N SV pmc max_dt cur st out = cpp_process_update N SV pmc max_dt cur st out /\
    cpp_process_update_noctl N SV pmc max_dt cur st out = cpp_process_update N SV pmc max_dt cur st out.
Proof. split; [reflexivity|]. intros; split; [apply gen_ctl_is_model | apply gen_noctl_is_model]. Qed.

Print Assumptions C11_py_tick_is_spec.
Print Assumptions C11_py_eq_cpp.
Print Assumptions C11_requires_control.
Print Assumptions C11_no_readings_holds.
Print Assumptions C11_cpp_tick_is_spec.
