(** C13 — Values are bound by name, never by position or spelling. *)
From Coq Require Import String List Bool Arith QArith Permutation.
From FV Require Import Base.Names Base.Expr Base.ListMat Model.Named Model.Rename Model.Layout Model.CppGen gen.NamedAccept Proofs.NamedAccept.
Import ListNotations.

Theorem C13_named_vector_get : forall arglist kw v a,
  NoDup arglist -> nv_make arglist kw = Ok v -> In a arglist ->
  nv_get arglist v a = Some (match lookup a kw with Some q => q | None => 0%Q end).
Proof. exact nv_make_get. Qed.

Theorem C13_named_vector_rejects_unknown : forall arglist kw,
  (exists k, In k (map fst kw) /\ known arglist k = false) <-> exists k, nv_make arglist kw = Err (UnexpectedKeyword k).
Proof. exact nv_make_rejects_unknown. Qed.

Theorem C13_from_data_shape : forall arglist data v,
  nv_from_data arglist data = Ok v -> length data = length arglist /\ length v = length arglist.
Proof. exact nv_from_data_shape. Qed.

Theorem C13_covariance_entries : forall arglist kw C i j a b,
  ncov_make arglist kw = Ok C -> nth_error arglist i = Some a -> nth_error arglist j = Some b ->
  option_map (fun row => nth_error row j) (nth_error C i) =
  Some (Some (if String.eqb a b then match lookup a kw with Some v => v | None => 1%Q end else 0%Q)).
Proof. exact ncov_make_entry. Qed.

(** the layout does not depend on the order or container in which symbols were declared *)
Theorem C13_declaration_order_irrelevant : forall l1 l2, Permutation l1 l2 -> sort_names l1 = sort_names l2.
Proof. exact sort_names_perm_invariant. Qed.

(** consistent renaming (which permutes the internal layout) leaves every named value unchanged *)
Theorem C13_rename_invariant : forall (T : Type) ofQ tadd tmul tinv tone fnI (f : name -> name) rho rho' e,
  (forall x, rho' (f x) = rho x) ->
  eval T ofQ tadd tmul tinv tone fnI rho' (rename f e) = eval T ofQ tadd tmul tinv tone fnI rho e.
Proof. exact rename_invariant. Qed.

(** generated C++: Options constructor and accessors agree by name *)
Theorem C13_cpp_slot_consistency : forall (V : Type) (names : list name) (opt : name -> V) (x : name),
  NoDup names -> In x names ->
  exists i, lookup x (accessor_table names) = Some i /\ nth_error (construct V (ctor_args names) opt) i = Some (opt x).
Proof. exact slot_consistency. Qed.

(** the acceptance test regenerated from common.py's __subclasshook__ (the operations' isinstance guards consult it):
    a value is accepted only if it carries exactly the names of the expected class, so that reading it by name under
    the expected class gives what it holds under its own - nothing is ever bound by position *)
Theorem C13_accepted_values_carry_the_expected_names : forall n1 a1 n2 a2,
  vector_accepts n1 a1 n2 a2 = true \/ covariance_accepts n1 a1 n2 a2 = true -> a1 = a2.
Proof. intros n1 a1 n2 a2 [H|H]; [exact (vector_accepts_names _ _ _ _ H) | exact (covariance_accepts_names _ _ _ _ H)]. Qed.

Theorem C13_accepted_value_read_by_name : forall n1 a1 n2 a2 v x,
  vector_accepts n1 a1 n2 a2 = true -> nv_get a1 v x = nv_get a2 v x.
Proof. exact accepted_vector_read_by_name. Qed.

Theorem C13_own_class_accepted : forall n a, vector_accepts n a n a = true /\ covariance_accepts n a n a = true.
Proof. intros n a. split; [apply vector_accepts_self | apply covariance_accepts_self]. Qed.

Print Assumptions C13_named_vector_get.
Print Assumptions C13_accepted_values_carry_the_expected_names.
Print Assumptions C13_accepted_value_read_by_name.
Print Assumptions C13_declaration_order_irrelevant.
Print Assumptions C13_rename_invariant.
