(** C05 / C07 (refinement part): the executable rendering of the regenerated update computes the entries of the
    MathComp rendering, for corresponding decision functions and an inverse certified by S * X = I (checked by
    computation on every case the correspondence runs: code 8 of Model/EkfExec.check_update). *)
From Coq Require Import ZArith QArith_base.
From mathcomp Require Import all_ssreflect all_algebra.
From FV Require Import Base.ListMat Base.ListMatFacts Theory.QRat gen.EkfA gen.EkfB Proofs.Refine.
Set Implicit Arguments. Unset Strict Implicit. Unset Printing Implicit Defensive.
Local Open Scope ring_scope.

Theorem C05_executable_update_refines_proved_one : forall (n m : nat), (0 < n)%N -> (0 < m)%N ->
  forall (rmB : lmat -> lmat -> bool) (rmA : 'cV[rat]_m -> 'M[rat]_m -> bool) x P z hx H Q,
  shaped2 n 1 x -> shaped2 n n P -> shaped2 m 1 z -> shaped2 m 1 hx -> shaped2 m n H -> shaped2 m m Q ->
  let S_l := ladd (lmul H (lmul P (ltr H))) Q in
  cert_inv m S_l (linv S_l) = true ->
  rmB (lsub z hx) (linv S_l) = rmA (mx_of m 1 (lsub z hx)) (mx_of m m (linv S_l)) ->
  let rB := py_sensor_model_l rmB x P z hx H Q in
  let rA := py_sensor_model rmA (mx_of n 1 x) (mx_of n n P) (mx_of m 1 z) (mx_of m 1 hx) (mx_of m n H) (mx_of m m Q) in
  (mx_of n 1 rB.1.1, mx_of n n rB.1.2, mx_of m 1 rB.2.1, mx_of m m rB.2.2) = quad rA.
Proof. exact refine_py_update. Qed.

Theorem C05_cpp_executable_update_refines_proved_one : forall (n m : nat), (0 < n)%N -> (0 < m)%N ->
  forall (rmB : lmat -> lmat -> bool) (rmA : 'cV[rat]_m -> 'M[rat]_m -> bool) x P z hx H Q,
  shaped2 n 1 x -> shaped2 n n P -> shaped2 m 1 z -> shaped2 m 1 hx -> shaped2 m n H -> shaped2 m m Q ->
  let S_l := ladd (lmul (lmul H P) (ltr H)) Q in
  cert_inv m S_l (linv S_l) = true ->
  rmB (lsub z hx) (linv S_l) = rmA (mx_of m 1 (lsub z hx)) (mx_of m m (linv S_l)) ->
  let rB := cpp_sensor_model_l rmB x P z hx H Q in
  let rA := cpp_sensor_model rmA (mx_of n 1 x) (mx_of n n P) (mx_of m 1 z) (mx_of m 1 hx) (mx_of m n H) (mx_of m m Q) in
  (mx_of n 1 rB.1.1, mx_of n n rB.1.2, mx_of m 1 rB.2) = (rA.1.1, rA.1.2, rA.2).
Proof. exact refine_cpp_update. Qed.

(** a matrix X with S X = I entry-wise is the inverse *)
Theorem C05_inverse_by_certificate : forall m S X, shaped2 m m S -> (0 < m)%N -> cert_inv m S X = true ->
  shaped2 m m X /\ mx_of m m X = invmx (mx_of m m S).
Proof. exact mx_inv_cert. Qed.

Theorem C05_executable_nis_refines_proved_one : forall (m : nat), (0 < m)%N -> forall inn Sinv,
  shaped2 m 1 inn -> shaped2 m m Sinv ->
  q2r (py_nis_l inn Sinv) = ((mx_of m 1 inn)^T *m (mx_of m m Sinv *m mx_of m 1 inn)) 0 0.
Proof. exact refine_py_nis. Qed.

Print Assumptions C05_executable_update_refines_proved_one.
Print Assumptions C05_cpp_executable_update_refines_proved_one.
Print Assumptions C05_inverse_by_certificate.
Print Assumptions C05_executable_nis_refines_proved_one.
