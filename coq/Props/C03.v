(** C03 — Python filter Jacobians are the true partial derivatives, laid out by name.
    [D] is the partial-derivative oracle (sympy Matrix.jacobian / diff); its contract is validated per
    instance by the check (exact re-evaluation), the layout — which entry lands where — is proved. *)
From Coq Require Import String List Bool Arith.
From FV Require Import Base.Names Base.Expr Model.BasicBlock Model.Layout Model.Jacobian gen.LayoutParams Proofs.LayoutPy.
Import ListNotations.

Theorem C03_process_jacobian_by_name :
  forall (T : Type) (ev : (name -> option T) -> expr -> option T) (D : expr -> name -> expr)
         (d : defn) prefix body (i : inputs T) J r c y x ss,
  let st := length (d_S d) in let ct := length (d_U d) in let cal := length (d_C d) in
  shapes_ok T d i ->
  cse_contract T ev (arglist d model_arglist_order) (jac_exprs D (map (d_model d) (d_S d)) (d_S d)) prefix body ->
  py_jacobian T ev prefix_scope d model_arglist_order process_jac_call_order prefix body i
     (process_jac_row_range st ct cal ss) (process_jac_col_range st ct cal ss) (process_jac_idx st ct cal ss) = Some J ->
  nth_error (d_S d) r = Some y -> nth_error (d_S d) c = Some x ->
  exists row v, nth_error J r = Some row /\ nth_error row c = Some (Some v) /\
                ev (named_env T d i model_arglist_order) (D (d_model d y) x) = Some v.
Proof. exact gen_process_jacobian_by_name. Qed.

Theorem C03_control_jacobian_by_name :
  forall (T : Type) (ev : (name -> option T) -> expr -> option T) (D : expr -> name -> expr)
         (d : defn) prefix body (i : inputs T) J r c y u ss,
  let st := length (d_S d) in let ct := length (d_U d) in let cal := length (d_C d) in
  shapes_ok T d i ->
  cse_contract T ev (arglist d model_arglist_order) (jac_exprs D (map (d_model d) (d_S d)) (d_U d)) prefix body ->
  py_jacobian T ev prefix_scope d model_arglist_order control_jac_call_order prefix body i
     (control_jac_row_range st ct cal ss) (control_jac_col_range st ct cal ss) (control_jac_idx st ct cal ss) = Some J ->
  nth_error (d_S d) r = Some y -> nth_error (d_U d) c = Some u ->
  exists row v, nth_error J r = Some row /\ nth_error row c = Some (Some v) /\
                ev (named_env T d i model_arglist_order) (D (d_model d y) u) = Some v.
Proof. exact gen_control_jacobian_by_name. Qed.

Theorem C03_sensor_jacobian_by_name :
  forall (T : Type) (ev : (name -> option T) -> expr -> option T) (D : expr -> name -> expr)
         (d : defn) (reading_exprs : list expr) prefix body (i : inputs T) J r c e x,
  let st := length (d_S d) in let ct := length (d_U d) in let cal := length (d_C d) in
  let ss := length reading_exprs in
  shapes_ok T d i ->
  cse_contract T ev (arglist d ekf_sensor_arglist_order)
     (jac_exprs D reading_exprs (arglist d ekf_sensor_arglist_order)) prefix body ->
  py_jacobian T ev prefix_scope d ekf_sensor_arglist_order sensor_jac_call_order prefix body i
     (sensor_jac_row_range st ct cal ss) (sensor_jac_col_range st ct cal ss) (sensor_jac_idx st ct cal ss) = Some J ->
  nth_error reading_exprs r = Some e -> nth_error (d_S d) c = Some x ->
  exists row v, nth_error J r = Some row /\ nth_error row c = Some (Some v) /\
                ev (named_env T d i ekf_sensor_arglist_order) (D e x) = Some v.
Proof. exact gen_sensor_jacobian_by_name. Qed.

(** the loops fill exactly the result array *)
Theorem C03_shapes : forall st ct cal ss,
  process_jac_rows st ct cal ss = st /\ process_jac_cols st ct cal ss = st /\
  process_jac_row_range st ct cal ss = st /\ process_jac_col_range st ct cal ss = st /\
  control_jac_rows st ct cal ss = st /\ control_jac_cols st ct cal ss = ct /\
  control_jac_row_range st ct cal ss = st /\ control_jac_col_range st ct cal ss = ct /\
  sensor_jac_rows st ct cal ss = ss /\ sensor_jac_cols st ct cal ss = st /\
  sensor_jac_row_range st ct cal ss = ss /\ sensor_jac_col_range st ct cal ss = st.
Proof. exact jac_shapes_ok. Qed.

(** any other stride reads some Jacobian back wrongly (the pre-fix sensor_jacobian: 2 readings,
    2 states + 1 calibration value, stride 2 instead of 3) *)
Theorem C03_wrong_stride_refuted :
  exists vs : list nat, option_map (fun row => nth_error row 0) (nth_error (unflat nat 2 2 (fun r c => r * 2 + c) vs) 1)
                        <> option_map (fun row => nth_error row 0) (nth_error (unflat nat 2 2 (fun r c => r * 3 + c) vs) 1).
Proof. exact wrong_stride_refuted. Qed.

Print Assumptions C03_process_jacobian_by_name.
Print Assumptions C03_control_jacobian_by_name.
Print Assumptions C03_sensor_jacobian_by_name.
