(** C15 — Code generation is deterministic. *)
From Coq Require Import String List Bool Permutation.
From FV Require Import Base.Names Base.Expr Model.Layout gen.LayoutParams gen.CppGenParams gen.IterSites.
Import ListNotations.

(** every layout list of both back ends is the name-sorted list of the declared symbols (regenerated facts),
    and a name-sorted list depends only on the SET of declared names: any declaration order / container,
    hence any hash seed, gives the same layout *)
Theorem C15_layout_sorted : cpp_layout_sorted_by_name = true /\ cpp_reading_lists_sorted = true /\ cpp_sensor_jac_rows_sorted_readings = true.
Proof. repeat split; reflexivity. Qed.

Theorem C15_layout_permutation_invariant : forall l1 l2, Permutation l1 l2 -> sort_names l1 = sort_names l2.
Proof. exact sort_names_perm_invariant. Qed.

(** the Python variable layout: argument list = dt, then sorted state, calibration, control *)
Theorem C15_python_arglist_invariant : forall dt s1 s2 c1 c2 u1 u2 m,
  Permutation s1 s2 -> Permutation c1 c2 -> Permutation u1 u2 ->
  arglist (mkDefn dt (sort_names s1) (sort_names c1) (sort_names u1) m) model_arglist_order =
  arglist (mkDefn dt (sort_names s2) (sort_names c2) (sort_names u2) m) model_arglist_order.
Proof.
  intros dt s1 s2 c1 c2 u1 u2 m Hs Hc Hu.
  now rewrite (sort_names_perm_invariant s1 s2 Hs), (sort_names_perm_invariant c1 c2 Hc), (sort_names_perm_invariant u1 u2 Hu).
Qed.

(** no iteration site of the generators walks a set or dict in hash order where the order can reach the output *)
Theorem C15_no_unordered_iteration : no_unordered_site = true.
Proof. vm_compute. reflexivity. Qed.

Print Assumptions C15_layout_permutation_invariant.
Print Assumptions C15_python_arglist_invariant.
Print Assumptions C15_no_unordered_iteration.
