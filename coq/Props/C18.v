(** C18 — Design workflow follows its declared transitions and selects from the grid. *)
From Coq Require Import String List Bool Arith.
From FV Require Import Model.Workflow gen.WorkflowGraph Proofs.WorkflowGraph.
Import ListNotations.

(** generic (any transition function with distinct transition names per state): a returned path ends in the target *)
Theorem C18_search_sound : forall (St : Type) (eqb : St -> St -> bool), (forall a b, eqb a b = true <-> a = b) ->
  forall (trans : St -> list (string * St)), names_unique St trans ->
  forall max_iter s0 target p, search St eqb trans max_iter s0 target = Some p -> follow St trans s0 p = Some target.
Proof. exact search_sound. Qed.

(** the regenerated graph: all 3 x 3 pairs - found iff reachable, ends in the target, shortest (finite domain,
    by computation over all paths of length <= 3) *)
Theorem C18_search_table : forallb (fun s => forallb (pair_ok s) all_states) all_states = true.
Proof. exact search_table. Qed.

Theorem C18_search_results :
  wsearch WStart WStart = Some [] /\ wsearch WStart WSymbolic = Some ["symbolic_model"%string] /\
  wsearch WStart WFit = Some ["symbolic_model"%string; "fit_model"%string] /\
  wsearch WSymbolic WSymbolic = Some [] /\ wsearch WSymbolic WFit = Some ["fit_model"%string] /\ wsearch WFit WFit = Some [] /\
  wsearch WSymbolic WStart = None /\ wsearch WFit WStart = None /\ wsearch WFit WSymbolic = None.
Proof. exact search_results. Qed.

(** the recorded history is the list of states visited along declared transitions, starting at the start *)
Theorem C18_history_invariant : forall (St : Type) (trans : St -> list (string * St)) start entered,
  valid_run St trans start entered ->
  hd_error (history St start entered) = Some start /\
  forall k a b, nth_error (history St start entered) k = Some a -> nth_error (history St start entered) (S k) = Some b ->
                In b (map snd (trans a)).
Proof. exact history_invariant. Qed.

Theorem C18_declared_order : wf_trans WStart = [("symbolic_model"%string, WSymbolic)] /\
  wf_trans WSymbolic = [("fit_model"%string, WFit)] /\ wf_trans WFit = [] /\ wf_min_samples = 3 /\
  wf_history_appends_own_id = true /\ wf_search_is_bfs = true.
Proof. repeat split; reflexivity. Qed.

Print Assumptions C18_search_sound.
Print Assumptions C18_search_table.
Print Assumptions C18_history_invariant.
