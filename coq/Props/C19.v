(** C19 — Strapdown IMU reference model obeys rigid-body kinematics (all real orientation and calibration
    quaternions, not only unit ones: identities hold with the explicit |q|^2 factor). *)
From Coq Require Import Reals.
From FV Require Import Theory.Quat gen.Strapdown Proofs.Strapdown.
Local Open Scope R_scope.

Theorem C19_rates : forall dt g qw qx qy qz cw cx cy cz w1 w2 w3 f1 f2 f3 b1 b2 b3 p1 p2 p3 v1 v2 v3 a1 a2 a3 yaw_rate pitch_rate roll_rate : R,
  let q := qmul (mkQ qw qx qy qz) (mkQ cw cx cy cz) in
  sd_roll_rate dt g qw qx qy qz cw cx cy cz w1 w2 w3 f1 f2 f3 b1 b2 b3 p1 p2 p3 v1 v2 v3 a1 a2 a3 yaw_rate pitch_rate roll_rate = qb (sandwich q w1 w2 w3) /\
  sd_pitch_rate dt g qw qx qy qz cw cx cy cz w1 w2 w3 f1 f2 f3 b1 b2 b3 p1 p2 p3 v1 v2 v3 a1 a2 a3 yaw_rate pitch_rate roll_rate = qc (sandwich q w1 w2 w3) /\
  sd_yaw_rate dt g qw qx qy qz cw cx cy cz w1 w2 w3 f1 f2 f3 b1 b2 b3 p1 p2 p3 v1 v2 v3 a1 a2 a3 yaw_rate pitch_rate roll_rate = qd (sandwich q w1 w2 w3).
Proof. exact rates_are_rotated_gyro. Qed.

Theorem C19_acceleration : forall dt g qw qx qy qz cw cx cy cz w1 w2 w3 f1 f2 f3 b1 b2 b3 p1 p2 p3 v1 v2 v3 a1 a2 a3 yaw_rate pitch_rate roll_rate : R,
  let q := qmul (mkQ qw qx qy qz) (mkQ cw cx cy cz) in
  qnorm2 q <> 0 ->
  sd_a1 dt g qw qx qy qz cw cx cy cz w1 w2 w3 f1 f2 f3 b1 b2 b3 p1 p2 p3 v1 v2 v3 a1 a2 a3 yaw_rate pitch_rate roll_rate = qb (sandwich q (f1 - b1) (f2 - b2) (f3 - b3)) / qnorm2 q /\
  sd_a2 dt g qw qx qy qz cw cx cy cz w1 w2 w3 f1 f2 f3 b1 b2 b3 p1 p2 p3 v1 v2 v3 a1 a2 a3 yaw_rate pitch_rate roll_rate = qc (sandwich q (f1 - b1) (f2 - b2) (f3 - b3)) / qnorm2 q /\
  sd_a3 dt g qw qx qy qz cw cx cy cz w1 w2 w3 f1 f2 f3 b1 b2 b3 p1 p2 p3 v1 v2 v3 a1 a2 a3 yaw_rate pitch_rate roll_rate = qd (sandwich q (f1 - b1) (f2 - b2) (f3 - b3)) / qnorm2 q - g.
Proof. exact accel_is_rotated_specific_force. Qed.

Theorem C19_velocity : forall dt g qw qx qy qz cw cx cy cz w1 w2 w3 f1 f2 f3 b1 b2 b3 p1 p2 p3 v1 v2 v3 a1 a2 a3 yaw_rate pitch_rate roll_rate : R,
  qnorm2 (qmul (mkQ qw qx qy qz) (mkQ cw cx cy cz)) <> 0 ->
  sd_v1 dt g qw qx qy qz cw cx cy cz w1 w2 w3 f1 f2 f3 b1 b2 b3 p1 p2 p3 v1 v2 v3 a1 a2 a3 yaw_rate pitch_rate roll_rate = v1 + sd_a1 dt g qw qx qy qz cw cx cy cz w1 w2 w3 f1 f2 f3 b1 b2 b3 p1 p2 p3 v1 v2 v3 a1 a2 a3 yaw_rate pitch_rate roll_rate * dt /\
  sd_v2 dt g qw qx qy qz cw cx cy cz w1 w2 w3 f1 f2 f3 b1 b2 b3 p1 p2 p3 v1 v2 v3 a1 a2 a3 yaw_rate pitch_rate roll_rate = v2 + sd_a2 dt g qw qx qy qz cw cx cy cz w1 w2 w3 f1 f2 f3 b1 b2 b3 p1 p2 p3 v1 v2 v3 a1 a2 a3 yaw_rate pitch_rate roll_rate * dt /\
  sd_v3 dt g qw qx qy qz cw cx cy cz w1 w2 w3 f1 f2 f3 b1 b2 b3 p1 p2 p3 v1 v2 v3 a1 a2 a3 yaw_rate pitch_rate roll_rate = v3 + sd_a3 dt g qw qx qy qz cw cx cy cz w1 w2 w3 f1 f2 f3 b1 b2 b3 p1 p2 p3 v1 v2 v3 a1 a2 a3 yaw_rate pitch_rate roll_rate * dt.
Proof. exact velocity_integral. Qed.

Theorem C19_position : forall dt g qw qx qy qz cw cx cy cz w1 w2 w3 f1 f2 f3 b1 b2 b3 p1 p2 p3 v1 v2 v3 a1 a2 a3 yaw_rate pitch_rate roll_rate : R,
  qnorm2 (qmul (mkQ qw qx qy qz) (mkQ cw cx cy cz)) <> 0 ->
  sd_p1 dt g qw qx qy qz cw cx cy cz w1 w2 w3 f1 f2 f3 b1 b2 b3 p1 p2 p3 v1 v2 v3 a1 a2 a3 yaw_rate pitch_rate roll_rate = p1 + v1 * dt + sd_a1 dt g qw qx qy qz cw cx cy cz w1 w2 w3 f1 f2 f3 b1 b2 b3 p1 p2 p3 v1 v2 v3 a1 a2 a3 yaw_rate pitch_rate roll_rate * dt * dt / 2 /\
  sd_p2 dt g qw qx qy qz cw cx cy cz w1 w2 w3 f1 f2 f3 b1 b2 b3 p1 p2 p3 v1 v2 v3 a1 a2 a3 yaw_rate pitch_rate roll_rate = p2 + v2 * dt + sd_a2 dt g qw qx qy qz cw cx cy cz w1 w2 w3 f1 f2 f3 b1 b2 b3 p1 p2 p3 v1 v2 v3 a1 a2 a3 yaw_rate pitch_rate roll_rate * dt * dt / 2 /\
  sd_p3 dt g qw qx qy qz cw cx cy cz w1 w2 w3 f1 f2 f3 b1 b2 b3 p1 p2 p3 v1 v2 v3 a1 a2 a3 yaw_rate pitch_rate roll_rate = p3 + v3 * dt + sd_a3 dt g qw qx qy qz cw cx cy cz w1 w2 w3 f1 f2 f3 b1 b2 b3 p1 p2 p3 v1 v2 v3 a1 a2 a3 yaw_rate pitch_rate roll_rate * dt * dt / 2.
Proof. exact position_integral. Qed.

Theorem C19_orientation : forall dt g qw qx qy qz cw cx cy cz w1 w2 w3 f1 f2 f3 b1 b2 b3 p1 p2 p3 v1 v2 v3 a1 a2 a3 yaw_rate pitch_rate roll_rate : R,
  let dq := qmul (mkQ qw qx qy qz) (pure w1 w2 w3) in
  sd_qw dt g qw qx qy qz cw cx cy cz w1 w2 w3 f1 f2 f3 b1 b2 b3 p1 p2 p3 v1 v2 v3 a1 a2 a3 yaw_rate pitch_rate roll_rate = qw + / 2 * qa dq * dt /\
  sd_qx dt g qw qx qy qz cw cx cy cz w1 w2 w3 f1 f2 f3 b1 b2 b3 p1 p2 p3 v1 v2 v3 a1 a2 a3 yaw_rate pitch_rate roll_rate = qx + / 2 * qb dq * dt /\
  sd_qy dt g qw qx qy qz cw cx cy cz w1 w2 w3 f1 f2 f3 b1 b2 b3 p1 p2 p3 v1 v2 v3 a1 a2 a3 yaw_rate pitch_rate roll_rate = qy + / 2 * qc dq * dt /\
  sd_qz dt g qw qx qy qz cw cx cy cz w1 w2 w3 f1 f2 f3 b1 b2 b3 p1 p2 p3 v1 v2 v3 a1 a2 a3 yaw_rate pitch_rate roll_rate = qz + / 2 * qd dq * dt.
Proof. exact orientation_step. Qed.

(** the sandwich q (0,v) q^* is a pure quaternion of norm |q|^2 |v|: |q|^2 times a rotation of v *)
Theorem C19_sandwich_is_scaled_rotation : forall q x y z,
  qa (sandwich q x y z) = 0 /\ qnorm2 (sandwich q x y z) = qnorm2 q * qnorm2 q * (x * x + y * y + z * z).
Proof. intros; split; [apply sandwich_is_pure | apply sandwich_norm]. Qed.

Print Assumptions C19_rates.
Print Assumptions C19_acceleration.
Print Assumptions C19_position.
Print Assumptions C19_orientation.
