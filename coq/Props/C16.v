(** C16 — scikit-learn adapter's transform / mahalanobis / score are the filter's NIS. *)
From Coq Require Import String List Bool Arith QArith.
From FV Require Import Base.Names Base.Expr Model.Adapter gen.AdapterParams.
Import ListNotations.

(** a data row [controls..., readings of each sensor in key order...] is cut into consecutive, disjoint
    pieces of exactly the control size and the sensors' sizes, which together are the row *)
Theorem C16_row_slices_lengths : forall (V : Type) sizes (row : list V),
  (total sizes <= length row)%nat -> map (@length V) (slices V sizes row) = sizes.
Proof. exact slices_lengths. Qed.

Theorem C16_row_slices_partition : forall (V : Type) sizes (row : list V),
  total sizes = length row -> concat (slices V sizes row) = row.
Proof. exact slices_concat. Qed.

Theorem C16_row_slices_position : forall (V : Type) sizes (row : list V) k j piece,
  nth_error (slices V sizes row) k = Some piece -> (j < nth k sizes 0)%nat ->
  nth_error piece j = nth_error row (total (firstn k sizes) + j).
Proof. exact slices_nth. Qed.

Theorem C16_one_output_row_per_data_row : forall (St V Out : Type) predict update control_size sensors s0 X,
  length (transform St V Out predict update control_size sensors s0 X) = length X.
Proof. exact transform_rows. Qed.

(** regenerated constants: the adapter's fixed step, sensor order, score weights *)
Theorem C16_constants : adapter_dt == 1 # 10 /\ adapter_sensor_order_sorted = true /\ adapter_row_slicing_is_prefix_then_rest = true /\
  score_bias_weight == 10 # 1 /\ score_variance_weight == 1 /\ score_matrix_weight == 1 # 100.
Proof. repeat split; reflexivity. Qed.

Print Assumptions C16_row_slices_partition.
Print Assumptions C16_row_slices_position.
