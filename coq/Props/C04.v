(** C04 — Prediction step is x' = f(x,u), P' = G P G^T + V M V^T. *)
From mathcomp Require Import all_ssreflect all_algebra.
From FV Require Import Theory.Psd Theory.Diag gen.EkfA Proofs.Ekf.
Set Implicit Arguments. Unset Strict Implicit. Unset Printing Implicit Defensive.
Import GRing.Theory Num.Theory.
Local Open Scope ring_scope.

(** the covariance expression regenerated from ExtendedKalmanFilter.process_model is G P G^T + V M V^T,
    for every dimension and every real field *)
Theorem C04_predict_spec : forall (F : realFieldType) (n c : nat)
  (G : 'M[F]_n) (V : 'M[F]_(n, c)) (P : 'M[F]_n) (M : 'M[F]_c),
  py_process_model_cov G V P M = G *m P *m G^T + V *m M *m V^T.
Proof. exact py_predict_spec. Qed.

Theorem C04_predict_valid : forall (F : realFieldType) (n c : nat)
  (G : 'M[F]_n) (V : 'M[F]_(n, c)) (P : 'M[F]_n) (M : 'M[F]_c),
  valid P -> valid M -> valid (py_process_model_cov G V P M).
Proof. exact py_predict_valid. Qed.

(** the premise [valid M] is met by what the filter is built from: per-control noise values that validation
    admits (non-negative) assemble (Props/C04_glue.v) to a diagonal matrix, which is symmetric PSD *)
Theorem C04_nonnegative_diagonal_noise_is_valid : forall (F : realFieldType) (c : nat) (d : 'rV[F]_c),
  (forall i, 0 <= d 0 i) -> valid (diag_mx d).
Proof. exact diag_valid. Qed.

Print Assumptions C04_predict_spec.
Print Assumptions C04_nonnegative_diagonal_noise_is_valid.
Print Assumptions C04_predict_valid.
