(** C02 — Generated C++ computes the symbolic model, its derivatives and noise matrices (layout part:
    which value lands in which named slot / entry).  Values of the emitted expressions are sympy's
    (diff, subs, ccode: oracles) and are checked by compiling and running the generated code. *)
From Coq Require Import String List Bool Arith.
From FV Require Import Base.Names Base.Expr Model.Layout Model.CppGen gen.CppGenParams.
Import ListNotations.

(** the regenerated emission parameters: each container's accessors, Options fields and constructor
    initialiser range over the same list; entries are addressed (row index, column index) *)
Theorem C02_lists_agree :
  cpp_state_lists = [Gstate; Gstate; Gstate] /\ cpp_control_lists = [Gctl; Gctl; Gctl] /\
  cpp_calibration_lists = [Gcal; Gcal; Gcal] /\ cpp_reading_lists_sorted = true /\ cpp_layout_sorted_by_name = true.
Proof. repeat split; reflexivity. Qed.

Theorem C02_targets_are_row_col :
  (forall i j, snd cpp_process_jac i j = (i, j)) /\ fst cpp_process_jac = (Gstate, Gstate) /\
  (forall i j, snd cpp_control_jac i j = (i, j)) /\ fst cpp_control_jac = (Gstate, Gctl) /\
  (forall i j, snd cpp_sensor_jac i j = (i, j)) /\ fst cpp_sensor_jac = Gstate /\ cpp_sensor_jac_rows_sorted_readings = true /\
  (forall i, cpp_covariance_accessor i = (i, i)).
Proof. repeat split; reflexivity. Qed.

(** slot consistency, for any number of distinct names: the value set under a name through the Options
    constructor is the value read through that name's accessor, and no two names share a slot *)
Theorem C02_slot_consistency : forall (V : Type) (names : list name) (opt : name -> V) (x : name),
  NoDup names -> In x names ->
  exists i, lookup x (accessor_table names) = Some i /\ nth_error (construct V (ctor_args names) opt) i = Some (opt x).
Proof. exact slot_consistency. Qed.

Theorem C02_slots_injective : forall (names : list name) x y i,
  NoDup names -> lookup x (accessor_table names) = Some i -> lookup y (accessor_table names) = Some i ->
  In x names -> In y names -> x = y.
Proof. exact slots_injective. Qed.

(** the statement emitted for entry (i, j) of a Jacobian differentiates the i-th row expression with
    respect to the j-th column symbol; every entry is assigned exactly once *)
Theorem C02_jacobian_statement : forall (D : expr -> name -> expr) rowexprs cols i j e x,
  nth_error rowexprs i = Some e -> nth_error cols j = Some x ->
  nth_error (jacobian_statements D rowexprs cols) (i * length cols + j) = Some ((i, j), D e x).
Proof. exact jacobian_statement_at. Qed.

Theorem C02_targets_complete : forall nr nc, length (targets nr nc) = nr * nc /\ NoDup (targets nr nc).
Proof. exact targets_complete. Qed.

Print Assumptions C02_slot_consistency.
Print Assumptions C02_jacobian_statement.
Print Assumptions C02_targets_complete.
