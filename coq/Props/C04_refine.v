(** C04 (refinement part): the executable list-over-Q rendering of the regenerated prediction formula - the one the
    correspondence runs against the implementation - computes the entries of the MathComp rendering the theorems
    of Props/C04.v are about, on every well-shaped rational input (Python source and C++ template). *)
From Coq Require Import ZArith QArith_base.
From mathcomp Require Import all_ssreflect all_algebra.
From FV Require Import Base.ListMat Base.ListMatFacts Theory.QRat gen.EkfA gen.EkfB Proofs.Refine.
Set Implicit Arguments. Unset Strict Implicit. Unset Printing Implicit Defensive.

Theorem C04_executable_prediction_refines_proved_one : forall (n c : nat), (0 < n)%N -> (0 < c)%N ->
  forall G V P M, shaped2 n n G -> shaped2 n c V -> shaped2 n n P -> shaped2 c c M ->
  mx_of n n (py_process_model_cov_l G V P M) =
  py_process_model_cov (mx_of n n G) (mx_of n c V) (mx_of n n P) (mx_of c c M).
Proof. exact refine_py_predict. Qed.

Theorem C04_cpp_executable_prediction_refines_proved_one : forall (n c : nat), (0 < n)%N -> (0 < c)%N ->
  forall G V P M, shaped2 n n G -> shaped2 n c V -> shaped2 n n P -> shaped2 c c M ->
  mx_of n n (cpp_process_model_cov_l G V P M) =
  cpp_process_model_cov (mx_of n n G) (mx_of n c V) (mx_of n n P) (mx_of c c M).
Proof. exact refine_cpp_predict. Qed.

(** the embedding of the model's rationals into the field is faithful: equal images only for equal rationals *)
Theorem C04_embedding_faithful : forall a b, q2r a = q2r b -> Qeq a b.
Proof. exact q2r_inj. Qed.

Print Assumptions C04_executable_prediction_refines_proved_one.
Print Assumptions C04_cpp_executable_prediction_refines_proved_one.
Print Assumptions C04_embedding_faithful.
