(** C16 (MathComp part): every normalised innovation squared is non-negative. *)
From mathcomp Require Import all_ssreflect all_algebra.
From FV Require Import Theory.Psd.
Set Implicit Arguments. Unset Strict Implicit. Unset Printing Implicit Defensive.
Import GRing.Theory Num.Theory.
Local Open Scope ring_scope.

Theorem C16_nis_nonnegative : forall (F : realFieldType) (n m : nat) (P : 'M[F]_n) (H : 'M[F]_(m, n)) (Q : 'M[F]_m),
  sym P -> sym Q -> psd P -> pd Q -> forall z : 'cV[F]_m, 0 <= (z^T *m invmx (innov_cov P H Q) *m z) 0 0.
Proof. exact nis_ge0. Qed.
Print Assumptions C16_nis_nonnegative.
