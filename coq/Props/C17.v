(** C17 — Estimator parameters round-trip; fitting only retunes noise. *)
From Coq Require Import String List Bool Arith QArith.
From FV Require Import Base.Names Base.Expr Model.Params gen.AdapterParams.
Import ListNotations.

Theorem C17_get_set_roundtrip : forall (V : Type) (e : est V), wf_est V e -> set_params V e (get_params V e) = @ROk (est V) e.
Proof. exact get_set_roundtrip. Qed.

Theorem C17_config_field_frame : forall (V : Type) (e : est V) k v,
  k <> kconfig -> has V (e_params V e) k = false -> has V (e_config V e) k = true ->
  exists e', set_params V e [(k, PV V v)] = @ROk (est V) e' /\ e_params V e' = e_params V e /\
             lookup k (e_config V e') = Some v /\ forall k', k' <> k -> lookup k' (e_config V e') = lookup k' (e_config V e).
Proof. exact set_config_field_frame. Qed.

Theorem C17_unknown_refused : forall (V : Type) (e : est V) k pv,
  k <> kconfig -> has V (e_params V e) k = false -> has V (e_config V e) k = false ->
  set_params V e [(k, pv)] = @RErr (est V) (InvalidKey k).
Proof. exact set_unknown_refused. Qed.

(** whatever vector the minimiser returns: the fitted process-noise map names exactly the controls and is strictly positive *)
Theorem C17_fitted_process_noise : forall controls sn x, (length (sort_names controls) <= length x)%nat ->
  map fst (fst (inverse_flatten controls sn x)) = sort_names controls /\
  Forall (fun kv => (0 < snd kv)%Q) (fst (inverse_flatten controls sn x)).
Proof. exact inverse_process_noise. Qed.

(** regenerated facts: the constructor keys and the configuration fields are disjoint name sets *)
Theorem C17_keys : adapter_allowed_keys = ["symbolic_model"; "process_noise"; "sensor_models"; "sensor_noises"; "calibration_map"; "config"]%string /\
  forallb (fun f => negb (existsb (String.eqb f) adapter_allowed_keys)) config_fields = true /\ adapter_source_as_modelled = true.
Proof. repeat split; reflexivity. Qed.

Print Assumptions C17_get_set_roundtrip.
Print Assumptions C17_config_field_frame.
Print Assumptions C17_fitted_process_noise.
