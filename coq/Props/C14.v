(** C14 — Structurally invalid definitions are refused; valid ones are accepted. *)
From Coq Require Import String List Bool.
From FV Require Import Base.Expr Model.Validate gen.Guards.
Import ListNotations.

(** the guard sequences extracted from the source are the ones the model below was written from *)
Theorem C14_guards_as_modelled : guards_match_model = true.
Proof. reflexivity. Qed.

(** each entry point accepts exactly the definitions that are structurally valid in the facts it is given
    (dict keys unique, no repeated declared symbol) *)
Theorem C14_ui_model : forall d, wf d -> accepts_ui d = valid_definition d.
Proof. exact ui_accepts_iff_valid. Qed.

Theorem C14_python_compile : forall d, wf d -> accepts_py_compile d = valid_model_compile d.
Proof. exact py_compile_accepts_iff_valid. Qed.

Theorem C14_cpp_compile : forall d, wf d -> accepts_cpp_compile d = valid_model_compile d.
Proof. exact cpp_compile_accepts_iff_valid. Qed.

Theorem C14_python_compile_ekf : forall d, wf d -> accepts_py_compile_ekf d = valid_filter_compile d.
Proof. exact py_compile_ekf_accepts_iff_valid. Qed.

Theorem C14_cpp_compile_ekf : forall d, wf d -> accepts_cpp_compile_ekf d = valid_filter_compile d.
Proof. exact cpp_compile_ekf_accepts_iff_valid. Qed.

Theorem C14_entry_points_agree : forall d, wf d ->
  accepts_py_compile d = accepts_cpp_compile d /\ accepts_py_compile_ekf d = accepts_cpp_compile_ekf d.
Proof. exact entry_points_agree. Qed.

Print Assumptions C14_python_compile_ekf.
Print Assumptions C14_cpp_compile_ekf.
Print Assumptions C14_entry_points_agree.
