(** C06 — Reading discarded iff NIS > k*sqrt(2m)+m; a discard changes nothing. *)
From mathcomp Require Import all_ssreflect all_algebra.
From FV Require Import Theory.Psd Theory.Diag gen.EkfA Proofs.Ekf.
Set Implicit Arguments. Unset Strict Implicit. Unset Printing Implicit Defensive.
Import Order.Theory GRing.Theory Num.Theory.
Local Open Scope ring_scope.

Theorem C06_py_remove_iff : forall (R : rcfType) (m : nat) (k : R) (z : 'cV[R]_m) (Sinv : 'M[R]_m),
  py_remove_innovation (Some k) z Sinv = (k * Num.sqrt (2%:R * m%:R) + m%:R < (z^T *m Sinv *m z) 0 0).
Proof. exact py_remove_iff. Qed.

Theorem C06_py_disabled : forall (R : rcfType) (m : nat) (z : 'cV[R]_m) (Sinv : 'M[R]_m),
  py_remove_innovation None z Sinv = false.
Proof. exact py_remove_disabled. Qed.

Theorem C06_cpp_remove_iff : forall (R : rcfType) (m : nat) (k : R) (z : 'cV[R]_m) (Sinv : 'M[R]_m),
  cpp_remove_innovation k z Sinv = (k * Num.sqrt (2%:R * m%:R) + m%:R < (z^T *m Sinv *m z) 0 0).
Proof. exact cpp_remove_iff. Qed.

Theorem C06_cpp_disabled : forall (R : rcfType) (m : nat) (k : R) (z : 'cV[R]_m) (Sinv : 'M[R]_m),
  k <= 0 -> cpp_filter_remove k z Sinv = false.
Proof. exact cpp_remove_disabled. Qed.

Theorem C06_same_decision : forall (R : rcfType) (m : nat) (k : R) (z : 'cV[R]_m) (Sinv : 'M[R]_m),
  0 < k ->
  py_remove_innovation (Some k) z Sinv = cpp_remove_innovation k z Sinv /\
  cpp_filter_remove k z Sinv = cpp_remove_innovation k z Sinv.
Proof. exact remove_same_decision. Qed.

Theorem C06_py_discard_is_identity : forall (F : realFieldType) (n m : nat)
  (rm : 'cV[F]_m -> 'M[F]_m -> bool) (x : 'cV[F]_n) (P : 'M[F]_n) (z hx : 'cV[F]_m) (H : 'M[F]_(m, n)) (Q : 'M[F]_m),
  rm (z - hx) (invmx (innov_cov P H Q)) ->
  (py_sensor_model rm x P z hx H Q).1 = (x, P) /\ (py_sensor_model rm x P z hx H Q).2 = (z - hx, innov_cov P H Q).
Proof. move=> F n m rm x P z hx H Q h; split; [exact: py_discard_is_identity | exact: py_records]. Qed.

Theorem C06_cpp_discard_is_identity : forall (F : realFieldType) (n m : nat)
  (rm : 'cV[F]_m -> 'M[F]_m -> bool) (x : 'cV[F]_n) (P : 'M[F]_n) (z hx : 'cV[F]_m) (H : 'M[F]_(m, n)) (Q : 'M[F]_m),
  rm (z - hx) (invmx (innov_cov P H Q)) ->
  cpp_sensor_model rm x P z hx H Q = ((x, P), z - hx).
Proof. by move=> F n m rm x P z hx H Q h; rewrite cpp_update_spec h. Qed.

(** the exact executable decision used by the correspondence (Model/EkfExec.rm_exact: no square root) is the
    regenerated threshold: k sqrt(2m) + m < nis  iff  0 < nis - m  and  2 m k^2 < (nis - m)^2 *)
Theorem C06_squared_form_of_threshold : forall (R : rcfType) (k m nis : R), 0 <= k -> 0 <= m ->
  (k * Num.sqrt (2%:R * m) + m < nis) = (0 < nis - m) && (2%:R * m * k ^+ 2 < (nis - m) ^+ 2).
Proof. exact threshold_squared. Qed.

Print Assumptions C06_py_remove_iff.
Print Assumptions C06_squared_form_of_threshold.
Print Assumptions C06_same_decision.
Print Assumptions C06_py_discard_is_identity.
