(** C03 (analytic part, Coquelicot): the symbolic derivative used by the check to validate sympy's
    Jacobian entries IS the partial derivative, wherever the expression is defined. *)
From Coq Require Import Reals String.
From Coquelicot Require Import Coquelicot.
From FV Require Import Base.Expr Theory.Deriv.

Theorem C03_deriv_is_partial_derivative : forall (x : name) (rho : renv) (e : expr), wd rho e ->
  is_derive (fun v => reval (upd rho x v) e) (rho x) (reval rho (deriv x e)).
Proof. exact deriv_correct. Qed.

Print Assumptions C03_deriv_is_partial_derivative.
