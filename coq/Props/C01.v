(** C01 — Compiled Python model computes exactly the user's symbolic state model. *)
From Coq Require Import String List Bool QArith.
From FV Require Import Base.Names Base.Expr Model.BasicBlock Model.Layout gen.LayoutParams Proofs.LayoutPy.
Import ListNotations.

(** BasicBlock.execute (positional arguments, temporaries by keyword, each prefix function over the
    regenerated scope) is the sequential-let semantics of the program: every program, every input. *)
Theorem C01_execute_is_sequential_let :
  forall (T : Type) (ev : (name -> option T) -> expr -> option T) args prefix body pos,
  length pos = length args ->
  execute T ev prefix_scope args prefix body pos = ref_execute T ev args prefix body pos.
Proof. exact (fun T ev => execute_is_ref T ev prefix_scope scope_ok). Qed.

(** Model.model, with the argument and call orders regenerated from the source: for every definition,
    every interpretation of the function symbols, every input and every CSE result satisfying the
    contract (in particular CSE off), the result is the named vector of the update expressions' values
    in the environment that binds every symbol to the value supplied under its name. *)
Theorem C01_model_spec :
  forall (T : Type) (ev : (name -> option T) -> expr -> option T) (d : defn) prefix body (i : inputs T),
  shapes_ok T d i ->
  cse_contract T ev (arglist d model_arglist_order) (map (d_model d) (d_S d)) prefix body ->
  py_model T ev prefix_scope d model_arglist_order model_call_order prefix body i =
  option_map (combine (d_S d))
    (all_some (map (fun x => ev (named_env T d i model_arglist_order) (d_model d x)) (d_S d))).
Proof. exact gen_py_model_spec. Qed.

Theorem C01_model_by_name :
  forall (T : Type) (ev : (name -> option T) -> expr -> option T) (d : defn) prefix body (i : inputs T) r k x,
  shapes_ok T d i -> NoDup (d_S d) ->
  cse_contract T ev (arglist d model_arglist_order) (map (d_model d) (d_S d)) prefix body ->
  py_model T ev prefix_scope d model_arglist_order model_call_order prefix body i = Some r ->
  nth_error (d_S d) k = Some x ->
  option_map Some (lookup x r) = Some (ev (named_env T d i model_arglist_order) (d_model d x)).
Proof. exact gen_py_model_by_name. Qed.

Theorem C01_cse_independent :
  forall (T : Type) (ev : (name -> option T) -> expr -> option T) (d : defn) p1 b1 p2 b2 (i : inputs T),
  shapes_ok T d i ->
  cse_contract T ev (arglist d model_arglist_order) (map (d_model d) (d_S d)) p1 b1 ->
  cse_contract T ev (arglist d model_arglist_order) (map (d_model d) (d_S d)) p2 b2 ->
  py_model T ev prefix_scope d model_arglist_order model_call_order p1 b1 i =
  py_model T ev prefix_scope d model_arglist_order model_call_order p2 b2 i.
Proof. exact gen_py_model_cse_indep. Qed.

(** the named environment gives a state symbol the value stored under its name *)
Theorem C01_named_env_state :
  forall (T : Type) (d : defn) (i : inputs T) k x v,
  NoDup (arglist d [Gdt; Gstate; Gcal; Gctl]) -> shapes_ok T d i ->
  nth_error (d_S d) k = Some x -> nth_error (i_S T i) k = Some v ->
  named_env T d i [Gdt; Gstate; Gcal; Gctl] x = Some v.
Proof. exact named_env_state. Qed.

(** non-vacuity: a two-state model with a shared sub-expression, CSE on, evaluated exactly *)
Local Open Scope string_scope.
Example C01_nonvacuous :
  let d := mkDefn "dt" ["v"; "x"] [] ["a"]
             (fun n => if String.eqb n "x" then Add (Var "x") (Mul (Var "dt") (Var "v"))
                       else Add (Var "v") (Mul (Var "dt") (Var "a"))) in
  py_model Q qeval prefix_scope d model_arglist_order model_call_order
     [("_t0", Mul (Var "dt") (Var "v"))]
     [Add (Var "v") (Mul (Var "dt") (Var "a")); Add (Var "x") (Var "_t0")]
     (mkInputs Q (1 # 2)%Q [2%Q; 3%Q] [] [4%Q])
  = Some [("v", 4%Q); ("x", 4%Q)].
Proof. vm_compute. reflexivity. Qed.

Print Assumptions C01_execute_is_sequential_let.
Print Assumptions C01_model_spec.
Print Assumptions C01_model_by_name.
Print Assumptions C01_cse_independent.
