(** C10 — Managed filter moves through time in bounded, correctly directed steps.
    Only statements closed by [exact]; the proofs are in Model/Runtime.v, Model/RuntimeCpp.v and
    Proofs/RuntimePy.v (the latter about code regenerated from py/formak/runtime.py on every run). *)
From Coq Require Import ZArith QArith Qabs Qround List.
From FV Require Import Base.Num Model.Runtime Model.RuntimeCpp gen.RuntimePy Proofs.RuntimePy gen.RuntimeCppGen Proofs.RuntimeCpp.
Import ListNotations.
Open Scope Q_scope.

(** Python: moving the estimate from [cur] to [out] applies exactly the prediction steps [steps] in
    order (any number type, any wrapped filter, any control). *)
Theorem C10_py_moves_by_steps :
  forall (N : Num) (St Cov Ctl : Type) (impl_pm : N -> St -> Cov -> option Ctl -> St * Cov)
         (max_dt cur : N) (st : St) (cov : Cov) (out : N) (ctl : option Ctl),
  py_process_model N St Cov Ctl impl_pm max_dt cur st cov out ctl =
  option_map (fun s => (out, s))
    (propagate N (St * Cov) (pm N St Cov Ctl impl_pm ctl) max_dt cur (st, cov) out).
Proof. exact py_process_model_is_propagate. Qed.
Print Assumptions C10_py_moves_by_steps.

(** C++ (hand model of processUpdate, tied to the header by bit-exact traces): the same steps. *)
Theorem C10_cpp_moves_by_steps :
  forall (N : Num) (SV : Type) (pmc : N -> SV -> SV) (max_dt cur : N) (st : SV) (out : N),
  cpp_process_update N SV pmc max_dt cur st out =
  option_map (fun s => (out, s)) (propagate N SV pmc max_dt cur st out).
Proof. exact cpp_process_update_is_propagate. Qed.
Print Assumptions C10_cpp_moves_by_steps.

(** C++: the time arithmetic regenerated from ManagedFilter.h (both processUpdate overloads) applies the same steps. *)
Theorem C10_cpp_header_moves_by_steps :
  forall (N : Num) (SV : Type) (pmc : N -> SV -> SV) (max_dt cur : N) (st : SV) (out : N),
  cpp_process_update_ctl N SV pmc max_dt cur st out = option_map (fun s => (out, s)) (propagate N SV pmc max_dt cur st out) /\
  cpp_process_update_noctl N SV pmc max_dt cur st out = option_map (fun s => (out, s)) (propagate N SV pmc max_dt cur st out).
Proof. intros; split; [apply gen_ctl_moves_by_steps | apply gen_noctl_moves_by_steps]. Qed.
Print Assumptions C10_cpp_header_moves_by_steps.

(** In exact arithmetic the step list is [qsteps]. *)
Theorem C10_steps_exact : forall max_dt cur out, steps QNum max_dt cur out = Some (qsteps max_dt cur out).
Proof. exact steps_Q. Qed.
Print Assumptions C10_steps_exact.

Theorem C10_direction : forall max_dt cur out, 0 < max_dt -> forall d, In d (qsteps max_dt cur out) ->
  (cur < out -> 0 < d) /\ (out < cur -> d < 0) /\ ~ cur == out.
Proof. exact steps_direction. Qed.
Print Assumptions C10_direction.

Theorem C10_bounded : forall max_dt cur out, 0 < max_dt -> forall d, In d (qsteps max_dt cur out) -> Qabs d <= max_dt.
Proof. exact steps_bounded. Qed.
Print Assumptions C10_bounded.

Theorem C10_sum : forall max_dt cur out, 0 < max_dt ->
  Qabs (sumQ (qsteps max_dt cur out) - (out - cur)) < 1 # 1000000000.
Proof. exact (fun m c o _ => steps_sum m c o). Qed.
Print Assumptions C10_sum.

Theorem C10_none_when_equal : forall max_dt cur out, 0 < max_dt -> cur == out -> qsteps max_dt cur out = [].
Proof. exact steps_none_when_equal. Qed.
Print Assumptions C10_none_when_equal.

Theorem C10_count : forall max_dt cur out, 0 < max_dt ->
  qk max_dt cur out = Qfloor (Qabs (out - cur) / max_dt).
Proof. exact steps_count. Qed.
Print Assumptions C10_count.

(** The whole list: exactly [qk] full-length steps (each of magnitude max_dt), then at most one remainder step,
    strictly shorter than max_dt and at least 1e-9 long. *)
Theorem C10_shape : forall max_dt cur out, 0 < max_dt -> exists tail,
  qsteps max_dt cur out = repeat (qm max_dt cur out) (Z.to_nat (qk max_dt cur out)) ++ tail /\
  Qabs (qm max_dt cur out) == max_dt /\ (length tail <= 1)%nat /\
  (forall d, In d tail -> d == qrem max_dt cur out /\ (1 # 1000000000) <= Qabs d /\ Qabs d < max_dt).
Proof. exact steps_shape. Qed.
Print Assumptions C10_shape.

Theorem C10_length : forall max_dt cur out, 0 < max_dt ->
  (length (qsteps max_dt cur out) <= Z.to_nat (qk max_dt cur out) + 1)%nat.
Proof. exact steps_length. Qed.
Print Assumptions C10_length.

(** Moving to the time the estimate is already at: the wrapped filter is not called and the estimate is returned as it is. *)
Theorem C10_equal_times_identity : forall (St : Type) (pm : QNum -> St -> St) max_dt cur st out,
  0 < max_dt -> cur == out -> propagate QNum St pm max_dt cur st out = Some st.
Proof. exact propagate_equal_id. Qed.
Print Assumptions C10_equal_times_identity.

(** non-vacuity: a forward move with a remainder, and a backward move *)
Example C10_nonvacuous :
  map Qred (qsteps (1 # 10) 0 (35 # 100)) = [1 # 10; 1 # 10; 1 # 10; 1 # 20] /\
  map Qred (qsteps (1 # 20) 1 (9 # 10)) = [-1 # 20; -1 # 20].
Proof. split; vm_compute; reflexivity. Qed.
