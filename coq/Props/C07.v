(** C07 — Python and generated C++ filters agree step for step (algebra part; values of G, V, M, h, H, Q
    on both sides are stated against the same named expressions by C01-C05 / C02, decisions by C06). *)
From mathcomp Require Import all_ssreflect all_algebra.
From FV Require Import Theory.Psd gen.EkfA Proofs.Ekf.
Set Implicit Arguments. Unset Strict Implicit. Unset Printing Implicit Defensive.
Import GRing.Theory Num.Theory.
Local Open Scope ring_scope.

Theorem C07_predict_agree : forall (F : realFieldType) (n c : nat)
  (G : 'M[F]_n) (V : 'M[F]_(n, c)) (P : 'M[F]_n) (M : 'M[F]_c),
  cpp_process_model_cov G V P M = py_process_model_cov G V P M.
Proof. exact cpp_predict_eq_py. Qed.

(** same state, covariance and stored innovation, for the same decision function *)
Theorem C07_update_agree : forall (F : realFieldType) (n m : nat)
  (rm : 'cV[F]_m -> 'M[F]_m -> bool) (x : 'cV[F]_n) (P : 'M[F]_n) (z hx : 'cV[F]_m) (H : 'M[F]_(m, n)) (Q : 'M[F]_m),
  cpp_sensor_model rm x P z hx H Q = let r := py_sensor_model rm x P z hx H Q in (r.1, r.2.1).
Proof. exact cpp_update_eq_py. Qed.

Theorem C07_same_decision : forall (R : rcfType) (m : nat) (k : R) (z : 'cV[R]_m) (Sinv : 'M[R]_m),
  0 < k -> py_remove_innovation (Some k) z Sinv = cpp_filter_remove k z Sinv.
Proof. by move=> R m k z Sinv k0; have [-> ->] := remove_same_decision z Sinv k0. Qed.

Print Assumptions C07_predict_agree.
Print Assumptions C07_update_agree.
Print Assumptions C07_same_decision.
