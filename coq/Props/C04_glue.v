(** C04 (glue part, stdlib style): noise assembly by name. *)
From Coq Require Import String List Bool Arith QArith.
From FV Require Import Base.Expr Base.ListMat Base.Store Model.Named gen.NoisePy Proofs.NoisePy.
Import ListNotations.

(** M is the diagonal matrix of the per-control noise supplied by name (symbol keys), symmetric *)
Theorem C04_process_noise_by_name : forall controls d i j,
  only_symbol_keys d = true -> NoDup controls ->
  (i < length controls)%nat -> (j < length controls)%nat ->
  option_map (fun row => nth_error row j) (nth_error (py_noise_matrix controls d) i) =
  Some (Some (if Nat.eqb i j
              then match nlookup (K1 (nth i controls EmptyString)) d with Some v => v | None => 0%Q end
              else 0%Q)).
Proof. exact noise_matrix_diag. Qed.

Theorem C04_process_noise_symmetric : forall controls d i j,
  (i < length controls)%nat -> (j < length controls)%nat ->
  option_map (fun row => nth_error row j) (nth_error (py_noise_matrix controls d) i) =
  option_map (fun row => nth_error row i) (nth_error (py_noise_matrix controls d) j).
Proof. exact noise_matrix_symmetric. Qed.

(** the double loop of _construct_process, as translated from the source on this run (gen/NoisePy.v: np.eye, the
    two enumerate loops, the if/elif chain, the two stores), fills exactly that matrix - for every control list
    and every noise dictionary, pair keys included *)
Theorem C04_noise_loop_is_closed_form : forall controls d, py_noise_loop controls d = py_noise_matrix controls d.
Proof. exact py_noise_loop_is_closed_form. Qed.

Print Assumptions C04_process_noise_by_name.
Print Assumptions C04_noise_loop_is_closed_form.
Print Assumptions C04_process_noise_symmetric.
