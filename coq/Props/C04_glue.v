(** C04 (glue part, stdlib style): noise assembly by name. *)
From Coq Require Import String List Bool Arith QArith.
From FV Require Import Base.Expr Base.ListMat Model.Named.
Import ListNotations.

(** M is the diagonal matrix of the per-control noise supplied by name (symbol keys), symmetric *)
Theorem C04_process_noise_by_name : forall controls d i j,
  only_symbol_keys d = true -> NoDup controls ->
  (i < length controls)%nat -> (j < length controls)%nat ->
  option_map (fun row => nth_error row j) (nth_error (py_noise_matrix controls d) i) =
  Some (Some (if Nat.eqb i j
              then match nlookup (K1 (nth i controls EmptyString)) d with Some v => v | None => 0%Q end
              else 0%Q)).
Proof. exact noise_matrix_diag. Qed.

Theorem C04_process_noise_symmetric : forall controls d i j,
  (i < length controls)%nat -> (j < length controls)%nat ->
  option_map (fun row => nth_error row j) (nth_error (py_noise_matrix controls d) i) =
  option_map (fun row => nth_error row i) (nth_error (py_noise_matrix controls d) j).
Proof. exact noise_matrix_symmetric. Qed.


Print Assumptions C04_process_noise_by_name.
Print Assumptions C04_process_noise_symmetric.
