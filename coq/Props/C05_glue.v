(** C05 (glue part, stdlib style): noise assembly by name. *)
From Coq Require Import String List Bool Arith QArith.
From FV Require Import Base.Expr Base.ListMat Model.Named.
Import ListNotations.

(** Q is the diagonal matrix of the per-reading noise by name (named covariance container) *)
Theorem C05_sensor_noise_diag : forall arglist kw C i j a b,
  ncov_make arglist kw = Ok C -> nth_error arglist i = Some a -> nth_error arglist j = Some b ->
  option_map (fun row => nth_error row j) (nth_error C i) =
  Some (Some (if String.eqb a b then match lookup a kw with Some v => v | None => 1%Q end else 0%Q)).
Proof. exact ncov_make_entry. Qed.


Print Assumptions C05_sensor_noise_diag.
