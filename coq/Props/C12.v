(** C12 — Every generated filter can be driven through the C++ managed runtime.
    Partial: C++ overload resolution / template instantiation are modelled at the level of argument
    kinds (finite: four control x calibration combinations); "it compiles" is observed with g++. *)
From Coq Require Import List Bool ZArith.
From FV Require Import Base.Num Base.Expr Model.Layout Model.Runtime Model.RuntimeCpp Model.MfShape gen.CppGenParams.
Import ListNotations.

Theorem C12_call_shapes_compatible : forall ctl cal,
  mf_process_call ctl cal = gen_process_sig ctl cal /\
  mf_sensor_call ctl cal = gen_stamped_sig ctl cal /\
  gen_reading_override_sig ctl cal = gen_stamped_sig ctl cal /\
  gen_tag_false_type_when_absent = true.
Proof. exact mf_compatible. Qed.

(** ticking = calling the filter's prediction and update functions by hand in the specified order *)
Theorem C12_tick_equals_by_hand : forall (N : Base.Num.Num) (SV R : Type) pmc smc ts max_dt h out rs,
  cpp_tick N SV R pmc smc ts max_dt h out rs = tick_spec N SV R pmc smc ts max_dt h out rs.
Proof. exact cpp_tick_is_spec. Qed.

Print Assumptions C12_call_shapes_compatible.
Print Assumptions C12_tick_equals_by_hand.
