(** C08 — Common-subexpression elimination never changes a result; temporaries are single-assignment. *)
From Coq Require Import String List Bool Arith.
From FV Require Import Base.Names Base.Expr Model.BasicBlock Model.Layout Model.CppGen gen.LayoutParams gen.CppGenParams Proofs.LayoutPy.
Import ListNotations.

(** Python: every compiled block, for ANY post-CSE program meeting the contract (CSE off is the empty
    prefix), returns the values of the original expressions: the same with CSE on or off *)
Theorem C08_py_block_original :
  forall (T : Type) (ev : (name -> option T) -> expr -> option T) args original prefix body pos,
  cse_contract T ev args original prefix body -> length pos = length args ->
  execute T ev prefix_scope args prefix body pos = all_some (map (ev (fun x => lookup x (combine args pos))) original).
Proof. exact (fun T ev => execute_original T ev prefix_scope scope_ok). Qed.

Theorem C08_cse_off_is_contract :
  forall (T : Type) (ev : (name -> option T) -> expr -> option T) args original, cse_contract T ev args original [] original.
Proof. exact cse_off_contract. Qed.

Theorem C08_py_cse_independent :
  forall (T : Type) (ev : (name -> option T) -> expr -> option T) (d : defn) p1 b1 p2 b2 (i : inputs T),
  shapes_ok T d i ->
  cse_contract T ev (arglist d model_arglist_order) (map (d_model d) (d_S d)) p1 b1 ->
  cse_contract T ev (arglist d model_arglist_order) (map (d_model d) (d_S d)) p2 b2 ->
  py_model T ev prefix_scope d model_arglist_order model_call_order p1 b1 i =
  py_model T ev prefix_scope d model_arglist_order model_call_order p2 b2 i.
Proof. exact gen_py_model_cse_indep. Qed.

(** the i-th prefix function is compiled over the arguments and exactly the first i temporaries *)
Theorem C08_py_prefix_scope : forall i ts, prefix_scope i ts = firstn i ts.
Proof. exact scope_ok. Qed.

(** generated code: the certified checker run on every generated function body - if it accepts, every
    temporary is assigned exactly once, before its first use, from inputs and earlier temporaries only *)
Theorem C08_ssa_checker_sound : forall body, ssa_ok [] body = true ->
  NoDup (map fst body) /\
  forall k t uses, nth_error body k = Some (t, uses) -> forall u, In u uses -> In u (map fst (firstn k body)).
Proof. exact ssa_ok_sound. Qed.

Theorem C08_cpp_prefix_emitted_first : cpp_cse_prefix_first = true.
Proof. reflexivity. Qed.

Print Assumptions C08_py_block_original.
Print Assumptions C08_py_cse_independent.
Print Assumptions C08_ssa_checker_sound.
