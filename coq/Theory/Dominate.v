(** A symmetric error matrix D whose entries are bounded in absolute value by the entries of a symmetric matrix B is
    dominated, in the Loewner order, by the diagonal matrix of the row sums of B:
        | x^T D x |  <=  sum_i (sum_j B_ij) x_i^2 .
    This is the step by which the C09 history harness turns entry-wise rounding bounds |fl(G P G^T) - G P G^T| <= gamma |G||P||G|^T
    into the matrix L of its recurrence E' = F E F^T + C u L. *)
From mathcomp Require Import all_ssreflect all_algebra.
From FV Require Import Theory.Psd Theory.Diag.
Set Implicit Arguments. Unset Strict Implicit. Unset Printing Implicit Defensive.
Import Order.Theory GRing.Theory Num.Theory.
Local Open Scope ring_scope.

Section Dominate.
Variable F : realFieldType.
Variable n : nat.

Definition rowsum_diag (B : 'M[F]_n) : 'M[F]_n := diag_mx (\row_i \sum_j B i j).

Lemma qf_sum (A : 'M[F]_n) (x : 'cV[F]_n) : qf A x = \sum_i \sum_j x i 0 * A i j * x j 0.
Proof.
rewrite exchange_big /= /qf mxE; apply: eq_bigr => j _; rewrite mxE big_distrl /=.
by apply: eq_bigr => i _; rewrite !mxE.
Qed.

(** 2 |a b| <= a^2 + b^2 *)
Lemma two_ab (a b : F) : `|a * b| *+ 2 <= a ^+ 2 + b ^+ 2.
Proof.
have h : 0 <= (`|a| - `|b|) ^+ 2 by exact: sqr_ge0.
by move: h; rewrite sqrrB !real_normK ?num_real // addrAC subr_ge0 normrM.
Qed.

Lemma half_ab (a b : F) : `|a * b| <= (a ^+ 2 + b ^+ 2) / 2%:R.
Proof. by rewrite ler_pdivl_mulr ?ltr0n // mulr_natr; exact: two_ab. Qed.

Lemma term_bound (D B : 'M[F]_n) (x : 'cV[F]_n) i j : `|D i j| <= B i j ->
  x i 0 * D i j * x j 0 <= B i j * ((x i 0) ^+ 2 + (x j 0) ^+ 2) / 2%:R.
Proof.
move=> h; set a := x i 0; set b := x j 0; set d := D i j; set beta := B i j.
have B0 : 0 <= beta by exact: le_trans (normr_ge0 _) h.
have e : a * d * b = d * (a * b) by rewrite [a * d]mulrC mulrA.
apply: (le_trans (ler_norm _)); rewrite e normrM.
apply: (@le_trans _ _ (beta * `|a * b|)); first by rewrite ler_wpmul2r.
by rewrite -mulrA ler_wpmul2l //; exact: half_ab.
Qed.

Theorem rowsum_dominates (D B : 'M[F]_n) (x : 'cV[F]_n) :
  (forall i j, `|D i j| <= B i j) -> (forall i j, B i j = B j i) ->
  qf D x <= qf (rowsum_diag B) x.
Proof.
move=> hDB symB.
have -> : qf (rowsum_diag B) x = \sum_i (\sum_j B i j) * (x i 0) ^+ 2.
  rewrite /rowsum_diag qf_diag; apply: eq_bigr => i _; by rewrite mxE.
rewrite qf_sum.
apply: (@le_trans _ _ (\sum_i \sum_j B i j * ((x i 0) ^+ 2 + (x j 0) ^+ 2) / 2%:R)).
  apply: ler_sum => i _; apply: ler_sum => j _; exact: term_bound.
(* split the symmetric sum in two equal halves *)
have split : \sum_i \sum_j B i j * ((x i 0) ^+ 2 + (x j 0) ^+ 2) / 2%:R =
             (\sum_i \sum_j B i j * (x i 0) ^+ 2) / 2%:R + (\sum_i \sum_j B i j * (x j 0) ^+ 2) / 2%:R.
  rewrite -mulrDl -big_split /= big_distrl /=; apply: eq_bigr => i _.
  rewrite -big_split /= big_distrl /=; apply: eq_bigr => j _.
  by rewrite mulrDr.
have swap : \sum_i \sum_j B i j * (x j 0) ^+ 2 = \sum_i \sum_j B i j * (x i 0) ^+ 2.
  rewrite exchange_big /=; apply: eq_bigr => i _; apply: eq_bigr => j _; by rewrite symB.
rewrite split swap -mulrDl -mulr2n -mulr_natr mulfK ?pnatr_eq0 //.
by apply: ler_sum => i _; rewrite big_distrl.
Qed.

(** the Loewner statement: L - D and L + D are positive semi-definite *)
Corollary rowsum_loewner (D B : 'M[F]_n) :
  (forall i j, `|D i j| <= B i j) -> (forall i j, B i j = B j i) ->
  psd (rowsum_diag B - D) /\ psd (rowsum_diag B + D).
Proof.
move=> hDB symB; split=> x.
- rewrite /qf mulmxBr mulmxBl mxE [X in _ + X]mxE subr_ge0; exact: rowsum_dominates.
- have hN : forall i j, `|(- D) i j| <= B i j by move=> i j; rewrite mxE normrN.
  have qfN : qf (- D) x = - qf D x by rewrite /qf mulmxN mulNmx mxE.
  have qfD : qf (rowsum_diag B + D) x = qf (rowsum_diag B) x + qf D x by rewrite /qf mulmxDr mulmxDl mxE.
  by move: (rowsum_dominates x hN symB); rewrite qfD qfN ler_oppl -subr_ge0 opprK addrC.
Qed.
End Dominate.
