(** The rationals of the standard library (QArith, the numbers the executable model computes with) embed in
    MathComp's field [rat]; the embedding sends Qeq to equality and commutes with the reduced operations of
    Base/ListMat.v. *)
From Coq Require Import ZArith QArith_base Qreduction.
From mathcomp Require Import all_ssreflect all_algebra.
From mathcomp Require Import ssrZ.
From FV Require Import Base.ListMat.
Set Implicit Arguments. Unset Strict Implicit. Unset Printing Implicit Defensive.
Import Order.Theory GRing.Theory Num.Theory.
Local Open Scope ring_scope.

Definition z2r (z : Z) : rat := (int_of_Z z)%:~R.
Definition q2r (q : QArith_base.Q) : rat := z2r (Qnum q) / z2r (Zpos (Qden q)).

Lemma z2r_add a b : z2r (Z.add a b) = z2r a + z2r b.
Proof. by rewrite /z2r -rmorphD /= -[Z.add a b]/(a + b) rmorphD. Qed.

Lemma z2r_mul a b : z2r (Z.mul a b) = z2r a * z2r b.
Proof. by rewrite /z2r -rmorphM /= -[Z.mul a b]/(a * b) rmorphM. Qed.

Lemma z2r_opp a : z2r (Z.opp a) = - z2r a.
Proof. by rewrite /z2r -rmorphN /= -[Z.opp a]/(- a) rmorphN. Qed.

Lemma z2r_pos_neq0 p : z2r (Zpos p) != 0.
Proof.
rewrite /z2r intr_eq0 /=.
have := Pos2Nat.is_pos p; case: (Pos.to_nat p) => [|k] //; move/PeanoNat.Nat.lt_irrefl; by [].
Qed.

Lemma q2r_eq a b : Qeq a b -> q2r a = q2r b.
Proof.
rewrite /Qeq /q2r => h; apply/eqP.
by rewrite eqr_div ?z2r_pos_neq0 // -!z2r_mul h.
Qed.

Lemma q2r_add a b : q2r (Qplus a b) = q2r a + q2r b.
Proof.
rewrite /q2r /Qplus /= addf_div ?z2r_pos_neq0 //.
by rewrite Pos2Z.inj_mul !z2r_mul z2r_add !z2r_mul.
Qed.

Lemma q2r_mul a b : q2r (Qmult a b) = q2r a * q2r b.
Proof. by rewrite /q2r /Qmult /= mulf_div Pos2Z.inj_mul !z2r_mul. Qed.

Lemma q2r_opp a : q2r (Qopp a) = - q2r a.
Proof. by rewrite /q2r /Qopp /= z2r_opp mulNr. Qed.

Lemma q2r_sub a b : q2r (Qminus a b) = q2r a - q2r b.
Proof. by rewrite /Qminus q2r_add q2r_opp. Qed.

Lemma q2r_red a : q2r (Qred a) = q2r a.
Proof. exact: q2r_eq (Qred_correct a). Qed.

Lemma q2r_0 : q2r (Qmake Z0 xH) = 0.
Proof. by rewrite /q2r /z2r /= mul0r. Qed.

Lemma q2r_1 : q2r (Qmake (Zpos xH) xH) = 1.
Proof. by rewrite /q2r /z2r /= divr1. Qed.

Lemma q2r_qadd a b : q2r (qadd a b) = q2r a + q2r b. Proof. by rewrite /qadd q2r_red q2r_add. Qed.
Lemma q2r_qsub a b : q2r (qsub a b) = q2r a - q2r b. Proof. by rewrite /qsub q2r_red q2r_sub. Qed.
Lemma q2r_qmul a b : q2r (qmul a b) = q2r a * q2r b. Proof. by rewrite /qmul q2r_red q2r_mul. Qed.

(** injectivity up to Qeq: equal images only for equal rationals *)
Lemma q2r_inj a b : q2r a = q2r b -> Qeq a b.
Proof.
rewrite /q2r /Qeq => /eqP; rewrite eqr_div ?z2r_pos_neq0 // -!z2r_mul /z2r => /eqP h.
have := @intr_inj [numDomainType of rat] _ _ h => /(can_inj int_of_ZK). by [].
Qed.
