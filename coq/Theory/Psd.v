(** Symmetric / positive (semi-)definite matrices by quadratic forms over any real field, and the
    Kalman prediction / update algebra.  MathComp style. *)
From mathcomp Require Import all_ssreflect all_algebra.
Set Implicit Arguments. Unset Strict Implicit. Unset Printing Implicit Defensive.
Import Order.Theory GRing.Theory Num.Theory.
Local Open Scope ring_scope.

Section PSD.
Variable F : realFieldType.
Definition sym n (A : 'M[F]_n) := A^T = A.
Definition qf n (A : 'M[F]_n) (x : 'cV[F]_n) : F := (x^T *m A *m x) 0 0.
Definition psd n (A : 'M[F]_n) := forall x, 0 <= qf A x.
Definition pd n (A : 'M[F]_n) := forall x, x != 0 -> 0 < qf A x.
Definition valid n (A : 'M[F]_n) := sym A /\ psd A.

Lemma pd_psd n (A : 'M[F]_n) : pd A -> psd A.
Proof.
move=> hA x; case: (altP (x =P 0)) => [->|x0]; last exact: ltW (hA x x0).
by rewrite /qf mulmx0 mxE.
Qed.

Lemma psd_congr n m (P : 'M[F]_n) (G : 'M[F]_(m,n)) : psd P -> psd (G *m P *m G^T).
Proof.
move=> hP x; rewrite /qf.
have -> : x^T *m (G *m P *m G^T) *m x = (G^T *m x)^T *m P *m (G^T *m x).
  by rewrite trmx_mul trmxK !mulmxA.
exact: hP.
Qed.

Lemma psd_add n (A B : 'M[F]_n) : psd A -> psd B -> psd (A + B).
Proof.
move=> hA hB x; rewrite /qf mulmxDr mulmxDl mxE; exact: addr_ge0 (hA x) (hB x).
Qed.

Lemma sym_congr n m (P : 'M[F]_n) (G : 'M[F]_(m,n)) : sym P -> sym (G *m P *m G^T).
Proof. by move=> hP; rewrite /sym !trmx_mul trmxK hP mulmxA. Qed.

Lemma sym_add n (A B : 'M[F]_n) : sym A -> sym B -> sym (A + B).
Proof. by move=> hA hB; rewrite /sym linearD /= hA hB. Qed.

(** symmetrisation (A + A^T)/2: always symmetric, the identity on symmetric matrices, preserves the quadratic form *)
Definition symz n (A : 'M[F]_n) : 'M[F]_n := 2%:R^-1 *: (A + A^T).

Lemma symz_sym n (A : 'M[F]_n) : sym (symz A).
Proof. by rewrite /sym /symz linearZ /= linearD /= trmxK addrC. Qed.

Lemma symz_id n (A : 'M[F]_n) : sym A -> symz A = A.
Proof.
move=> sA; rewrite /symz sA -mulr2n -scaler_nat scalerA mulVf ?scale1r //.
by rewrite pnatr_eq0.
Qed.

Lemma qf_symz n (A : 'M[F]_n) x : qf (symz A) x = qf A x.
Proof.
rewrite /qf /symz -scalemxAr -scalemxAl mxE mulmxDr mulmxDl mxE.
have -> : (x^T *m A^T *m x) 0 0 = (x^T *m A *m x) 0 0.
  have -> : x^T *m A^T *m x = (x^T *m A *m x)^T by rewrite !trmx_mul trmxK mulmxA.
  by rewrite mxE.
set q := (_ *m A *m _) 0 0.
by rewrite -mulr2n -[q *+ 2]mulr_natr mulrCA mulVf ?mulr1 // pnatr_eq0.
Qed.

Lemma psd_symz n (A : 'M[F]_n) : psd A -> psd (symz A).
Proof. by move=> hA x; rewrite qf_symz. Qed.

Lemma psd0 n : psd (0 : 'M[F]_n).
Proof. by move=> x; rewrite /qf mulmx0 mul0mx mxE. Qed.

Lemma sym0 n : sym (0 : 'M[F]_n).
Proof. by rewrite /sym trmx0. Qed.

Lemma vtv_gt0 n (v : 'cV[F]_n) : v != 0 -> 0 < (v^T *m v) 0 0.
Proof.
move=> v0. rewrite mxE lt_def; apply/andP; split; last first.
  by apply: sumr_ge0 => i _; rewrite mxE -expr2 sqr_ge0.
apply: contra v0 => /eqP s0; apply/eqP/matrixP => i j; rewrite mxE [j]ord1.
have h : forall k : 'I_n, true -> 0 <= v^T 0 k * v k 0 by move=> k _; rewrite mxE -expr2 sqr_ge0.
move/eqP: s0; rewrite psumr_eq0 // => /allP h0.
have := h0 i; rewrite mem_index_enum => /(_ isT).
by rewrite mxE -expr2 sqrf_eq0 => /eqP.
Qed.

(** a real eigenvalue of a PSD matrix is non-negative *)
Lemma psd_eigen_ge0 n (A : 'M[F]_n) (v : 'cV[F]_n) (lam : F) :
  psd A -> v != 0 -> A *m v = lam *: v -> 0 <= lam.
Proof.
move=> hA v0 Av.
have := hA v; rewrite /qf -mulmxA Av -scalemxAr mxE.
by rewrite (pmulr_lge0 _ (vtv_gt0 v0)).
Qed.

End PSD.

Lemma zm4 (V : zmodType) (t1 t2 t3 t4 : V) : t4 + t1 - t2 - t3 + t3 - t4 = t1 - t2.
Proof. by rewrite subrK addrAC [t4 + t1]addrC addrK. Qed.

Section Predict.
Variable F : realFieldType.
Variables n c : nat.
Variables (P G : 'M[F]_n) (V : 'M[F]_(n,c)) (M : 'M[F]_c).

Definition predict_cov : 'M[F]_n := G *m P *m G^T + V *m M *m V^T.

Lemma predict_valid : valid P -> valid M -> valid predict_cov.
Proof.
move=> [sP pP] [sM pM]; split.
- by apply: sym_add; apply: sym_congr.
- by apply: psd_add; apply: psd_congr.
Qed.
End Predict.

Section Update.
Variable F : realFieldType.
Variables n m : nat.
Variables (P : 'M[F]_n) (H : 'M[F]_(m,n)) (Q : 'M[F]_m).
Hypothesis symP : sym P.
Hypothesis symQ : sym Q.
Hypothesis psdP : psd P.
Hypothesis pdQ : pd Q.

Definition innov_cov : 'M[F]_m := H *m P *m H^T + Q.
Definition kalman_gain : 'M[F]_(n,m) := P *m H^T *m invmx innov_cov.
Definition update_cov : 'M[F]_n := P - kalman_gain *m H *m P.
Definition update_state (x : 'cV[F]_n) (z hx : 'cV[F]_m) : 'cV[F]_n := x + kalman_gain *m (z - hx).

Let S := innov_cov.
Let K := kalman_gain.
Let P' := update_cov.

Lemma symS : sym S.
Proof. by rewrite /sym /S /innov_cov linearD /= !trmx_mul trmxK symP symQ !mulmxA. Qed.

Lemma pdS : pd S.
Proof.
move=> x x0; rewrite /qf /S /innov_cov mulmxDr mulmxDl mxE.
apply: ltr_paddl; last exact: pdQ.
exact: (@psd_congr F n m P H psdP x).
Qed.

Lemma unitS : S \in unitmx.
Proof.
rewrite -row_free_unit -kermx_eq0; apply/eqP/row_matrixP => i.
rewrite row0; set v := row i (kermx S).
have vS0 : v *m S = 0 by rewrite /v -row_mul mulmx_ker row0.
apply/eqP; apply: contraTT isT => v0.
have vt0 : v^T != 0 by rewrite -trmx0 (inj_eq (@trmx_inj _ _ _)).
have := pdS vt0; rewrite /qf trmxK vS0 mul0mx mxE ltxx. by [].
Qed.

Lemma symSinv : (invmx S)^T = invmx S.
Proof. by rewrite trmx_inv symS. Qed.

(** S^-1 is positive semi-definite: x^T S^-1 x = (S^-1 x)^T S (S^-1 x) *)
Lemma psdSinv : psd (invmx S).
Proof.
move=> x; rewrite /qf.
have -> : x^T *m invmx S *m x = (invmx S *m x)^T *m S *m (invmx S *m x).
  by rewrite trmx_mul symSinv !mulmxA mulmxKV ?unitS.
exact: (pd_psd pdS).
Qed.

Lemma sym_update : sym P'.
Proof.
rewrite /sym /P' /update_cov /K /kalman_gain linearB /= !trmx_mul.
by rewrite -/S symSinv trmxK symP !mulmxA.
Qed.

(** y := S^-1 H P x ; identity: x^T P' x = (x - H^T y)^T P (x - H^T y) + y^T Q y *)
Lemma psd_update : psd P'.
Proof.
move=> x; rewrite /qf.
set y := invmx S *m (H *m P *m x).
have Sy : S *m y = H *m P *m x by rewrite /y mulmxA mulmxV ?unitS // mul1mx.
pose a := x^T *m P *m x.
pose b := x^T *m P *m H^T *m y.
have L : x^T *m P' *m x = a - b.
  by rewrite /P' /update_cov /K /kalman_gain -/S mulmxBr mulmxBl /a /b /y !mulmxA.
clearbody y.
have Qy : y^T *m Q *m y = y^T *m (H *m P *m x) - y^T *m (H *m P *m H^T) *m y.
  by rewrite -Sy /S /innov_cov mulmxDl mulmxDr !mulmxA addrC addKr.
have R : (x - H^T *m y)^T *m P *m (x - H^T *m y) + y^T *m Q *m y = a - b.
  rewrite Qy [(x - _)^T]linearB /= trmx_mul trmxK !mulmxBl !mulmxBr /a /b !mulmxA.
  set t1 := x^T *m P *m x. set t2 := x^T *m P *m H^T *m y.
  set t3 := y^T *m H *m P *m x. set t4 := y^T *m H *m P *m H^T *m y.
  rewrite opprB addrA [t1 - t2 + _]addrC !addrA.
  exact: zm4.
rewrite L -R mxE; apply: addr_ge0; first exact: psdP.
case: (altP (y =P 0)) => [->|y0]; first by rewrite mulmx0 mxE.
exact: ltW (pdQ y0).
Qed.

Lemma update_valid : valid P'.
Proof. split; [exact: sym_update | exact: psd_update]. Qed.

(** the posterior never exceeds the prior: P - P' = (H P)^T S^-1 (H P) is PSD *)
Lemma update_le_prior : psd (P - P').
Proof.
have -> : P - P' = (H *m P)^T *m invmx S *m ((H *m P)^T)^T.
  by rewrite /P' /update_cov opprB addrC subrK /K /kalman_gain -/S trmxK trmx_mul symP !mulmxA.
exact: psd_congr psdSinv.
Qed.

(** a reading equal to the prediction leaves the state unchanged *)
Lemma update_fixed_point (x : 'cV[F]_n) (z : 'cV[F]_m) : update_state x z z = x.
Proof. by rewrite /update_state subrr mulmx0 addr0. Qed.

(** the normalised innovation squared is non-negative *)
Lemma nis_ge0 (z : 'cV[F]_m) : 0 <= (z^T *m invmx S *m z) 0 0.
Proof. exact: psdSinv. Qed.

End Update.
