(** A symbolic derivative on sympy expression trees and its correctness over the reals (Coquelicot):
    what "true partial derivative" means for C03.  The same [deriv] is executed over Q by the check
    and compared exactly with the entries of sympy's Jacobian (oracle contract validation). *)
From Coq Require Import Reals String List ZArith QArith Qreals Lra Lia.
From Coquelicot Require Import Coquelicot.
From FV Require Import Base.Expr.
Import ListNotations.
Local Open Scope R_scope.

Definition renv := name -> R.
Definition upd (rho : renv) (x : name) (v : R) : renv := fun y => if String.eqb y x then v else rho y.

Definition rpow (x : R) (n : Z) : R :=
  match n with Z0 => 1 | Zpos p => x ^ Pos.to_nat p | Zneg p => / (x ^ Pos.to_nat p) end.

Definition rfn (f : name) (x : R) : R :=
  if String.eqb f fsin then sin x else if String.eqb f fcos then cos x else if String.eqb f fexp then exp x
  else if String.eqb f fsqrt then sqrt x else if String.eqb f flog then ln x else 0.

Fixpoint reval (rho : renv) (e : expr) : R :=
  match e with
  | Num q => Q2R q
  | Var x => rho x
  | Add a b => reval rho a + reval rho b
  | Mul a b => reval rho a * reval rho b
  | Pow a n => rpow (reval rho a) n
  | Fn f a => rfn f (reval rho a)
  end.

Definition supported (f : name) : bool :=
  String.eqb f fsin || String.eqb f fcos || String.eqb f fexp || String.eqb f fsqrt || String.eqb f flog.

(** the expression is defined and differentiable at [rho]: no division by zero, sqrt / log of a positive number *)
Fixpoint wd (rho : renv) (e : expr) : Prop :=
  match e with
  | Num _ | Var _ => True
  | Add a b | Mul a b => wd rho a /\ wd rho b
  | Pow a n => wd rho a /\ ((n <= 0)%Z -> reval rho a <> 0)
  | Fn f a => wd rho a /\ supported f = true /\
              ((String.eqb f fsqrt = true \/ String.eqb f flog = true) -> 0 < reval rho a)
  end.

Lemma upd_same rho x : forall y, upd rho x (rho x) y = rho y.
Proof. intro y. unfold upd. destruct (String.eqb_spec y x) as [->|]; reflexivity. Qed.

Lemma reval_ext r1 r2 e : (forall y, r1 y = r2 y) -> reval r1 e = reval r2 e.
Proof. intro H. induction e; simpl; try rewrite ?IHe, ?IHe1, ?IHe2; auto. Qed.

Lemma reval_upd_same rho x e : reval (upd rho x (rho x)) e = reval rho e.
Proof. apply reval_ext, upd_same. Qed.

Lemma Q2R_inject_Z n : Q2R (inject_Z n) = IZR n.
Proof. unfold Q2R, inject_Z. simpl. field. Qed.

Lemma rpow_of_nat y j : rpow y (Z.of_nat j) = y ^ j.
Proof. destruct j as [|j]; [reflexivity|]. simpl. now rewrite SuccNat2Pos.id_succ. Qed.

Lemma is_derive_rpow (f : R -> R) (n : Z) (x l : R) :
  is_derive f x l -> ((n <= 0)%Z -> f x <> 0) ->
  is_derive (fun t => rpow (f t) n) x (IZR n * rpow (f x) (n - 1) * l).
Proof.
  intros Hf Hn. destruct n as [|p|p].
  - simpl. evar_last; [apply @is_derive_const|]. simpl. unfold zero; simpl. ring.
  - simpl rpow at 1. evar_last; [apply is_derive_pow; exact Hf|].
    rewrite INR_IZR_INZ, positive_nat_Z.
    replace (Z.pos p - 1)%Z with (Z.of_nat (pred (Pos.to_nat p))) by (pose proof (Pos2Nat.is_pos p); lia).
    rewrite rpow_of_nat. ring.
  - assert (Hx : f x <> 0) by (apply Hn; lia).
    simpl rpow at 1.
    evar_last; [apply is_derive_inv; [apply is_derive_pow; exact Hf|apply pow_nonzero; exact Hx]|].
    replace (Z.neg p - 1)%Z with (Z.neg (p + 1)) by lia. simpl rpow.
    rewrite INR_IZR_INZ, positive_nat_Z, Pos2Nat.inj_add.
    change (Pos.to_nat 1) with 1%nat.
    change (IZR (Z.neg p)) with (- IZR (Z.pos p)).
    destruct (Pos.to_nat p) as [|k] eqn:E; [pose proof (Pos2Nat.is_pos p); lia|].
    replace (S k + 1)%nat with (S (S k)) by lia.
    simpl pred. simpl pow. field. repeat split; first [exact Hx | apply pow_nonzero; exact Hx].
Qed.

Lemma is_derive_rfn f (g : R -> R) (x dg : R) e rho :
  supported f = true -> g x = reval rho e -> is_derive g x dg ->
  ((String.eqb f fsqrt = true \/ String.eqb f flog = true) -> 0 < g x) ->
  is_derive (fun t => rfn f (g t)) x (reval rho (dfn f e) * dg).
Proof.
  intros S E Hg Hpos. unfold rfn, dfn, supported in *.
  destruct (String.eqb f fsin) eqn:F1.
  - simpl. unfold rfn. rewrite (String.eqb_eq f fsin) in F1. subst f. cbn.
    evar_last; [apply (is_derive_comp sin g); [apply is_derive_sin|exact Hg]|]. unfold scal; simpl; unfold mult; simpl. rewrite E. ring.
  - destruct (String.eqb f fcos) eqn:F2.
    + simpl. evar_last; [apply (is_derive_comp cos g); [apply is_derive_cos|exact Hg]|]. unfold scal; simpl; unfold mult; simpl.
      unfold rfn. cbn. rewrite E. unfold Q2R; simpl. field.
    + destruct (String.eqb f fexp) eqn:F3.
      * simpl. evar_last; [apply (is_derive_comp exp g); [apply is_derive_exp|exact Hg]|]. unfold scal; simpl; unfold mult; simpl.
        unfold rfn. cbn. rewrite E. ring.
      * destruct (String.eqb f fsqrt) eqn:F4.
        -- assert (P : 0 < g x) by (apply Hpos; now left).
           evar_last; [apply is_derive_sqrt; [exact Hg|exact P]|].
           simpl. unfold rfn. cbn. rewrite <- E. unfold Q2R; simpl. field.
           assert (0 < sqrt (g x)) by (apply sqrt_lt_R0; exact P). lra.
        -- destruct (String.eqb f flog) eqn:F5; [|discriminate].
           assert (P : 0 < g x) by (apply Hpos; now right).
           evar_last; [apply (is_derive_comp ln g); [apply is_derive_ln; exact P|exact Hg]|]. unfold scal; simpl; unfold mult; simpl.
           rewrite <- E. field. lra.
Qed.

(** correctness: wherever the expression is defined, [deriv x e] evaluates to the partial derivative of
    [e] with respect to [x], all other symbols held at their values *)
Theorem deriv_correct x rho e : wd rho e ->
  is_derive (fun v => reval (upd rho x v) e) (rho x) (reval rho (deriv x e)).
Proof.
  induction e as [q|y|a IHa b IHb|a IHa b IHb|a IHa n|f a IHa]; intro W; simpl in W |- *.
  - evar_last; [apply @is_derive_const|]. unfold zero; simpl. unfold Q2R; simpl. field.
  - unfold upd. destruct (String.eqb y x) eqn:E.
    + evar_last; [apply @is_derive_id|]. unfold one; simpl. unfold Q2R; simpl. field.
    + evar_last; [apply @is_derive_const|]. unfold zero; simpl. unfold Q2R; simpl. field.
  - destruct W as [Wa Wb]. apply (is_derive_plus (fun v => reval (upd rho x v) a) (fun v => reval (upd rho x v) b)); auto.
  - destruct W as [Wa Wb]. evar_last; [apply Derive.is_derive_mult; [apply IHa; exact Wa|apply IHb; exact Wb]|].
    cbv beta. rewrite ?reval_upd_same. ring.
  - destruct W as [Wa Wn]. evar_last; [apply is_derive_rpow; [apply IHa; exact Wa|]|].
    + cbv beta. rewrite reval_upd_same. exact Wn.
    + cbv beta. rewrite ?reval_upd_same, Q2R_inject_Z. ring.
  - destruct W as (Wa & S & P).
    apply (is_derive_rfn f (fun v => reval (upd rho x v) a) (rho x) _ a rho S); [apply reval_upd_same|apply IHa; exact Wa|].
    cbv beta. rewrite reval_upd_same. exact P.
Qed.
