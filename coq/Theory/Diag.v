(** Diagonal noise matrices (what the per-name noise dictionaries assemble to) satisfy the premises of the
    validity theorems: non-negative entries give a valid (symmetric PSD) matrix, positive entries a positive
    definite one.  Also the squared form of the innovation threshold used by the exact executable decision. *)
From mathcomp Require Import all_ssreflect all_algebra.
From FV Require Import Theory.Psd.
Set Implicit Arguments. Unset Strict Implicit. Unset Printing Implicit Defensive.
Import Order.Theory GRing.Theory Num.Theory.
Local Open Scope ring_scope.

Section Diag.
Variable F : realFieldType.
Variable n : nat.

Lemma qf_diag (d : 'rV[F]_n) (x : 'cV[F]_n) : qf (diag_mx d) x = \sum_i d 0 i * x i 0 ^+ 2.
Proof.
rewrite /qf mxE; apply: eq_bigr => i _.
rewrite mxE (bigD1 i) //= big1 ?addr0; last first.
  by move=> j ji; rewrite !mxE (negbTE ji) mulr0n mulr0.
by rewrite !mxE eqxx mulr1n expr2 [x i 0 * d 0 i]mulrC mulrA.
Qed.

Lemma diag_sym (d : 'rV[F]_n) : sym (diag_mx d).
Proof. by rewrite /sym tr_diag_mx. Qed.

Lemma diag_psd (d : 'rV[F]_n) : (forall i, 0 <= d 0 i) -> psd (diag_mx d).
Proof. by move=> h x; rewrite qf_diag; apply: sumr_ge0 => i _; rewrite mulr_ge0 // sqr_ge0. Qed.

Lemma diag_valid (d : 'rV[F]_n) : (forall i, 0 <= d 0 i) -> valid (diag_mx d).
Proof. by move=> h; split; [exact: diag_sym | exact: diag_psd]. Qed.

Lemma diag_pd (d : 'rV[F]_n) : (forall i, 0 < d 0 i) -> pd (diag_mx d).
Proof.
move=> h x x0; rewrite qf_diag.
have [i xi] : exists i, x i 0 != 0.
  apply/existsP; rewrite -negb_forall; apply: contra x0 => /forallP h0.
  by apply/eqP/matrixP => i j; rewrite [j]ord1 mxE; apply/eqP; rewrite (eqP (h0 i)).
rewrite (bigD1 i) //=; apply: ltr_paddr.
  by apply: sumr_ge0 => j _; rewrite mulr_ge0 ?sqr_ge0 // ltW.
by rewrite mulr_gt0 // exprn_even_gt0.
Qed.
End Diag.

Section Threshold.
Variable R : rcfType.

(** k sqrt(2 m) + m < x   iff   0 < x - m  and  2 m k^2 < (x - m)^2      (k, m >= 0) *)
Lemma threshold_squared (k m x : R) : 0 <= k -> 0 <= m ->
  (k * Num.sqrt (2%:R * m) + m < x) = (0 < x - m) && (2%:R * m * k ^+ 2 < (x - m) ^+ 2).
Proof.
move=> k0 m0; rewrite -ltr_subr_addr; set e := x - m; set a := k * _.
have a0 : 0 <= a by rewrite mulr_ge0 // sqrtr_ge0.
have a2 : a ^+ 2 = 2%:R * m * k ^+ 2 by rewrite /a exprMn sqr_sqrtr ?mulr_ge0 ?ler0n // mulrC.
case: (ltrP 0 e) => [e0|e0] /=.
  by rewrite -a2 -(@ltr_pexpn2r _ 2) // nnegrE ltW.
by apply/negbTE; rewrite -leNgt (le_trans e0).
Qed.
End Threshold.
