(** Quaternions over R (Hamilton product), used to state rigid-body kinematics. *)
From Coq Require Import Reals.
Local Open Scope R_scope.

Record quat := mkQ { qa : R; qb : R; qc : R; qd : R }.

Definition qmul (p q : quat) : quat :=
  mkQ (qa p * qa q - qb p * qb q - qc p * qc q - qd p * qd q)
      (qa p * qb q + qb p * qa q + qc p * qd q - qd p * qc q)
      (qa p * qc q - qb p * qd q + qc p * qa q + qd p * qb q)
      (qa p * qd q + qb p * qc q - qc p * qb q + qd p * qa q).
Definition qconj (q : quat) : quat := mkQ (qa q) (- qb q) (- qc q) (- qd q).
Definition qnorm2 (q : quat) : R := qa q * qa q + qb q * qb q + qc q * qc q + qd q * qd q.
Definition pure (x y z : R) : quat := mkQ 0 x y z.

(** q (0,v) q^*  : for a unit quaternion the rotation of v; in general |q|^2 times it *)
Definition sandwich (q : quat) (x y z : R) : quat := qmul (qmul q (pure x y z)) (qconj q).

Lemma sandwich_is_pure q x y z : qa (sandwich q x y z) = 0.
Proof. unfold sandwich, qmul, qconj, pure; simpl. ring. Qed.

(** |q v q^*| = |q|^2 |v| : the sandwich scales by |q|^2 and otherwise rotates *)
Lemma sandwich_norm q x y z : qnorm2 (sandwich q x y z) = qnorm2 q * qnorm2 q * (x * x + y * y + z * z).
Proof. unfold sandwich, qnorm2, qmul, qconj, pure; simpl. ring. Qed.
