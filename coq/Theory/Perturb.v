(** How a perturbation of the covariance travels through the EKF steps (exact identities, any real field).

    prediction :  predict (P + D) - predict P = G D G^T
    update     :  update P2 - update P = (1 - K2 H) (P2 - P) (1 - K H)^T      (K, K2 the gains at P, P2)
    Joseph     :  update P = (1 - K H) P (1 - K H)^T + K R K^T

    and congruence is monotone for the Loewner order.  Together: an error D with -E <= D <= E made at one step is,
    after a step with transition F (= G, or 1 - K H to first order), an error between -F E F^T and F E F^T.  This is the
    recurrence the C09 history harness carries to decide what "up to rounding" can mean along a history. *)
From mathcomp Require Import all_ssreflect all_algebra.
From FV Require Import Theory.Psd.
Set Implicit Arguments. Unset Strict Implicit. Unset Printing Implicit Defensive.
Import Order.Theory GRing.Theory Num.Theory.
Local Open Scope ring_scope.

Section Loewner.
Variable F : realFieldType.
Variables n k : nat.

Lemma congr_sub (A B : 'M[F]_n) (T : 'M[F]_(k,n)) : T *m A *m T^T - T *m B *m T^T = T *m (A - B) *m T^T.
Proof. by rewrite mulmxBr mulmxBl. Qed.

Lemma congr_add (A B : 'M[F]_n) (T : 'M[F]_(k,n)) : T *m A *m T^T + T *m B *m T^T = T *m (A + B) *m T^T.
Proof. by rewrite mulmxDr mulmxDl. Qed.

(** -E <= D <= E  implies  -T E T^T <= T D T^T <= T E T^T *)
Lemma loewner_congr (E D : 'M[F]_n) (T : 'M[F]_(k,n)) :
  psd (E - D) -> psd (E + D) -> psd (T *m E *m T^T - T *m D *m T^T) /\ psd (T *m E *m T^T + T *m D *m T^T).
Proof. by move=> h1 h2; rewrite congr_sub congr_add; split; apply: psd_congr. Qed.
End Loewner.

Section PredictPerturb.
Variable F : realFieldType.
Variables n c : nat.
Variables (P P2 G : 'M[F]_n) (V : 'M[F]_(n,c)) (M : 'M[F]_c).

Lemma predict_perturbation : predict_cov P2 G V M - predict_cov P G V M = G *m (P2 - P) *m G^T.
Proof. by rewrite /predict_cov opprD addrACA subrr addr0 congr_sub. Qed.
End PredictPerturb.

Section UpdatePerturb.
Variable F : realFieldType.
Variables n m : nat.
Variables (P P2 : 'M[F]_n) (H : 'M[F]_(m,n)) (R : 'M[F]_m).
Hypothesis symP : sym P.
Hypothesis symR : sym R.

Let S := innov_cov P H R.
Let S2 := innov_cov P2 H R.
Hypothesis unitS : S \in unitmx.
Hypothesis unitS2 : S2 \in unitmx.
Let K := kalman_gain P H R.
Let K2 := kalman_gain P2 H R.
Let U := update_cov P H R.
Let U2 := update_cov P2 H R.

Lemma symS' : S^T = S.
Proof. by rewrite /S /innov_cov linearD /= !trmx_mul trmxK symP symR mulmxA. Qed.

Lemma Kt : K^T = invmx S *m H *m P.
Proof. by rewrite /K /kalman_gain -/S !trmx_mul trmxK trmx_inv symS' symP !mulmxA. Qed.

(** K2 S2 = P2 H^T, hence (1 - K2 H) P2 H^T = K2 R *)
Lemma gain_resid2 : (1%:M - K2 *m H) *m P2 *m H^T = K2 *m R.
Proof.
have KS : K2 *m S2 = P2 *m H^T by rewrite /K2 /kalman_gain -/S2 mulmxKV.
rewrite mulmxBl mul1mx mulmxBl -KS /S2 /innov_cov mulmxDr !mulmxA.
by rewrite addrC addKr.
Qed.

(** H U = R K^T *)
Lemma H_update : H *m U = R *m K^T.
Proof.
rewrite Kt /U /update_cov /kalman_gain -/S mulmxBr !mulmxA.
have E : H *m P = (H *m P *m H^T + R) *m invmx S *m H *m P.
  by rewrite -/(innov_cov P H R) -/S mulmxV // mul1mx.
by rewrite {1}E !mulmxDl [X in X = _]addrC addKr.
Qed.

(** U = P (1 - K H)^T *)
Lemma update_right : U = P *m (1%:M - K *m H)^T.
Proof.
rewrite linearB /= trmx1 trmx_mul Kt mulmxBr mulmx1 /U /update_cov -/K /K /kalman_gain -/S.
by rewrite !mulmxA.
Qed.

Lemma update_left2 : U2 = (1%:M - K2 *m H) *m P2.
Proof. by rewrite mulmxBl mul1mx /U2 /update_cov -/K2. Qed.

Theorem update_perturbation : U2 - U = (1%:M - K2 *m H) *m (P2 - P) *m (1%:M - K *m H)^T.
Proof.
rewrite mulmxBr mulmxBl.
have -> : (1%:M - K2 *m H) *m P *m (1%:M - K *m H)^T = U - K2 *m R *m K^T.
  by rewrite -mulmxA -update_right mulmxBl mul1mx -!mulmxA H_update.
have -> : (1%:M - K2 *m H) *m P2 *m (1%:M - K *m H)^T = U2 - K2 *m R *m K^T.
  rewrite [(1%:M - K *m H)^T]linearB /= trmx1 trmx_mul mulmxBr mulmx1 !mulmxA gain_resid2.
  by rewrite -update_left2.
by rewrite [- (U - _)]opprB addrA subrK.
Qed.
End UpdatePerturb.

Section Joseph.
Variable F : realFieldType.
Variables n m : nat.
Variables (P : 'M[F]_n) (H : 'M[F]_(m,n)) (R : 'M[F]_m).
Hypothesis symP : sym P.
Hypothesis symR : sym R.
Hypothesis unitS : innov_cov P H R \in unitmx.
Let K := kalman_gain P H R.

(** the Joseph form is the same matrix as P - K H P *)
Theorem joseph_form : (1%:M - K *m H) *m P *m (1%:M - K *m H)^T + K *m R *m K^T = update_cov P H R.
Proof.
rewrite -mulmxA -(update_right H symP symR) mulmxBl mul1mx -!mulmxA (H_update symP symR unitS).
by rewrite !mulmxA subrK.
Qed.
End Joseph.
