(** Indexed reads and stores on list matrices (numpy [M[i, j] = v] on an in-range index), enumerate, and the
    extensionality principle used to compare a loop that fills a matrix with its closed form. *)
From Coq Require Import List Arith Bool QArith Lia.
From FV Require Import Base.ListMat.
Import ListNotations.

Definition lget (M : lmat) (a b : nat) : Q := nth b (nth a M []) 0%Q.

Fixpoint set_nth {A : Type} (l : list A) (i : nat) (x : A) : list A :=
  match l, i with
  | [], _ => []
  | _ :: r, O => x :: r
  | y :: r, S k => y :: set_nth r k x
  end.

Definition lstore (M : lmat) (i j : nat) (v : Q) : lmat := set_nth M i (set_nth (nth i M []) j v).

Definition enumerate {A : Type} (l : list A) : list (nat * A) := combine (seq 0 (length l)) l.

Definition shaped (n : nat) (M : lmat) : Prop := length M = n /\ Forall (fun r => length r = n) M.

Lemma set_nth_length {A} (l : list A) i x : length (set_nth l i x) = length l.
Proof. revert i; induction l as [|y r IH]; intros [|k]; simpl; auto. Qed.

Lemma nth_set_nth {A} (l : list A) i x k d :
  nth k (set_nth l i x) d = if Nat.eqb k i && Nat.ltb i (length l) then x else nth k l d.
Proof.
  revert i k; induction l as [|y r IH]; intros i k; simpl.
  - rewrite andb_false_r. destruct k; reflexivity.
  - destruct i as [|i]; destruct k as [|k]; simpl; try reflexivity.
    rewrite IH. reflexivity.
Qed.

Lemma shaped_row n M a : shaped n M -> (a < n)%nat -> length (nth a M []) = n.
Proof.
  intros [L F] Ha. rewrite Forall_forall in F. apply F. apply nth_In. lia.
Qed.

Lemma shaped_lstore n M i j v : shaped n M -> shaped n (lstore M i j v).
Proof.
  intros [L F]. unfold lstore. split; [now rewrite set_nth_length|].
  rewrite Forall_forall in *. intros r Hr.
  destruct (In_nth _ _ [] Hr) as [k [Hk E]]. rewrite set_nth_length in Hk.
  rewrite nth_set_nth in E. destruct (Nat.eqb k i && Nat.ltb i (length M)) eqn:B.
  - subst r. rewrite set_nth_length. apply andb_true_iff in B. destruct B as [_ B]. apply Nat.ltb_lt in B.
    apply F. apply nth_In. exact B.
  - subst r. apply F. apply nth_In. exact Hk.
Qed.

Lemma lget_lstore n M i j v a b : shaped n M -> (i < n)%nat -> (j < n)%nat ->
  lget (lstore M i j v) a b = if Nat.eqb a i && Nat.eqb b j then v else lget M a b.
Proof.
  intros Sh Hi Hj. unfold lget, lstore. rewrite nth_set_nth.
  destruct Sh as [L F]. rewrite L. replace (Nat.ltb i n) with true by (symmetry; apply Nat.ltb_lt; exact Hi).
  rewrite andb_true_r. destruct (Nat.eqb_spec a i) as [->|N]; simpl; [|reflexivity].
  rewrite nth_set_nth. rewrite (shaped_row n M i (conj L F) Hi).
  replace (Nat.ltb j n) with true by (symmetry; apply Nat.ltb_lt; exact Hj). now rewrite andb_true_r.
Qed.

Lemma shaped_lid n : shaped n (lid n).
Proof.
  unfold lid. split; [now rewrite map_length, seq_length|].
  rewrite Forall_forall. intros r Hr. apply in_map_iff in Hr. destruct Hr as [i [<- _]].
  now rewrite map_length, seq_length.
Qed.

Lemma map_seq_ext_nth {A} (f : nat -> A) n (l : list A) d :
  length l = n -> (forall k, (k < n)%nat -> nth k l d = f k) -> l = map f (seq 0 n).
Proof.
  intros L E. apply (nth_ext _ _ d d); [now rewrite map_length, seq_length|].
  intros k Hk. rewrite L in Hk. rewrite E by exact Hk.
  rewrite (nth_indep _ d (f 0%nat)) by (now rewrite map_length, seq_length).
  rewrite map_nth, seq_nth by exact Hk. reflexivity.
Qed.

(** an n x n matrix is determined by its in-range entries *)
Lemma lmat_ext n M (f : nat -> nat -> Q) : shaped n M ->
  (forall a b, (a < n)%nat -> (b < n)%nat -> lget M a b = f a b) ->
  M = map (fun a => map (fun b => f a b) (seq 0 n)) (seq 0 n).
Proof.
  intros Sh E. destruct Sh as [L F].
  apply (map_seq_ext_nth (fun a => map (fun b => f a b) (seq 0 n)) n M []); [exact L|].
  intros a Ha. apply (map_seq_ext_nth (fun b => f a b) n _ 0%Q).
  - apply (shaped_row n M a (conj L F) Ha).
  - intros b Hb. apply (E a b Ha Hb).
Qed.

Lemma fold_left_ext_in {A B} (f g : B -> A -> B) (l : list A) acc :
  (forall acc x, In x l -> f acc x = g acc x) -> fold_left f l acc = fold_left g l acc.
Proof.
  revert acc; induction l as [|x r IH]; intros acc E; simpl; [reflexivity|].
  rewrite E by (left; reflexivity). apply IH. intros acc' y Hy. apply E. right; exact Hy.
Qed.

(** a fold over [enumerate l] is a fold over the indices *)
Lemma fold_enumerate_gen {A B} (f : B -> nat * A -> B) (l : list A) d s acc :
  fold_left f (combine (seq s (length l)) l) acc =
  fold_left (fun acc k => f acc (k, nth (k - s) l d)) (seq s (length l)) acc.
Proof.
  revert s acc; induction l as [|x r IH]; intros s acc; simpl; [reflexivity|].
  rewrite IH. rewrite Nat.sub_diag. apply fold_left_ext_in.
  intros acc' k Hk. apply in_seq in Hk.
  replace (k - s)%nat with (S (k - S s)) by lia. reflexivity.
Qed.

Lemma fold_enumerate {A B} (f : B -> nat * A -> B) (l : list A) d acc :
  fold_left f (enumerate l) acc = fold_left (fun acc k => f acc (k, nth k l d)) (seq 0 (length l)) acc.
Proof.
  unfold enumerate. rewrite (fold_enumerate_gen f l d 0 acc). apply fold_left_ext_in.
  intros acc' k _. now rewrite Nat.sub_0_r.
Qed.

(** invariant rule for a fold over [seq 0 n] *)
Lemma fold_seq_inv {B} (I : nat -> B -> Prop) (f : B -> nat -> B) n acc :
  I 0%nat acc -> (forall k b, (k < n)%nat -> I k b -> I (S k) (f b k)) -> I n (fold_left f (seq 0 n) acc).
Proof.
  intros H0 Hs. induction n as [|n IH].
  - exact H0.
  - rewrite seq_S, fold_left_app. simpl. apply Hs; [lia|]. apply IH. intros k b Hk. apply Hs. lia.
Qed.
