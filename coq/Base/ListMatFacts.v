(** Entry-wise characterisation of the executable list-matrix operations (stdlib style), used by
    Proofs/Refine.v to relate them to MathComp matrices. *)
From Coq Require Import List Arith Bool QArith Lia.
From FV Require Import Base.ListMat Base.Store.
Import ListNotations.

Definition shaped2 (r c : nat) (A : lmat) : Prop := length A = r /\ Forall (fun row => length row = c) A.

Lemma shaped2_row r c A i : shaped2 r c A -> (i < r)%nat -> length (nth i A []) = c.
Proof. intros [L F] Hi. rewrite Forall_forall in F. apply F, nth_In. lia. Qed.

(** dot product as a sum over indices *)
Definition dotq_fn (k : nat) (f g : nat -> Q) : Q :=
  fold_right qadd 0%Q (map (fun t => qmul (f t) (g t)) (seq 0 k)).

Lemma dotq_cons x a y b : dotq (x :: a) (y :: b) = qadd (qmul x y) (dotq a b).
Proof. reflexivity. Qed.

Lemma dotq_fn_shift k f g :
  dotq_fn (S k) f g = qadd (qmul (f 0%nat) (g 0%nat)) (dotq_fn k (fun t => f (S t)) (fun t => g (S t))).
Proof. unfold dotq_fn. simpl. rewrite <- seq_shift, map_map. reflexivity. Qed.

Lemma dotq_as_fn a b k : length a = k -> length b = k ->
  dotq a b = dotq_fn k (fun t => nth t a 0%Q) (fun t => nth t b 0%Q).
Proof.
  revert b k; induction a as [|x a IH]; intros [|y b] [|k] La Lb; simpl in *; try discriminate; [reflexivity|].
  rewrite dotq_cons, dotq_fn_shift. simpl. f_equal. apply IH; lia.
Qed.

(** zip *)
Lemma lzip_shaped f r c A B : shaped2 r c A -> shaped2 r c B -> shaped2 r c (lzip f A B).
Proof.
  intros [LA FA] [LB FB]. unfold lzip. split.
  - rewrite map_length, combine_length. lia.
  - rewrite Forall_forall in *. intros row Hrow. apply in_map_iff in Hrow. destruct Hrow as [[ra rb] [<- Hin]].
    simpl. rewrite map_length, combine_length.
    rewrite (FA ra) by (eapply in_combine_l; exact Hin). rewrite (FB rb) by (eapply in_combine_r; exact Hin). lia.
Qed.

Lemma lget_lzip f r c A B i j : f 0%Q 0%Q = 0%Q -> shaped2 r c A -> shaped2 r c B -> (i < r)%nat -> (j < c)%nat ->
  lget (lzip f A B) i j = f (lget A i j) (lget B i j).
Proof.
  intros F0 SA SB Hi Hj. unfold lget, lzip.
  destruct SA as [LA FA], SB as [LB FB].
  set (g := fun p : list Q * list Q => map (fun q => f (fst q) (snd q)) (combine (fst p) (snd p))).
  rewrite (nth_indep _ [] (g ([], []))) by (rewrite map_length, combine_length; lia).
  rewrite map_nth. rewrite combine_nth by lia. unfold g; simpl.
  set (h := fun q : Q * Q => f (fst q) (snd q)).
  assert (Hra : length (nth i A []) = c) by (apply (shaped2_row r c A i (conj LA FA) Hi)).
  assert (Hrb : length (nth i B []) = c) by (apply (shaped2_row r c B i (conj LB FB) Hi)).
  rewrite (nth_indep _ 0%Q (h (0%Q, 0%Q))) by (rewrite map_length, combine_length; lia).
  rewrite map_nth. rewrite combine_nth by lia. reflexivity.
Qed.

(** transpose *)
Lemma ltr_aux_length c A : length (ltr_aux c A) = c.
Proof. revert A; induction c as [|c IH]; intros A; simpl; [reflexivity|]. now rewrite IH. Qed.

Lemma ltr_aux_nth c A j : (j < c)%nat -> nth j (ltr_aux c A) [] = map (fun row => nth j row 0%Q) A.
Proof.
  revert A j; induction c as [|c IH]; intros A j Hj; [lia|]. simpl.
  destruct j as [|j].
  - apply map_ext. intros [|x r]; reflexivity.
  - rewrite IH by lia. rewrite map_map. apply map_ext. intros [|x r]; [destruct j; reflexivity|reflexivity].
Qed.

Lemma ltr_shaped r c A : shaped2 r c A -> (1 <= r)%nat -> shaped2 c r (ltr A).
Proof.
  intros [L F] Hr. unfold ltr.
  assert (Hc : length (hd [] A) = c).
  { destruct A as [|x A]; simpl in *; [lia|]. now inversion F. }
  rewrite Hc. split; [apply ltr_aux_length|].
  rewrite Forall_forall. intros row Hrow. destruct (In_nth _ _ [] Hrow) as [j [Hj E]].
  rewrite ltr_aux_length in Hj. rewrite ltr_aux_nth in E by exact Hj. subst row. now rewrite map_length.
Qed.

Lemma ltr_row r c A j : shaped2 r c A -> (1 <= r)%nat -> (j < c)%nat ->
  nth j (ltr A) [] = map (fun row => nth j row 0%Q) A.
Proof.
  intros [L F] Hr Hj. unfold ltr.
  assert (Hc : length (hd [] A) = c).
  { destruct A as [|x A]; simpl in *; [lia|]. now inversion F. }
  rewrite Hc. now apply ltr_aux_nth.
Qed.

Lemma lget_ltr r c A i j : shaped2 r c A -> (i < r)%nat -> (j < c)%nat -> lget (ltr A) j i = lget A i j.
Proof.
  intros S Hi Hj. unfold lget. rewrite (ltr_row r c A j S) by lia.
  set (g := fun row : list Q => nth j row 0%Q).
  rewrite (nth_indep _ 0%Q (g [])) by (rewrite map_length; destruct S; lia).
  now rewrite map_nth.
Qed.

(** product *)
Lemma lmul_shaped r k c A B : shaped2 r k A -> shaped2 k c B -> (1 <= k)%nat -> shaped2 r c (lmul A B).
Proof.
  intros [LA FA] SB Hk. unfold lmul. split; [now rewrite map_length|].
  rewrite Forall_forall. intros row Hrow. apply in_map_iff in Hrow. destruct Hrow as [ra [<- _]].
  rewrite map_length. destruct (ltr_shaped k c B SB Hk) as [L _]. exact L.
Qed.

Lemma lget_lmul r k c A B i j : shaped2 r k A -> shaped2 k c B -> (1 <= k)%nat -> (i < r)%nat -> (j < c)%nat ->
  lget (lmul A B) i j = dotq_fn k (fun t => lget A i t) (fun t => lget B t j).
Proof.
  intros SA SB Hk Hi Hj. unfold lget at 1, lmul.
  set (g := fun ra : list Q => map (dotq ra) (ltr B)).
  rewrite (nth_indep _ [] (g [])) by (rewrite map_length; destruct SA; lia).
  rewrite map_nth. unfold g.
  destruct (ltr_shaped k c B SB Hk) as [LT FT].
  rewrite (nth_indep _ 0%Q (dotq (nth i A []) [])) by (rewrite map_length; lia).
  rewrite map_nth.
  rewrite (dotq_as_fn _ _ k).
  - unfold dotq_fn. f_equal. apply map_ext_in. intros t Ht. apply in_seq in Ht. f_equal.
    change (nth t (nth j (ltr B) []) 0%Q) with (lget (ltr B) j t).
    apply (lget_ltr k c B t j SB); lia.
  - apply (shaped2_row r k A i SA Hi).
  - rewrite Forall_forall in FT. apply FT, nth_In. lia.
Qed.

(** identity *)
Lemma lid_shaped n : shaped2 n n (lid n).
Proof. destruct (shaped_lid n) as [L F]. split; assumption. Qed.

Lemma lget_lid n i j : (i < n)%nat -> (j < n)%nat -> lget (lid n) i j = if Nat.eqb i j then 1%Q else 0%Q.
Proof.
  intros Hi Hj. unfold lget, lid.
  set (g := fun i0 : nat => map (fun j0 : nat => if Nat.eqb i0 j0 then 1%Q else 0%Q) (seq 0 n)).
  rewrite (nth_indep _ [] (g 0%nat)) by (rewrite map_length, seq_length; lia).
  rewrite map_nth, seq_nth by lia. unfold g. simpl.
  set (h := fun j0 : nat => if Nat.eqb i j0 then 1%Q else 0%Q).
  rewrite (nth_indep _ 0%Q (h 0%nat)) by (rewrite map_length, seq_length; lia).
  rewrite map_nth, seq_nth by lia. reflexivity.
Qed.

(** executable shape test and inverse certificate:  S X = I entry-wise (Qeq), X of the right shape *)
Definition shaped2b (r c : nat) (A : lmat) : bool :=
  Nat.eqb (length A) r && forallb (fun row => Nat.eqb (length row) c) A.

Lemma shaped2b_spec r c A : shaped2b r c A = true -> shaped2 r c A.
Proof.
  unfold shaped2b, shaped2. intros H. apply andb_true_iff in H. destruct H as [H1 H2].
  apply Nat.eqb_eq in H1. split; [exact H1|]. rewrite Forall_forall. rewrite forallb_forall in H2.
  intros row Hr. apply Nat.eqb_eq. apply H2. exact Hr.
Qed.

Definition cert_inv (m : nat) (S X : lmat) : bool :=
  shaped2b m m X &&
  (let SX := lmul S X in let I := lid m in
   forallb (fun i => forallb (fun j => Qeq_bool (lget SX i j) (lget I i j)) (seq 0 m)) (seq 0 m)).

Lemma cert_inv_spec m S X : cert_inv m S X = true ->
  shaped2 m m X /\ forall i j, (i < m)%nat -> (j < m)%nat -> Qeq (lget (lmul S X) i j) (if Nat.eqb i j then 1%Q else 0%Q).
Proof.
  unfold cert_inv. intros H. apply andb_true_iff in H. destruct H as [H1 H2]. cbv zeta in H2. split; [now apply shaped2b_spec|].
  intros i j Hi Hj. rewrite forallb_forall in H2.
  assert (Ii : In i (seq 0 m)) by (apply in_seq; lia). specialize (H2 i Ii). rewrite forallb_forall in H2.
  assert (Ij : In j (seq 0 m)) by (apply in_seq; lia). specialize (H2 j Ij).
  apply Qeq_bool_iff in H2. rewrite H2. rewrite lget_lid by assumption. reflexivity.
Qed.

Lemma l00_lget A : l00 A = lget A 0 0.
Proof. unfold l00, lget. destruct A as [|[|x r] A]; reflexivity. Qed.
