(** Names and the library's name order (Python sorted() on str = code-point order; byte order on ASCII). *)
From Coq Require Import String Ascii List Bool Sorted Permutation OrderedTypeEx Lia.
Import ListNotations.

Definition nleb (a b : string) : bool := String.leb a b.

Lemma nleb_refl a : nleb a a = true.
Proof. destruct (String.leb_total a a); assumption. Qed.

Lemma nleb_trans a b c : nleb a b = true -> nleb b c = true -> nleb a c = true.
Proof.
  unfold nleb, String.leb. intros H1 H2.
  destruct (String.compare a b) eqn:E1; try discriminate;
  destruct (String.compare b c) eqn:E2; try discriminate.
  - apply String_as_OT.cmp_eq in E1, E2. subst.
    pose proof (proj2 (String_as_OT.cmp_eq c c) eq_refl) as R. unfold String_as_OT.cmp in R. now rewrite R.
  - apply String_as_OT.cmp_eq in E1. subst. now rewrite E2.
  - apply String_as_OT.cmp_eq in E2. subst. now rewrite E1.
  - apply String_as_OT.cmp_lt in E1, E2. pose proof (String_as_OT.lt_trans _ _ _ E1 E2) as L.
    apply String_as_OT.cmp_lt in L. unfold String_as_OT.cmp in L. now rewrite L.
Qed.

Fixpoint insert (x : string) (l : list string) : list string :=
  match l with
  | [] => [x]
  | y :: r => if nleb x y then x :: l else y :: insert x r
  end.

Fixpoint sort_names (l : list string) : list string :=
  match l with [] => [] | x :: r => insert x (sort_names r) end.

Lemma insert_perm x l : Permutation (insert x l) (x :: l).
Proof.
  induction l as [|y r IH]; simpl; [reflexivity|]. destruct (nleb x y); [reflexivity|].
  rewrite IH. apply perm_swap.
Qed.

Lemma sort_perm l : Permutation (sort_names l) l.
Proof. induction l as [|x r IH]; simpl; [reflexivity|]. rewrite insert_perm. now constructor. Qed.

Definition nle (a b : string) : Prop := nleb a b = true.

Lemma insert_sorted x l : StronglySorted nle l -> StronglySorted nle (insert x l).
Proof.
  induction l as [|y r IH]; simpl; intro S.
  - repeat constructor.
  - inversion S as [|? ? Sr Hy]; subst. destruct (nleb x y) eqn:E.
    + constructor; [exact S|]. constructor; [exact E|].
      eapply Forall_impl; [|exact Hy]. intros z Hz. eapply nleb_trans; eauto.
    + constructor; [apply IH; exact Sr|].
      assert (Hyx : nle y x) by (destruct (String.leb_total x y) as [H|H]; [unfold nleb in E; congruence|exact H]).
      eapply Permutation_Forall; [symmetry; apply insert_perm|]. constructor; assumption.
Qed.

Lemma sort_sorted l : StronglySorted nle (sort_names l).
Proof. induction l as [|x r IH]; simpl; [constructor|]. now apply insert_sorted. Qed.

(** canonicity: a name-sorted list is determined by its elements *)
Lemma sorted_perm_eq l1 : forall l2, StronglySorted nle l1 -> StronglySorted nle l2 -> Permutation l1 l2 -> l1 = l2.
Proof.
  induction l1 as [|a l1 IH]; intros l2 S1 S2 P.
  - apply Permutation_nil in P. now subst.
  - destruct l2 as [|b l2]; [apply Permutation_sym, Permutation_nil in P; discriminate|].
    inversion S1 as [|? ? S1' H1]; inversion S2 as [|? ? S2' H2]; subst.
    assert (a = b).
    { assert (Ia : In a (b :: l2)) by (eapply Permutation_in; [exact P|left; reflexivity]).
      assert (Ib : In b (a :: l1)) by (eapply Permutation_in; [symmetry; exact P|left; reflexivity]).
      destruct Ia as [->|Ia]; [reflexivity|]. destruct Ib as [->|Ib]; [reflexivity|].
      apply String.leb_antisym.
      - rewrite Forall_forall in H1. apply H1. exact Ib.
      - rewrite Forall_forall in H2. apply H2. exact Ia. }
    subst b. f_equal. apply IH; try assumption. eapply Permutation_cons_inv; exact P.
Qed.

(** declaration order and container do not matter: any permutation of the declared symbols sorts
    to the same list *)
Theorem sort_names_perm_invariant l1 l2 : Permutation l1 l2 -> sort_names l1 = sort_names l2.
Proof.
  intro P. apply sorted_perm_eq; try apply sort_sorted.
  rewrite !sort_perm. exact P.
Qed.

Lemma sort_names_NoDup l : NoDup l -> NoDup (sort_names l).
Proof. intro H. eapply Permutation_NoDup; [symmetry; apply sort_perm|exact H]. Qed.

Fixpoint index_of (x : string) (l : list string) : option nat :=
  match l with
  | [] => None
  | y :: r => if String.eqb x y then Some 0 else option_map S (index_of x r)
  end.
