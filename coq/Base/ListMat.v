(** Executable matrices over Q as lists of rows (rendering B of the EKF formulas). *)
From Coq Require Import List ZArith QArith Qabs Bool.
Import ListNotations.

Definition lmat := list (list Q).

Definition qmax (a b : Q) : Q := if Qle_bool a b then b else a.
Definition qmaxl (l : list Q) : Q := fold_right qmax 0%Q l.

Definition qadd (a b : Q) : Q := Qred (a + b).
Definition qsub (a b : Q) : Q := Qred (a - b).
Definition qmul (a b : Q) : Q := Qred (a * b).
Definition dotq (a b : list Q) : Q := fold_right qadd 0%Q (map (fun p => qmul (fst p) (snd p)) (combine a b)).

Fixpoint ltr_aux (ncols : nat) (A : lmat) : lmat :=
  match ncols with
  | O => []
  | S k => map (fun r => hd 0%Q r) A :: ltr_aux k (map (@tl Q) A)
  end.
Definition ltr (A : lmat) : lmat := ltr_aux (length (hd [] A)) A.

Definition lmul (A B : lmat) : lmat :=
  let Bt := ltr B in map (fun r => map (dotq r) Bt) A.

Definition lzip (f : Q -> Q -> Q) (A B : lmat) : lmat :=
  map (fun p => map (fun q => f (fst q) (snd q)) (combine (fst p) (snd p))) (combine A B).
Definition ladd := lzip qadd.
Definition lsub := lzip qsub.
Definition l00 (A : lmat) : Q := hd 0%Q (hd [] A).
Definition lscale (c : Q) (A : lmat) : lmat := map (map (qmul c)) A.

Definition lid (n : nat) : lmat :=
  map (fun i => map (fun j => if Nat.eqb i j then 1%Q else 0%Q) (seq 0 n)) (seq 0 n).

(** Gauss-Jordan inverse on the augmented matrix [A | I]; rows with a zero pivot are swapped with a
    later row having a non-zero entry in that column; a singular matrix yields garbage (never used:
    the innovation covariance is positive definite) *)
Definition scale_row (c : Q) (r : list Q) : list Q := map (qmul c) r.
Definition sub_row (r p : list Q) (c : Q) : list Q := map (fun q => qsub (fst q) (qmul c (snd q))) (combine r p).

Fixpoint find_pivot (col : nat) (rows : lmat) : option (list Q * lmat) :=
  match rows with
  | [] => None
  | r :: rest =>
      if Qeq_bool (nth col r 0%Q) 0 then
        match find_pivot col rest with
        | Some (p, others) => Some (p, r :: others)
        | None => None
        end
      else Some (r, rest)
  end.

Fixpoint gj (n col : nat) (done todo : lmat) : lmat :=
  match n with
  | O => done ++ todo
  | S k =>
      match find_pivot col todo with
      | None => done ++ todo
      | Some (p, others) =>
          let p' := scale_row (Qred (/ nth col p 0%Q)) p in
          let elim := fun r => sub_row r p' (nth col r 0%Q) in
          gj k (S col) (map elim done ++ [p']) (map elim others)
      end
  end.

Definition linv (A : lmat) : lmat :=
  let n := length A in
  let aug := map (fun p => fst p ++ snd p) (combine A (lid n)) in
  map (skipn n) (gj n 0 [] aug).

Definition qclose (tol a b : Q) : bool := Qle_bool (Qabs (a - b)) (tol * qmax 1 (Qabs a)).

(** matrices are compared relative to their largest entry (cancellation in P - K H P is relative to |P|) *)
Definition lmaxabs (A : lmat) : Q := qmaxl (map (fun r => qmaxl (map Qabs r)) A).
Definition qclose_abs (bound a b : Q) : bool := Qle_bool (Qabs (a - b)) bound.

Fixpoint lclose_abs (bound : Q) (A B : lmat) : bool :=
  match A, B with
  | [], [] => true
  | ra :: A', rb :: B' =>
      (fix row (x y : list Q) : bool :=
         match x, y with
         | [], [] => true
         | u :: x', v :: y' => qclose_abs bound u v && row x' y'
         | _, _ => false
         end) ra rb && lclose_abs bound A' B'
  | _, _ => false
  end.
Definition lclose_norm (tol : Q) (A B : lmat) : bool := lclose_abs (tol * qmax 1 (lmaxabs A)) A B.

Fixpoint lclose (tol : Q) (A B : lmat) : bool :=
  match A, B with
  | [], [] => true
  | ra :: A', rb :: B' =>
      (fix row (x y : list Q) : bool :=
         match x, y with
         | [], [] => true
         | u :: x', v :: y' => qclose tol u v && row x' y'
         | _, _ => false
         end) ra rb && lclose tol A' B'
  | _, _ => false
  end.

Example linv_ok : lclose (1 # 1000000) (lmul (linv [[2; 1]; [1; 3]]%Q) [[2; 1]; [1; 3]]%Q) (lid 2) = true.
Proof. vm_compute. reflexivity. Qed.
Example linv_pivot : lclose (1 # 1000000) (lmul (linv [[0; 1]; [1; 0]]%Q) [[0; 1]; [1; 0]]%Q) (lid 2) = true.
Proof. vm_compute. reflexivity. Qed.
