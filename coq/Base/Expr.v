(** Symbolic expressions as exported from sympy, named environments, evaluation generic in the value type. *)
From Coq Require Import String List Bool ZArith QArith Lia.
Import ListNotations.

Definition name := string.

Fixpoint lookup {V} (k : name) (l : list (name * V)) : option V :=
  match l with
  | [] => None
  | (k', v) :: l' => if String.eqb k k' then Some v else lookup k l'
  end.

Lemma lookup_app {V} k (a b : list (name * V)) :
  lookup k (a ++ b) = match lookup k a with Some v => Some v | None => lookup k b end.
Proof. induction a as [|[k' v] a IH]; simpl; [reflexivity|]. destruct (String.eqb k k'); auto. Qed.

Lemma lookup_not_in {V} k (l : list (name * V)) : ~ In k (map fst l) -> lookup k l = None.
Proof.
  induction l as [|[k' v] l IH]; simpl; [reflexivity|]. intro H.
  destruct (String.eqb_spec k k') as [->|_]; [exfalso; auto|]. apply IH. auto.
Qed.

Lemma lookup_combine_nth {V} (ks : list name) (vs : list V) i k v :
  NoDup ks -> length ks = length vs -> nth_error ks i = Some k -> nth_error vs i = Some v ->
  lookup k (combine ks vs) = Some v.
Proof.
  revert vs i. induction ks as [|k0 ks IH]; intros [|v0 vs] [|i] ND L Hk Hv; simpl in *; try discriminate.
  - injection Hk as ->. injection Hv as ->. now rewrite String.eqb_refl.
  - inversion ND as [|? ? Hn ND']; subst.
    destruct (String.eqb_spec k k0) as [->|_].
    + exfalso. apply Hn. eapply nth_error_In; eauto.
    + eapply IH; eauto.
Qed.

(** sympy expression trees: n-ary Add/Mul are exported right-nested *)
Inductive expr :=
| Num (q : Q)
| Var (x : name)
| Add (a b : expr)
| Mul (a b : expr)
| Pow (a : expr) (n : Z)          (* integer powers; negative = reciprocal *)
| Fn (f : name) (a : expr).       (* sin cos tan exp log sqrt ... *)

(** * Symbolic partial derivative (proved correct over the reals in Theory/Deriv.v) *)
Definition fsin : name := "sin"%string. Definition fcos : name := "cos"%string.
Definition fexp : name := "exp"%string. Definition fsqrt : name := "sqrt"%string.
Definition flog : name := "log"%string.

Definition dfn (f : name) (a : expr) : expr :=
  if String.eqb f fsin then Fn fcos a
  else if String.eqb f fcos then Mul (Num (-1 # 1)) (Fn fsin a)
  else if String.eqb f fexp then Fn fexp a
  else if String.eqb f fsqrt then Pow (Mul (Num (2 # 1)) (Fn fsqrt a)) (-1)
  else if String.eqb f flog then Pow a (-1)
  else Num 0.

Fixpoint deriv (x : name) (e : expr) : expr :=
  match e with
  | Num _ => Num 0
  | Var y => if String.eqb y x then Num 1 else Num 0
  | Add a b => Add (deriv x a) (deriv x b)
  | Mul a b => Add (Mul (deriv x a) b) (Mul a (deriv x b))
  | Pow a n => Mul (Mul (Num (inject_Z n)) (Pow a (n - 1))) (deriv x a)
  | Fn f a => Mul (dfn f a) (deriv x a)
  end.

Section Eval.
Variable T : Type.
Variable ofQ : Q -> T.
Variables tadd tmul : T -> T -> T.
Variable tinv : T -> option T.              (* None at 0 *)
Variable tone : T.
Variable fnI : name -> T -> option T.       (* interpretation of function symbols; partial *)

Fixpoint tpow_pos (x : T) (n : nat) : T := match n with O => tone | S k => tmul x (tpow_pos x k) end.

Definition tpow (x : T) (n : Z) : option T :=
  match n with
  | Z0 => Some tone
  | Zpos p => Some (tpow_pos x (Pos.to_nat p))
  | Zneg p => option_map (fun y => tpow_pos y (Pos.to_nat p)) (tinv x)
  end.

Definition lift2 (f : T -> T -> T) (a b : option T) : option T :=
  match a, b with Some x, Some y => Some (f x y) | _, _ => None end.

Fixpoint eval (rho : name -> option T) (e : expr) : option T :=
  match e with
  | Num q => Some (ofQ q)
  | Var x => rho x
  | Add a b => lift2 tadd (eval rho a) (eval rho b)
  | Mul a b => lift2 tmul (eval rho a) (eval rho b)
  | Pow a n => match eval rho a with Some x => tpow x n | None => None end
  | Fn f a => match eval rho a with Some x => fnI f x | None => None end
  end.

Lemma eval_ext r1 r2 e : (forall x, r1 x = r2 x) -> eval r1 e = eval r2 e.
Proof.
  intro H. induction e as [q|x|a IHa b IHb|a IHa b IHb|a IHa n|f a IHa]; cbn [eval]; try reflexivity.
  - apply H.
  - now rewrite IHa, IHb.
  - now rewrite IHa, IHb.
  - now rewrite IHa.
  - now rewrite IHa.
Qed.

Fixpoint free_in (x : name) (e : expr) : bool :=
  match e with
  | Num _ => false
  | Var y => String.eqb x y
  | Add a b | Mul a b => free_in x a || free_in x b
  | Pow a _ | Fn _ a => free_in x a
  end.

(** evaluation only looks at the free variables *)
Lemma eval_ext_free r1 r2 e : (forall x, free_in x e = true -> r1 x = r2 x) -> eval r1 e = eval r2 e.
Proof.
  induction e as [q|y|a IHa b IHb|a IHa b IHb|a IHa n|f a IHa]; cbn [eval free_in]; intro H; try reflexivity.
  - apply H. apply String.eqb_refl.
  - rewrite IHa, IHb; [reflexivity| |]; intros x Hx; apply H; rewrite Hx; auto using orb_true_r.
  - rewrite IHa, IHb; [reflexivity| |]; intros x Hx; apply H; rewrite Hx; auto using orb_true_r.
  - rewrite IHa; [reflexivity|]. exact H.
  - rewrite IHa; [reflexivity|]. exact H.
Qed.

Fixpoint all_some {A} (l : list (option A)) : option (list A) :=
  match l with
  | [] => Some []
  | Some a :: l' => option_map (cons a) (all_some l')
  | None :: _ => None
  end.

Lemma all_some_nth {A} (l : list (option A)) vs i :
  all_some l = Some vs -> nth_error vs i = match nth_error l i with Some o => o | None => None end.
Proof.
  revert vs i. induction l as [|[a|] l IH]; intros vs i H; simpl in H.
  - injection H as <-. destruct i; reflexivity.
  - destruct (all_some l) as [vs'|] eqn:E; [|discriminate]. injection H as <-.
    destruct i as [|i]; [reflexivity|]. simpl. apply IH. reflexivity.
  - discriminate.
Qed.

Lemma all_some_length {A} (l : list (option A)) vs : all_some l = Some vs -> length vs = length l.
Proof.
  revert vs. induction l as [|[a|] l IH]; intros vs H; simpl in H.
  - now injection H as <-.
  - destruct (all_some l) as [vs'|]; [|discriminate]. injection H as <-. simpl. f_equal. now apply IH.
  - discriminate.
Qed.

End Eval.

(** the exact rational instance used for in-Coq evaluation (rational fragment: no function symbols) *)
Definition qinv (x : Q) : option Q := if Qeq_bool x 0 then None else Some (Qred (/ x))%Q.
Definition qeval := eval Q (fun q => q) (fun a b => Qred (a + b)) (fun a b => Qred (a * b)) qinv 1%Q (fun _ _ => None).
