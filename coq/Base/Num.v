(** Numeric structure shared by the exact (Q) and the bit-exact (PrimFloat) instances of the
    runtime models, plus the small combinators the Python translator targets. *)
From Coq Require Import ZArith QArith Qround Qabs List Bool.
From Coq Require Import PrimFloat Uint63 FloatOps SpecFloat.
Import ListNotations.

Record Num := mkNum {
  T :> Type;
  add : T -> T -> T;
  sub : T -> T -> T;
  mul : T -> T -> T;
  div : T -> T -> T;
  opp : T -> T;
  absv : T -> T;
  ltb : T -> T -> bool;
  leb : T -> T -> bool;
  floorZ : T -> option Z;   (* Python math.floor / C++ std::floor then cast; None on inf/nan *)
  ofZ : Z -> T;
  lit : Q -> float -> T     (* a source literal: exact decimal value and nearest double *)
}.

(** * Exact instance *)
Definition QNum : Num := {|
  T := Q; add := Qplus; sub := Qminus; mul := Qmult; div := Qdiv; opp := Qopp; absv := Qabs;
  ltb := fun a b => negb (Qle_bool b a); leb := Qle_bool;
  floorZ := fun q => Some (Qfloor q); ofZ := inject_Z; lit := fun q _ => q |}.

(** * IEEE-754 binary64 instance (kernel primitive floats) *)
Definition f_floorZ (f : float) : option Z :=
  match Prim2SF f with
  | S754_zero _ => Some 0%Z
  | S754_finite s m e =>
      let sm := if s then Zneg m else Zpos m in
      match e with
      | Z0 => Some sm
      | Zpos p => Some (sm * 2 ^ Zpos p)%Z
      | Zneg p => Some (Z.div sm (2 ^ Zpos p))%Z
      end
  | _ => None
  end.

Definition f_ofZ (z : Z) : float :=
  match z with
  | Z0 => 0%float
  | Zpos p => SF2Prim (binary_normalize prec emax (Zpos p) 0 false)
  | Zneg p => SF2Prim (binary_normalize prec emax (Zpos p) 0 true)
  end.

Definition FNum : Num := {|
  T := float; add := PrimFloat.add; sub := PrimFloat.sub; mul := PrimFloat.mul; div := PrimFloat.div;
  opp := PrimFloat.opp; absv := PrimFloat.abs; ltb := PrimFloat.ltb; leb := PrimFloat.leb;
  floorZ := f_floorZ; ofZ := f_ofZ; lit := fun _ f => f |}.

(** * Combinators used by translated code *)
Definition obind {A B} (o : option A) (f : A -> option B) : option B :=
  match o with Some a => f a | None => None end.

Fixpoint iterN {A} (n : nat) (f : A -> option A) (a : A) : option A :=
  match n with O => Some a | S k => obind (f a) (iterN k f) end.

Fixpoint ofold {A B} (f : A -> B -> option A) (l : list B) (a : A) : option A :=
  match l with [] => Some a | x :: r => obind (f a x) (ofold f r) end.

Definition is_none {A} (o : option A) : bool := match o with None => true | Some _ => false end.
Definition odefault {A} (o : option A) (d : A) : A := match o with Some a => a | None => d end.

Lemma iter_shift {A} (f : A -> A) n a : Nat.iter n f (f a) = f (Nat.iter n f a).
Proof. induction n as [|n IH]; [reflexivity|]. simpl. now rewrite IH. Qed.

Lemma iterN_total {A} n (f : A -> A) a :
  iterN n (fun x => Some (f x)) a = Some (Nat.iter n f a).
Proof.
  revert a; induction n as [|n IH]; intro a; [reflexivity|].
  cbn [iterN obind]. rewrite IH, iter_shift. reflexivity.
Qed.

Lemma iter_fold_repeat {A D} (g : A -> D -> A) d n a :
  Nat.iter n (fun x => g x d) a = fold_left g (repeat d n) a.
Proof.
  revert a; induction n as [|n IH]; intro a; [reflexivity|].
  change (repeat d (S n)) with (d :: repeat d n). cbn [fold_left]. rewrite <- IH.
  change (Nat.iter (S n) (fun x => g x d) a) with (g (Nat.iter n (fun x => g x d) a) d).
  now rewrite (iter_shift (fun x => g x d)).
Qed.

Lemma ofold_total {A B} (f : A -> B -> A) l a :
  ofold (fun x y => Some (f x y)) l a = Some (fold_left f l a).
Proof. revert a; induction l as [|x l IH]; intro a; [reflexivity|]. cbn [ofold obind fold_left]. apply IH. Qed.
