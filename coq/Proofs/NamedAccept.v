(** What the regenerated acceptance test of the generated named-value classes (gen/NamedAccept.v, from
    common.py's __subclasshook__) implies: an accepted value carries exactly the expected names. *)
From Coq Require Import String List Bool Arith.
From FV Require Import Base.Expr Model.Named gen.NamedAccept.
Import ListNotations.

Lemma same_names_eq : forall a b, same_names a b = true -> a = b.
Proof.
  induction a as [|x a IH]; intros [|y b] H; cbn [same_names] in H; try discriminate; [reflexivity|].
  apply andb_true_iff in H. destruct H as [Hxy Hab].
  apply String.eqb_eq in Hxy. subst y. f_equal. apply IH. exact Hab.
Qed.

Lemma same_names_refl : forall a, same_names a a = true.
Proof. induction a as [|x a IH]; cbn [same_names]; [reflexivity|]. rewrite String.eqb_refl. exact IH. Qed.

Lemma vector_accepts_names : forall n1 a1 n2 a2, vector_accepts n1 a1 n2 a2 = true -> a1 = a2.
Proof.
  unfold vector_accepts. intros n1 a1 n2 a2 H.
  repeat (apply andb_true_iff in H; destruct H as [H ?]).
  apply same_names_eq. assumption.
Qed.

Lemma covariance_accepts_names : forall n1 a1 n2 a2, covariance_accepts n1 a1 n2 a2 = true -> a1 = a2.
Proof.
  unfold covariance_accepts. intros n1 a1 n2 a2 H.
  repeat (apply andb_true_iff in H; destruct H as [H ?]).
  apply same_names_eq. assumption.
Qed.

(** non-vacuity: the class itself is accepted; a same-sized class over other names is not *)
Lemma vector_accepts_self : forall n a, vector_accepts n a n a = true.
Proof. intros. unfold vector_accepts. rewrite String.eqb_refl, same_names_refl, Nat.eqb_refl. reflexivity. Qed.

Lemma covariance_accepts_self : forall n a, covariance_accepts n a n a = true.
Proof. intros. unfold covariance_accepts. rewrite String.eqb_refl, same_names_refl, Nat.eqb_refl. reflexivity. Qed.

Example foreign_names_refused :
  vector_accepts "State" ["x"; "v"]%string "State" ["p"; "q"]%string = false /\
  covariance_accepts "Covariance" ["x"; "v"]%string "Covariance" ["p"; "q"]%string = false.
Proof. split; vm_compute; reflexivity. Qed.

(** an accepted value read by name under the expected class gives what it holds under its own class *)
Lemma accepted_vector_read_by_name : forall n1 a1 n2 a2 v x,
  vector_accepts n1 a1 n2 a2 = true -> nv_get a1 v x = nv_get a2 v x.
Proof. intros n1 a1 n2 a2 v x H. rewrite (vector_accepts_names _ _ _ _ H). reflexivity. Qed.
