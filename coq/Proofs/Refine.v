(** Rendering B (executable: lists of rows over the standard library's Q, gen/EkfB.v - what is RUN against the
    implementation) refines rendering A (MathComp matrices - what the theorems are ABOUT), both regenerated from
    the source: on every well-shaped rational input the list program computes the entries of the MathComp term
    instantiated at the field [rat].  The matrix inverse is handled by certificate: whenever S * X = I holds
    entry-wise (checked by computation for every case the correspondence runs), X is invmx S. *)
From Coq Require Import ZArith QArith_base.
From mathcomp Require Import all_ssreflect all_algebra.
From FV Require Import Base.ListMat Base.Store Base.ListMatFacts Theory.QRat gen.EkfA gen.EkfB.
Set Implicit Arguments. Unset Strict Implicit. Unset Printing Implicit Defensive.
Import Order.Theory GRing.Theory Num.Theory.
Local Open Scope ring_scope.

Lemma ord_lt n (i : 'I_n) : (i < n)%coq_nat. Proof. by apply/ssrnat.ltP. Qed.
Lemma pos_le k : (0 < k)%N -> (1 <= k)%coq_nat. Proof. by move/ssrnat.ltP. Qed.
Lemma nat_eqbE (a b : nat) : Nat.eqb a b = (a == b).
Proof. by apply/idP/idP => [/PeanoNat.Nat.eqb_eq ->|/eqP ->] //; apply/PeanoNat.Nat.eqb_eq. Qed.

Definition mx_of (r c : nat) (A : lmat) : 'M[rat]_(r, c) := \matrix_(i, j) q2r (lget A i j).

Lemma q2r_dotq_fn k f g : q2r (dotq_fn k f g) = \sum_(t < k) q2r (f t) * q2r (g t).
Proof.
elim: k f g => [|k IH] f g; first by rewrite big_ord0 /dotq_fn /= q2r_0.
by rewrite dotq_fn_shift q2r_qadd q2r_qmul IH big_ord_recl.
Qed.

Section Ops.
Variables r k c : nat.

Lemma mx_ladd A B : shaped2 r c A -> shaped2 r c B -> mx_of r c (ladd A B) = mx_of r c A + mx_of r c B.
Proof.
move=> sA sB; apply/matrixP => i j; rewrite !mxE.
by rewrite (@lget_lzip qadd r c A B i j (erefl _) sA sB (ord_lt i) (ord_lt j)) q2r_qadd.
Qed.

Lemma mx_lsub A B : shaped2 r c A -> shaped2 r c B -> mx_of r c (lsub A B) = mx_of r c A - mx_of r c B.
Proof.
move=> sA sB; apply/matrixP => i j; rewrite !mxE.
by rewrite (@lget_lzip qsub r c A B i j (erefl _) sA sB (ord_lt i) (ord_lt j)) q2r_qsub.
Qed.

Lemma mx_ltr A : shaped2 r c A -> mx_of c r (ltr A) = (mx_of r c A)^T.
Proof.
move=> sA; apply/matrixP => j i; rewrite !mxE.
by rewrite (@lget_ltr r c A i j sA (ord_lt i) (ord_lt j)).
Qed.

Lemma mx_lmul A B : shaped2 r k A -> shaped2 k c B -> (0 < k)%N ->
  mx_of r c (lmul A B) = mx_of r k A *m mx_of k c B.
Proof.
move=> sA sB k0; apply/matrixP => i j; rewrite !mxE.
rewrite (@lget_lmul r k c A B i j sA sB (pos_le k0) (ord_lt i) (ord_lt j)).
by rewrite q2r_dotq_fn; apply: eq_bigr => t _; rewrite !mxE.
Qed.
End Ops.

Lemma mx_lid n : mx_of n n (lid n) = 1%:M.
Proof.
apply/matrixP => i j; rewrite !mxE (lget_lid n i j (ord_lt i) (ord_lt j)) nat_eqbE.
by rewrite -val_eqE; case: (val i == val j); rewrite ?q2r_1 ?q2r_0.
Qed.

(** the inverse, by certificate *)
Lemma mx_inv_cert m S X : shaped2 m m S -> (0 < m)%N -> cert_inv m S X = true ->
  shaped2 m m X /\ mx_of m m X = invmx (mx_of m m S).
Proof.
move=> sS m0 /cert_inv_spec [sX h]; split=> //.
have SX : mx_of m m S *m mx_of m m X = 1%:M.
  rewrite -mx_lmul //; apply/matrixP => i j; rewrite !mxE.
  rewrite (q2r_eq (h i j (ord_lt i) (ord_lt j))) nat_eqbE.
  by rewrite -val_eqE; case: (val i == val j); rewrite ?q2r_1 ?q2r_0.
have [uS _] := mulmx1_unit SX.
by rewrite -[LHS]mul1mx -(mulVmx uS) -mulmxA SX mulmx1.
Qed.

(** shapes of composed list terms *)
Lemma sh_add r c A B : shaped2 r c A -> shaped2 r c B -> shaped2 r c (ladd A B).
Proof. exact: lzip_shaped. Qed.
Lemma sh_sub r c A B : shaped2 r c A -> shaped2 r c B -> shaped2 r c (lsub A B).
Proof. exact: lzip_shaped. Qed.
Lemma sh_mul r k c A B : (0 < k)%N -> shaped2 r k A -> shaped2 k c B -> shaped2 r c (lmul A B).
Proof. by move=> k0 sA sB; apply: (@lmul_shaped r k c A B sA sB (pos_le k0)). Qed.
Lemma sh_tr r c A : (0 < r)%N -> shaped2 r c A -> shaped2 c r (ltr A).
Proof. by move=> r0 sA; apply: (@ltr_shaped r c A sA (pos_le r0)). Qed.

Section Functions.
Variables n c m : nat.
Hypothesis n0 : (0 < n)%N.
Hypothesis c0 : (0 < c)%N.
Hypothesis m0 : (0 < m)%N.
Local Notation mx := mx_of.

(** prediction, Python source and C++ template *)
Theorem refine_py_predict G V P M : shaped2 n n G -> shaped2 n c V -> shaped2 n n P -> shaped2 c c M ->
  mx n n (py_process_model_cov_l G V P M) = py_process_model_cov (mx n n G) (mx n c V) (mx n n P) (mx c c M).
Proof.
move=> sG sV sP sM; rewrite /py_process_model_cov_l /py_process_model_cov /=.
have sGt := sh_tr n0 sG. have sVt := sh_tr n0 sV.
have s1 := sh_mul n0 sP sGt. have s2 := sh_mul c0 sM sVt.
rewrite (mx_ladd (sh_mul n0 sG s1) (sh_mul c0 sV s2)).
by rewrite (mx_lmul sG s1 n0) (mx_lmul sP sGt n0) (mx_ltr sG) (mx_lmul sV s2 c0) (mx_lmul sM sVt c0) (mx_ltr sV).
Qed.

Theorem refine_cpp_predict G V P M : shaped2 n n G -> shaped2 n c V -> shaped2 n n P -> shaped2 c c M ->
  mx n n (cpp_process_model_cov_l G V P M) = cpp_process_model_cov (mx n n G) (mx n c V) (mx n n P) (mx c c M).
Proof.
move=> sG sV sP sM; rewrite /cpp_process_model_cov_l /cpp_process_model_cov /=.
have sGt := sh_tr n0 sG. have sVt := sh_tr n0 sV.
have s1 := sh_mul n0 sG sP. have s2 := sh_mul c0 sV sM.
rewrite (mx_ladd (sh_mul n0 s1 sGt) (sh_mul c0 s2 sVt)).
by rewrite (mx_lmul s1 sGt n0) (mx_lmul sG sP n0) (mx_ltr sG) (mx_lmul s2 sVt c0) (mx_lmul sV sM c0) (mx_ltr sV).
Qed.

(** update: state, covariance, recorded innovation and recorded S, for corresponding decision functions and a
    certified inverse *)
Definition quad (A B C D : Type) (p : (A * B) * (C * D)) := (p.1.1, p.1.2, p.2.1, p.2.2).

Theorem refine_py_update (rmB : lmat -> lmat -> bool) (rmA : 'cV[rat]_m -> 'M[rat]_m -> bool) x P z hx H Q :
  shaped2 n 1 x -> shaped2 n n P -> shaped2 m 1 z -> shaped2 m 1 hx -> shaped2 m n H -> shaped2 m m Q ->
  let S_l := ladd (lmul H (lmul P (ltr H))) Q in
  cert_inv m S_l (linv S_l) = true ->
  rmB (lsub z hx) (linv S_l) = rmA (mx m 1 (lsub z hx)) (mx m m (linv S_l)) ->
  let rB := py_sensor_model_l rmB x P z hx H Q in
  let rA := py_sensor_model rmA (mx n 1 x) (mx n n P) (mx m 1 z) (mx m 1 hx) (mx m n H) (mx m m Q) in
  (mx n 1 rB.1.1, mx n n rB.1.2, mx m 1 rB.2.1, mx m m rB.2.2) = quad rA.
Proof.
move=> sx sP sz shx sH sQ S_l cert rmE.
have sHt := sh_tr m0 sH.
have sPHt := sh_mul n0 sP sHt.
have sS : shaped2 m m S_l by apply: sh_add => //; apply: (sh_mul n0 sH sPHt).
have [sX invE] := mx_inv_cert sS m0 cert.
have SE : mx m m S_l = mx m n H *m (mx n n P *m (mx m n H)^T) + mx m m Q.
  by rewrite /S_l (mx_ladd (sh_mul n0 sH sPHt) sQ) (mx_lmul sH sPHt n0) (mx_lmul sP sHt n0) (mx_ltr sH).
have innE : mx m 1 (lsub z hx) = mx m 1 z - mx m 1 hx by rewrite (mx_lsub sz shx).
rewrite /py_sensor_model_l /py_sensor_model /quad -/S_l /= -SE -invE -innE rmE.
case: (rmA _ _) => //=.
have sHtX := sh_mul m0 sHt sX.
have sK := sh_mul n0 sP sHtX.
have sHP := sh_mul n0 sH sP.
have sinn := sh_sub sz shx.
congr (_, _, _, _).
- by rewrite (mx_ladd sx (sh_mul m0 sK sinn)) (mx_lmul sK sinn m0) (mx_lmul sP sHtX n0) (mx_lmul sHt sX m0) (mx_ltr sH).
- rewrite (mx_lsub sP (sh_mul m0 sK sHP)) (mx_lmul sK sHP m0) (mx_lmul sP sHtX n0) (mx_lmul sHt sX m0) (mx_ltr sH).
  by rewrite (mx_lmul sH sP n0).
Qed.

Theorem refine_cpp_update (rmB : lmat -> lmat -> bool) (rmA : 'cV[rat]_m -> 'M[rat]_m -> bool) x P z hx H Q :
  shaped2 n 1 x -> shaped2 n n P -> shaped2 m 1 z -> shaped2 m 1 hx -> shaped2 m n H -> shaped2 m m Q ->
  let S_l := ladd (lmul (lmul H P) (ltr H)) Q in
  cert_inv m S_l (linv S_l) = true ->
  rmB (lsub z hx) (linv S_l) = rmA (mx m 1 (lsub z hx)) (mx m m (linv S_l)) ->
  let rB := cpp_sensor_model_l rmB x P z hx H Q in
  let rA := cpp_sensor_model rmA (mx n 1 x) (mx n n P) (mx m 1 z) (mx m 1 hx) (mx m n H) (mx m m Q) in
  (mx n 1 rB.1.1, mx n n rB.1.2, mx m 1 rB.2) = (rA.1.1, rA.1.2, rA.2).
Proof.
move=> sx sP sz shx sH sQ S_l cert rmE.
have sHt := sh_tr m0 sH.
have sHP := sh_mul n0 sH sP.
have sS : shaped2 m m S_l by apply: sh_add => //; apply: (sh_mul n0 sHP sHt).
have [sX invE] := mx_inv_cert sS m0 cert.
have SE : mx m m S_l = mx m n H *m mx n n P *m (mx m n H)^T + mx m m Q.
  by rewrite /S_l (mx_ladd (sh_mul n0 sHP sHt) sQ) (mx_lmul sHP sHt n0) (mx_lmul sH sP n0) (mx_ltr sH).
have innE : mx m 1 (lsub z hx) = mx m 1 z - mx m 1 hx by rewrite (mx_lsub sz shx).
rewrite /cpp_sensor_model_l /cpp_sensor_model -/S_l /= -SE -invE -innE rmE.
case: (rmA _ _) => //=.
have sPHt := sh_mul n0 sP sHt.
have sK := sh_mul m0 sPHt sX.
have sinn := sh_sub sz shx.
have sKH := sh_mul m0 sK sH.
congr (_, _, _).
- by rewrite (mx_ladd sx (sh_mul m0 sK sinn)) (mx_lmul sK sinn m0) (mx_lmul sPHt sX m0) (mx_lmul sP sHt n0) (mx_ltr sH).
- rewrite (mx_lsub sP (sh_mul n0 sKH sP)) (mx_lmul sKH sP n0) (mx_lmul sK sH m0) (mx_lmul sPHt sX m0).
  by rewrite (mx_lmul sP sHt n0) (mx_ltr sH).
Qed.

(** the normalised innovation squared *)
Theorem refine_py_nis inn Sinv : shaped2 m 1 inn -> shaped2 m m Sinv ->
  q2r (py_nis_l inn Sinv) = ((mx m 1 inn)^T *m (mx m m Sinv *m mx m 1 inn)) 0 0.
Proof.
move=> si sS; rewrite /py_nis_l l00_lget.
have s1 := sh_mul m0 sS si. have st := sh_tr m0 si.
have <- : mx 1 1 (lmul (ltr inn) (lmul Sinv inn)) = (mx m 1 inn)^T *m (mx m m Sinv *m mx m 1 inn).
  by rewrite (mx_lmul st s1 m0) (mx_lmul sS si m0) (mx_ltr si).
by rewrite mxE.
Qed.

Theorem refine_cpp_nis inn Sinv : shaped2 m 1 inn -> shaped2 m m Sinv ->
  q2r (cpp_nis_l inn Sinv) = ((mx m 1 inn)^T *m mx m m Sinv *m mx m 1 inn) 0 0.
Proof.
move=> si sS; rewrite /cpp_nis_l l00_lget.
have st := sh_tr m0 si. have s1 := sh_mul m0 st sS.
have <- : mx 1 1 (lmul (lmul (ltr inn) Sinv) inn) = (mx m 1 inn)^T *m mx m m Sinv *m mx m 1 inn.
  by rewrite (mx_lmul s1 si m0) (mx_lmul st sS m0) (mx_ltr si).
by rewrite mxE.
Qed.
End Functions.
