(** The process-noise double loop of python.ExtendedKalmanFilter._construct_process, as translated from the
    source (gen/NoisePy.v), fills exactly the closed-form matrix Model.Named.py_noise_matrix: for every list of
    controls and every noise dictionary. *)
From Coq Require Import String List Bool Arith QArith Lia.
From FV Require Import Base.Names Base.Expr Base.ListMat Base.Store Model.Named gen.NoisePy.
Import ListNotations.

Lemma value_is_noise_value d i j :
  (if nmem (K2 i j) d then nget (K2 i j) d
   else if nmem (K2 j i) d then nget (K2 j i) d
   else if (String.eqb i j && nmem (K1 i) d) then nget (K1 i) d else 0%Q) = noise_value d i j.
Proof.
  unfold noise_value, nmem, nget.
  destruct (nlookup (K2 i j) d); [reflexivity|].
  destruct (nlookup (K2 j i) d); [reflexivity|].
  destruct (String.eqb i j); simpl; [|reflexivity].
  destruct (nlookup (K1 i) d); reflexivity.
Qed.

Section Loop.
Variable controls : list name.
Variable d : list (nkey * Q).
Let n := length controls.
Let v (a b : nat) : Q := noise_value d (nth a controls EmptyString) (nth b controls EmptyString).
Let body (i : nat) (M : lmat) (j : nat) : lmat := lstore (lstore M i j (v i j)) j i (v i j).
Let closed (a b : nat) : Q := v (Nat.max a b) (Nat.min a b).

Definition inner_inv (k m : nat) (M : lmat) : Prop :=
  shaped n M /\
  forall a b, (a < n)%nat -> (b < n)%nat ->
    ((Nat.max a b < k)%nat -> lget M a b = closed a b) /\
    (a = k -> (b < m)%nat -> lget M a b = v k b) /\
    (b = k -> (a < m)%nat -> lget M a b = v k a).

Definition outer_inv (k : nat) (M : lmat) : Prop :=
  shaped n M /\ forall a b, (a < n)%nat -> (b < n)%nat -> (Nat.max a b < k)%nat -> lget M a b = closed a b.

Lemma inner_step k m M : (k < n)%nat -> (m < n)%nat -> inner_inv k m M -> inner_inv k (S m) (body k M m).
Proof.
  intros Hk Hm [Sh I]. unfold body.
  assert (Sh1 : shaped n (lstore M k m (v k m))) by (apply shaped_lstore; exact Sh).
  split; [apply shaped_lstore; exact Sh1|].
  intros a b Ha Hb.
  rewrite (lget_lstore n _ m k _ a b Sh1 Hm Hk), (lget_lstore n M k m _ a b Sh Hk Hm).
  destruct (I a b Ha Hb) as [I1 [I2 I3]].
  destruct (Nat.eqb_spec a m) as [Eam|Nam]; destruct (Nat.eqb_spec b k) as [Ebk|Nbk];
    destruct (Nat.eqb_spec a k) as [Eak|Nak]; destruct (Nat.eqb_spec b m) as [Ebm|Nbm]; simpl;
    (split; [intro Hmax|split; [intros E L|intros E L]]); subst; try lia; try reflexivity;
    try (apply I1; lia); try (apply I2; lia); try (apply I3; lia).
Qed.

Lemma inner_loop k M : (k < n)%nat -> outer_inv k M -> outer_inv (S k) (fold_left (body k) (seq 0 n) M).
Proof.
  intros Hk [Sh O].
  assert (J : inner_inv k n (fold_left (body k) (seq 0 n) M)).
  { apply (fold_seq_inv (inner_inv k) (body k) n M).
    - split; [exact Sh|]. intros a b Ha Hb. split; [apply O; assumption|]. split; intros; lia.
    - intros m b Hm Ib. apply inner_step; assumption. }
  destruct J as [Sh' J]. split; [exact Sh'|].
  intros a b Ha Hb Hmax. destruct (J a b Ha Hb) as [J1 [J2 J3]].
  destruct (Nat.lt_ge_cases (Nat.max a b) k) as [L|G]; [apply J1; exact L|].
  assert (E : Nat.max a b = k) by lia. unfold closed. rewrite E.
  destruct (Nat.eq_dec a k) as [Eak|Nak].
  - rewrite (J2 Eak Hb). f_equal. lia.
  - assert (Ebk : b = k) by lia. rewrite (J3 Ebk Ha). f_equal. lia.
Qed.

Lemma loop_closed_form :
  fold_left (fun M i => fold_left (body i) (seq 0 n) M) (seq 0 n) (lid n) =
  map (fun a => map (fun b => closed a b) (seq 0 n)) (seq 0 n).
Proof.
  assert (O : outer_inv n (fold_left (fun M i => fold_left (body i) (seq 0 n) M) (seq 0 n) (lid n))).
  { apply (fold_seq_inv outer_inv (fun M i => fold_left (body i) (seq 0 n) M) n (lid n)).
    - split; [apply shaped_lid|]. intros; lia.
    - intros k b Hk Ob. apply inner_loop; assumption. }
  destruct O as [Sh O]. apply lmat_ext; [exact Sh|].
  intros a b Ha Hb. apply O; try assumption. lia.
Qed.
End Loop.

Theorem py_noise_loop_is_closed_form controls d : py_noise_loop controls d = py_noise_matrix controls d.
Proof.
  unfold py_noise_loop, py_noise_matrix.
  rewrite (fold_enumerate _ controls EmptyString).
  rewrite <- (loop_closed_form controls d).
  apply fold_left_ext_in. intros M i _.
  rewrite (fold_enumerate _ controls EmptyString).
  apply fold_left_ext_in. intros M' j _. cbv beta iota zeta.
  rewrite value_is_noise_value. reflexivity.
Qed.
