(** Kinematic identities of the expressions REGENERATED from formak.reference_models.strapdown_imu. *)
From Coq Require Import Reals Lra.
From FV Require Import Theory.Quat gen.Strapdown.
Local Open Scope R_scope.

(* side conditions left by [field]: non-zero numerals, or the norm hypothesis in another polynomial form *)
Ltac nz H := repeat split; first [ lra | exact H | (let E := fresh in intro E; apply H; rewrite <- E; ring) ].

Section S.
Variables dt g qw qx qy qz cw cx cy cz w1 w2 w3 f1 f2 f3 b1 b2 b3 p1 p2 p3 v1 v2 v3 a1 a2 a3 yaw_rate pitch_rate roll_rate : R.

Notation args := (dt) (only parsing).
Let ori := mkQ qw qx qy qz.
Let cori := mkQ cw cx cy cz.
(** composed orientation: active orientation times mounting calibration *)
Let q := qmul ori cori.

Notation A f := (f dt g qw qx qy qz cw cx cy cz w1 w2 w3 f1 f2 f3 b1 b2 b3 p1 p2 p3 v1 v2 v3 a1 a2 a3 yaw_rate pitch_rate roll_rate) (only parsing).

(** predicted global angular rates = gyro vector rotated by the composed orientation (with the explicit
    |q|^2 factor for non-unit quaternions) *)
Lemma rates_are_rotated_gyro :
  A sd_roll_rate = qb (sandwich q w1 w2 w3) /\ A sd_pitch_rate = qc (sandwich q w1 w2 w3) /\ A sd_yaw_rate = qd (sandwich q w1 w2 w3).
Proof.
  unfold sd_roll_rate, sd_pitch_rate, sd_yaw_rate, sandwich, q, ori, cori, qmul, qconj, pure; simpl.
  repeat split; ring.
Qed.

(** predicted global acceleration = bias-corrected specific force rotated by the composed orientation,
    plus gravity *)
Lemma accel_is_rotated_specific_force : qnorm2 q <> 0 ->
  A sd_a1 = qb (sandwich q (f1 - b1) (f2 - b2) (f3 - b3)) / qnorm2 q /\
  A sd_a2 = qc (sandwich q (f1 - b1) (f2 - b2) (f3 - b3)) / qnorm2 q /\
  A sd_a3 = qd (sandwich q (f1 - b1) (f2 - b2) (f3 - b3)) / qnorm2 q - g.
Proof.
  intro H. unfold qnorm2, q, ori, cori, qmul in H; simpl in H.
  unfold sd_a1, sd_a2, sd_a3, sandwich, qnorm2, q, ori, cori, qmul, qconj, pure; simpl.
  repeat split; field; nz H.
Qed.

(** velocity and position are the exact constant-acceleration integrals over the step *)
Lemma velocity_integral : qnorm2 q <> 0 ->
  A sd_v1 = v1 + A sd_a1 * dt /\ A sd_v2 = v2 + A sd_a2 * dt /\ A sd_v3 = v3 + A sd_a3 * dt.
Proof.
  intro H. unfold qnorm2, q, ori, cori, qmul in H; simpl in H.
  unfold sd_v1, sd_v2, sd_v3, sd_a1, sd_a2, sd_a3.
  repeat split; field; nz H.
Qed.

Lemma position_integral : qnorm2 q <> 0 ->
  A sd_p1 = p1 + v1 * dt + A sd_a1 * dt * dt / 2 /\
  A sd_p2 = p2 + v2 * dt + A sd_a2 * dt * dt / 2 /\
  A sd_p3 = p3 + v3 * dt + A sd_a3 * dt * dt / 2.
Proof.
  intro H. unfold qnorm2, q, ori, cori, qmul in H; simpl in H.
  unfold sd_p1, sd_p2, sd_p3, sd_a1, sd_a2, sd_a3.
  repeat split; field; nz H.
Qed.

(** the orientation advances by half the orientation times the gyro quaternion times the step *)
Lemma orientation_step :
  let dq := qmul ori (pure w1 w2 w3) in
  A sd_qw = qw + / 2 * qa dq * dt /\ A sd_qx = qx + / 2 * qb dq * dt /\
  A sd_qy = qy + / 2 * qc dq * dt /\ A sd_qz = qz + / 2 * qd dq * dt.
Proof.
  unfold sd_qw, sd_qx, sd_qy, sd_qz, ori, qmul, pure; simpl. repeat split; field.
Qed.

End S.
