(** Facts about the transition graph REGENERATED from formak.ui_state_machine (finite: 3 states). *)
From Coq Require Import String List Bool Arith.
From FV Require Import Model.Workflow gen.WorkflowGraph.
Import ListNotations.

Definition wstate_eqb (a b : wstate) : bool :=
  match a, b with WStart, WStart | WSymbolic, WSymbolic | WFit, WFit => true | _, _ => false end.
Lemma wstate_eqb_eq a b : wstate_eqb a b = true <-> a = b.
Proof. destruct a, b; simpl; split; congruence. Qed.

Definition all_states := [WStart; WSymbolic; WFit].
Definition wsearch := search wstate wstate_eqb wf_trans wf_max_iter.
Definition wfollow := follow wstate wf_trans.

Lemma wf_names_unique : names_unique wstate wf_trans.
Proof. intros []; simpl; repeat constructor; simpl; intuition discriminate. Qed.

(** all paths of length <= 3 from a state (the graph has 3 states; longer shortest paths cannot exist) *)
Fixpoint paths (n : nat) (s : wstate) : list (list string * wstate) :=
  match n with
  | O => [([], s)]
  | S k => ([], s) :: flat_map (fun t => map (fun p => (fst t :: fst p, snd p)) (paths k (snd t))) (wf_trans s)
  end.

Definition shortest_len (s t : wstate) : option nat :=
  let ls := map (fun p => length (fst p)) (filter (fun p => wstate_eqb (snd p) t) (paths 3 s)) in
  match ls with [] => None | x :: r => Some (fold_left Nat.min r x) end.

(** for all 3 x 3 (start, target) pairs: the search returns a path iff the target is reachable, the path
    followed from the start ends in the target, and no path of length <= 3 is shorter *)
Definition pair_ok (s t : wstate) : bool :=
  match wsearch s t, shortest_len s t with
  | Some p, Some n => (match wfollow s p with Some e => wstate_eqb e t | None => false end) && Nat.eqb (length p) n
  | None, None => true
  | _, _ => false
  end.

Theorem search_table : forallb (fun s => forallb (pair_ok s) all_states) all_states = true.
Proof. vm_compute. reflexivity. Qed.

(** what the table is, concretely (declared order: start, then symbolic model, then fitted model) *)
Theorem search_results :
  wsearch WStart WStart = Some [] /\ wsearch WStart WSymbolic = Some ["symbolic_model"%string] /\
  wsearch WStart WFit = Some ["symbolic_model"%string; "fit_model"%string] /\
  wsearch WSymbolic WSymbolic = Some [] /\ wsearch WSymbolic WFit = Some ["fit_model"%string] /\ wsearch WFit WFit = Some [] /\
  wsearch WSymbolic WStart = None /\ wsearch WFit WStart = None /\ wsearch WFit WSymbolic = None.
Proof. vm_compute. repeat split. Qed.

Theorem workflow_search_sound : forall s t p, wsearch s t = Some p -> wfollow s p = Some t.
Proof. exact (search_sound wstate wstate_eqb wstate_eqb_eq wf_trans wf_names_unique wf_max_iter). Qed.
