(** Proofs about the code REGENERATED from py/formak/runtime.py (gen/RuntimePy.v):
    it equals the specification of Model/Runtime.v for every Num instance, filter and history. *)
From Coq Require Import ZArith QArith List Bool PrimFloat.
From FV Require Import Base.Num Model.Runtime Model.RuntimeCpp gen.RuntimePy.
Import ListNotations.

Lemma iterN_ext {A} n (f g : A -> option A) a : (forall x, f x = g x) -> iterN n f a = iterN n g a.
Proof.
  intro E. revert a. induction n as [|n IH]; intro a; [reflexivity|].
  cbn [iterN]. rewrite E. destruct (g a); cbn [obind]; [apply IH|reflexivity].
Qed.

Lemma ofold_ext {A B} (f g : A -> B -> option A) l a : (forall x y, f x y = g x y) -> ofold f l a = ofold g l a.
Proof.
  intro E. revert a. induction l as [|y l IH]; intro a; [reflexivity|].
  cbn [ofold]. rewrite E. destruct (g a y); cbn [obind]; [apply IH|reflexivity].
Qed.

Section PyRuntime.
Variable N : Num.
Variables St Cov Ctl Rd RdData KW Key : Type.
Variable impl_process_model : N -> St -> Cov -> option Ctl -> (St * Cov).
Variable impl_sensor_model : St -> Cov -> Key -> RdData -> (St * Cov).
Variable impl_make_reading : Key -> KW -> RdData.
Variable impl_control_size : Z.
Variable cfg_max_dt_sec : N.
Variable rd_ts : Rd -> N.
Variable rd_key : Rd -> Key.
Variable rd_data : Rd -> option RdData.
Variable rd_kwargs : Rd -> KW.

(** the wrapped filter, seen as one prediction step and one update on the pair (state, covariance) *)
Definition pm (ctl : option Ctl) (d : N) (s : St * Cov) : St * Cov := impl_process_model d (fst s) (snd s) ctl.
Definition upd (r : Rd) (s : St * Cov) : St * Cov :=
  impl_sensor_model (fst s) (snd s) (rd_key r)
    (odefault (rd_data r) (impl_make_reading (rd_key r) (rd_kwargs r))).

Notation pypm := (py_process_model N St Cov Ctl impl_process_model cfg_max_dt_sec).
Notation pytick := (py_tick N St Cov Ctl Rd RdData KW Key impl_process_model impl_sensor_model
                      impl_make_reading impl_control_size cfg_max_dt_sec rd_ts rd_key rd_data rd_kwargs).

Lemma py_process_model_is_propagate cur st cov out ctl :
  pypm cur st cov out ctl =
  option_map (fun s => (out, s)) (propagate N (St * Cov) (pm ctl) cfg_max_dt_sec cur (st, cov) out).
Proof.
  unfold py_process_model, propagate, steps, plan, eps9. cbv zeta.
  assert (Em : (if ltb N out cur then Some (opp N cfg_max_dt_sec) else Some cfg_max_dt_sec)
               = Some (if ltb N out cur then opp N cfg_max_dt_sec else cfg_max_dt_sec))
    by (destruct (ltb N out cur); reflexivity).
  rewrite Em; clear Em. cbn [obind].
  set (m := if ltb N out cur then opp N cfg_max_dt_sec else cfg_max_dt_sec).
  destruct (floorZ N (div N (sub N out cur) m)) as [fl|]; [|reflexivity].
  cbn [obind option_map expand].
  rewrite (iterN_ext _ _ (fun s => Some (pm ctl m s))).
  2:{ intros [s c]. unfold pm. cbn [fst snd]. destruct (impl_process_model m s c ctl); reflexivity. }
  rewrite iterN_total. cbn [obind].
  rewrite (iter_fold_repeat (fun s d => pm ctl d s)).
  rewrite fold_left_app.
  set (s1 := fold_left (fun s d => pm ctl d s) (repeat m (Z.to_nat (Z.abs fl))) (st, cov)).
  destruct s1 as [s c].
  set (r := sub N out (add N cur (mul N m (ofZ N (Z.abs fl))))).
  destruct (leb N _ (absv N r)); cbn [obind fold_left option_map].
  - unfold pm at 1. cbn [fst snd]. destruct (impl_process_model r s c ctl); reflexivity.
  - reflexivity.
Qed.

(** tick of the Python runtime = the specification fold, for every history *)
Lemma py_tick_is_spec cur st cov out ctl rs :
  pytick cur st cov out ctl rs =
  if is_none ctl && Z.ltb 0 impl_control_size then None
  else option_map (fun '(h, s) => (s, (fst h, fst (snd h), snd (snd h))))
         (tick_spec N (St * Cov) Rd (pm ctl) upd rd_ts cfg_max_dt_sec (cur, (st, cov)) out (odefault rs [])).
Proof.
  unfold py_tick. destruct (is_none ctl && Z.ltb 0 impl_control_size); [reflexivity|].
  cbv zeta. generalize (odefault rs []) as l. intro l. revert cur st cov.
  induction l as [|r l IH]; intros cur st cov.
  - unfold tick_spec. cbn [ofold obind]. rewrite py_process_model_is_propagate. cbn [fst snd].
    destruct (propagate _ _ _ _ _ _ _); reflexivity.
  - rewrite tick_spec_cons. cbn [ofold]. unfold absorb at 1. cbn [fst snd].
    rewrite py_process_model_is_propagate.
    destruct (propagate N (St * Cov) (pm ctl) cfg_max_dt_sec cur (st, cov) (rd_ts r)) as [[s c]|]; [|reflexivity].
    cbn [option_map obind].
    remember (upd r (s, c)) as u eqn:Eu. unfold upd in Eu. cbn [fst snd] in Eu. rewrite <- Eu.
    destruct u as [s' c']. cbn [obind]. apply IH.
Qed.

(** the C++ runtime, instantiated with the same filter, makes the same calls in the same order *)
Lemma py_tick_eq_cpp_tick cur st cov out ctl rs :
  pytick cur st cov out ctl rs =
  if is_none ctl && Z.ltb 0 impl_control_size then None
  else option_map (fun '(h, s) => (s, (fst h, fst (snd h), snd (snd h))))
         (cpp_tick N (St * Cov) Rd (pm ctl) upd rd_ts cfg_max_dt_sec (cur, (st, cov)) out (odefault rs [])).
Proof. rewrite py_tick_is_spec, cpp_tick_is_spec. reflexivity. Qed.

Lemma py_tick_requires_control cur st cov out rs :
  (0 < impl_control_size)%Z -> pytick cur st cov out None rs = None.
Proof. intro H. rewrite py_tick_is_spec. cbn [is_none andb]. apply Z.ltb_lt in H. now rewrite H. Qed.

(** a tick without readings leaves the held time and estimate exactly as they were *)
Lemma py_tick_no_readings_holds cur st cov out ctl r :
  pytick cur st cov out ctl None = Some r -> snd r = (cur, st, cov).
Proof.
  rewrite py_tick_is_spec. destruct (is_none ctl && _); [discriminate|]. cbn [odefault].
  unfold tick_spec. cbn [ofold obind fst snd].
  destruct (propagate _ _ _ _ _ _ _); cbn [option_map]; [|discriminate].
  intro E. injection E as <-. reflexivity.
Qed.

End PyRuntime.
