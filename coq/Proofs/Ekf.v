(** The EKF formulas REGENERATED from python.py and the C++ templates (gen/EkfA.v) equal the textbook
    specification of Theory/Psd.v; consequences for every dimension. *)
From mathcomp Require Import all_ssreflect all_algebra.
From FV Require Import Theory.Psd Theory.Perturb gen.EkfA.
Set Implicit Arguments. Unset Strict Implicit. Unset Printing Implicit Defensive.
Import Order.Theory GRing.Theory Num.Theory.
Local Open Scope ring_scope.

Section Field.
Variable F : realFieldType.
Variables n c m : nat.

Lemma py_predict_spec (G : 'M[F]_n) (V : 'M[F]_(n, c)) (P : 'M[F]_n) (M : 'M[F]_c) :
  py_process_model_cov G V P M = predict_cov P G V M.
Proof. by rewrite /py_process_model_cov /predict_cov ?mulmxA. Qed.

Lemma cpp_predict_spec (G : 'M[F]_n) (V : 'M[F]_(n, c)) (P : 'M[F]_n) (M : 'M[F]_c) :
  cpp_process_model_cov G V P M = predict_cov P G V M.
Proof. by rewrite /cpp_process_model_cov /predict_cov ?mulmxA. Qed.

Lemma cpp_predict_eq_py (G : 'M[F]_n) (V : 'M[F]_(n, c)) (P : 'M[F]_n) (M : 'M[F]_c) :
  cpp_process_model_cov G V P M = py_process_model_cov G V P M.
Proof. by rewrite py_predict_spec cpp_predict_spec. Qed.

Lemma py_update_spec (rm : 'cV[F]_m -> 'M[F]_m -> bool) (x : 'cV[F]_n) (P : 'M[F]_n) (z hx : 'cV[F]_m)
    (H : 'M[F]_(m, n)) (Q : 'M[F]_m) :
  py_sensor_model rm x P z hx H Q =
  if rm (z - hx) (invmx (innov_cov P H Q)) then ((x, P), (z - hx, innov_cov P H Q))
  else ((update_state P H Q x z hx, update_cov P H Q), (z - hx, innov_cov P H Q)).
Proof.
rewrite /py_sensor_model /innov_cov /update_state /update_cov /kalman_gain /innov_cov ?mulmxA.
by case: (rm _ _).
Qed.

Lemma cpp_update_spec (rm : 'cV[F]_m -> 'M[F]_m -> bool) (x : 'cV[F]_n) (P : 'M[F]_n) (z hx : 'cV[F]_m)
    (H : 'M[F]_(m, n)) (Q : 'M[F]_m) :
  cpp_sensor_model rm x P z hx H Q =
  if rm (z - hx) (invmx (innov_cov P H Q)) then ((x, P), z - hx)
  else ((update_state P H Q x z hx, update_cov P H Q), z - hx).
Proof.
rewrite /cpp_sensor_model /innov_cov /update_state /update_cov /kalman_gain /innov_cov ?mulmxA.
by case: (rm _ _).
Qed.

(** same state, covariance and stored innovation on both sides, for the same decision function *)
Lemma cpp_update_eq_py (rm : 'cV[F]_m -> 'M[F]_m -> bool) (x : 'cV[F]_n) (P : 'M[F]_n) (z hx : 'cV[F]_m) (H : 'M[F]_(m, n)) (Q : 'M[F]_m) :
  cpp_sensor_model rm x P z hx H Q =
  let r := py_sensor_model rm x P z hx H Q in (r.1, r.2.1).
Proof. by rewrite py_update_spec cpp_update_spec; case: (rm _ _). Qed.

(** a discarded reading leaves estimate and covariance exactly as they were; the innovation and the
    innovation covariance are recorded whether or not the reading is discarded *)
Lemma py_discard_is_identity (rm : 'cV[F]_m -> 'M[F]_m -> bool) (x : 'cV[F]_n) (P : 'M[F]_n) (z hx : 'cV[F]_m) (H : 'M[F]_(m, n)) (Q : 'M[F]_m) :
  rm (z - hx) (invmx (innov_cov P H Q)) ->
  (py_sensor_model rm x P z hx H Q).1 = (x, P).
Proof. by move=> h; rewrite py_update_spec h. Qed.

Lemma py_records (rm : 'cV[F]_m -> 'M[F]_m -> bool) (x : 'cV[F]_n) (P : 'M[F]_n) (z hx : 'cV[F]_m) (H : 'M[F]_(m, n)) (Q : 'M[F]_m) :
  (py_sensor_model rm x P z hx H Q).2 = (z - hx, innov_cov P H Q).
Proof. by rewrite py_update_spec; case: (rm _ _). Qed.

Lemma cpp_discard_is_identity (rm : 'cV[F]_m -> 'M[F]_m -> bool) (x : 'cV[F]_n) (P : 'M[F]_n) (z hx : 'cV[F]_m) (H : 'M[F]_(m, n)) (Q : 'M[F]_m) :
  rm (z - hx) (invmx (innov_cov P H Q)) ->
  (cpp_sensor_model rm x P z hx H Q).1 = (x, P).
Proof. by move=> h; rewrite cpp_update_spec h. Qed.

(** consequences, for a valid prior and positive-definite sensor noise *)
Lemma py_update_valid (rm : 'cV[F]_m -> 'M[F]_m -> bool) (x : 'cV[F]_n) (P : 'M[F]_n) (z hx : 'cV[F]_m) (H : 'M[F]_(m, n)) (Q : 'M[F]_m) :
  valid P -> sym Q -> pd Q -> valid (py_sensor_model rm x P z hx H Q).1.2.
Proof.
move=> [sP pP] sQ pQ; rewrite py_update_spec; case: (rm _ _) => //=.
exact: update_valid.
Qed.

Lemma py_update_le_prior (rm : 'cV[F]_m -> 'M[F]_m -> bool) (x : 'cV[F]_n) (P : 'M[F]_n) (z hx : 'cV[F]_m) (H : 'M[F]_(m, n)) (Q : 'M[F]_m) :
  valid P -> sym Q -> pd Q -> psd (P - (py_sensor_model rm x P z hx H Q).1.2).
Proof.
move=> [sP pP] sQ pQ; rewrite py_update_spec; case: (rm _ _) => /=.
- by rewrite subrr; exact: psd0.
- exact: update_le_prior.
Qed.

Lemma py_update_fixed_point (rm : 'cV[F]_m -> 'M[F]_m -> bool) (x : 'cV[F]_n) (P : 'M[F]_n) (z : 'cV[F]_m) (H : 'M[F]_(m, n)) (Q : 'M[F]_m) :
  (py_sensor_model rm x P z z H Q).1.1 = x.
Proof. by rewrite py_update_spec; case: (rm _ _) => //=; rewrite update_fixed_point. Qed.

(** an accepted reading changes the covariance in a way that does not depend on the reading, the predicted reading
    or the state: in particular a reading equal to the prediction (zero innovation) still gives P - K H P *)
Lemma py_update_cov_independent (rm : 'cV[F]_m -> 'M[F]_m -> bool) (x x' : 'cV[F]_n) (P : 'M[F]_n) (z hx z' hx' : 'cV[F]_m) (H : 'M[F]_(m, n)) (Q : 'M[F]_m) :
  ~~ rm (z - hx) (invmx (innov_cov P H Q)) -> ~~ rm (z' - hx') (invmx (innov_cov P H Q)) ->
  (py_sensor_model rm x P z hx H Q).1.2 = (py_sensor_model rm x' P z' hx' H Q).1.2 /\
  (py_sensor_model rm x P z hx H Q).1.2 = update_cov P H Q.
Proof. by move=> /negbTE h1 /negbTE h2; rewrite !py_update_spec h1 h2. Qed.

Lemma py_predict_valid (G : 'M[F]_n) (V : 'M[F]_(n, c)) (P : 'M[F]_n) (M : 'M[F]_c) :
  valid P -> valid M -> valid (py_process_model_cov G V P M).
Proof. by move=> vP vM; rewrite py_predict_spec; exact: predict_valid. Qed.

End Field.

(** * Valid covariance in, valid covariance out, along any history (C09) *)
Section History.
Variable F : realFieldType.
Variable n : nat.

Inductive op :=
| Predict (c : nat) (G : 'M[F]_n) (V : 'M[F]_(n, c)) (M : 'M[F]_c)
| Update (m : nat) (rm : 'cV[F]_m -> 'M[F]_m -> bool) (x : 'cV[F]_n) (z hx : 'cV[F]_m) (H : 'M[F]_(m, n)) (Q : 'M[F]_m).

Definition op_ok (o : op) : Prop :=
  match o with
  | Predict _ _ _ M => valid M
  | Update _ _ _ _ _ _ Q => sym Q /\ pd Q
  end.

(** one step of the regenerated Python filter on the covariance *)
Definition step (P : 'M[F]_n) (o : op) : 'M[F]_n :=
  match o with
  | Predict _ G V M => py_process_model_cov G V P M
  | Update _ rm x z hx H Q => (py_sensor_model rm x P z hx H Q).1.2
  end.

Lemma step_valid P o : valid P -> op_ok o -> valid (step P o).
Proof.
case: o => [c G V M|m rm x z hx H Q] vP /=.
- by move=> vM; exact: py_predict_valid.
- by case=> sQ pQ; exact: py_update_valid.
Qed.

Fixpoint all_ok (ops : seq op) : Prop :=
  match ops with [::] => True | o :: r => op_ok o /\ all_ok r end.

Theorem history_valid (ops : seq op) (P0 : 'M[F]_n) :
  valid P0 -> all_ok ops -> valid (foldl step P0 ops).
Proof.
elim: ops P0 => [|o ops IH] P0 vP //= [ho hr].
by apply: IH => //; exact: step_valid.
Qed.

(** the same history through the regenerated C++ templates gives the same covariances *)
Definition cpp_step (P : 'M[F]_n) (o : op) : 'M[F]_n :=
  match o with
  | Predict _ G V M => cpp_process_model_cov G V P M
  | Update _ rm x z hx H Q => (cpp_sensor_model rm x P z hx H Q).1.2
  end.

Lemma cpp_step_eq_py P o : cpp_step P o = step P o.
Proof.
case: o => [c G V M|m rm x z hx H Q] /=; first exact: cpp_predict_eq_py.
by rewrite cpp_update_spec py_update_spec; case: (rm _ _).
Qed.

Theorem cpp_history_eq_py (ops : seq op) (P0 : 'M[F]_n) : foldl cpp_step P0 ops = foldl step P0 ops.
Proof. by elim: ops P0 => [|o ops IH] P0 //=; rewrite cpp_step_eq_py IH. Qed.

Theorem cpp_history_valid (ops : seq op) (P0 : 'M[F]_n) :
  valid P0 -> all_ok ops -> valid (foldl cpp_step P0 ops).
Proof. by move=> vP ok; rewrite cpp_history_eq_py; exact: history_valid. Qed.

(** how a defect D of the covariance (rounding made earlier) travels through one accepted step: by congruence
    with the step's transition matrix (exact; for the update the left factor uses the gain at the perturbed
    covariance).  The C09 history harness carries the bound E' = F E F^T + (new rounding) built on this. *)
Theorem predict_step_perturbation c (G : 'M[F]_n) (V : 'M[F]_(n, c)) (M : 'M[F]_c) (P D : 'M[F]_n) :
  step (P + D) (Predict G V M) - step P (Predict G V M) = G *m D *m G^T.
Proof. by rewrite /= !py_predict_spec predict_perturbation addrC addKr. Qed.

Theorem update_step_perturbation m (x : 'cV[F]_n) (z hx : 'cV[F]_m) (H : 'M[F]_(m, n)) (Q : 'M[F]_m) (P D : 'M[F]_n) :
  sym P -> sym Q -> innov_cov P H Q \in unitmx -> innov_cov (P + D) H Q \in unitmx ->
  step (P + D) (Update (fun _ _ => false) x z hx H Q) - step P (Update (fun _ _ => false) x z hx H Q) =
  (1%:M - kalman_gain (P + D) H Q *m H) *m D *m (1%:M - kalman_gain P H Q *m H)^T.
Proof.
move=> sP sQ u1 u2; rewrite /step !py_update_spec /=.
by rewrite (update_perturbation sP sQ u1 u2) [P + D - P]addrC addKr.
Qed.

(** the numerically preferable Joseph form is the same matrix as the form the filter computes *)
Theorem update_is_joseph m (x : 'cV[F]_n) (z hx : 'cV[F]_m) (H : 'M[F]_(m, n)) (Q : 'M[F]_m) (P : 'M[F]_n) :
  sym P -> sym Q -> innov_cov P H Q \in unitmx ->
  step P (Update (fun _ _ => false) x z hx H Q) =
  (1%:M - kalman_gain P H Q *m H) *m P *m (1%:M - kalman_gain P H Q *m H)^T + kalman_gain P H Q *m Q *m (kalman_gain P H Q)^T.
Proof. by move=> sP sQ u; rewrite /step py_update_spec /= (joseph_form sP sQ u). Qed.

(** the validity gate never refuses a positive semi-definite covariance: every real eigenvalue of a
    PSD matrix is >= 0 >= negative_tol * scale whenever negative_tol <= 0 <= scale *)
Theorem gate_accepts_psd (P : 'M[F]_n) (v : 'cV[F]_n) (lam tol scale : F) :
  psd P -> v != 0 -> P *m v = lam *: v -> tol <= 0 -> 0 <= scale -> ~~ (lam < tol * scale).
Proof.
move=> pP v0 ev t0 s0; rewrite -leNgt.
apply: (le_trans _ (psd_eigen_ge0 pP v0 ev)).
by rewrite mulr_le0_ge0.
Qed.

End History.

(** * The innovation filter (C06), over a real closed field *)
Section Rcf.
Variable R : rcfType.
Variable m : nat.

Lemma py_remove_iff (k : R) (z : 'cV[R]_m) (Sinv : 'M[R]_m) :
  py_remove_innovation (Some k) z Sinv = (k * Num.sqrt (2%:R * m%:R) + m%:R < (z^T *m Sinv *m z) 0 0).
Proof. by rewrite /py_remove_innovation ?mulmxA. Qed.

Lemma py_remove_disabled (z : 'cV[R]_m) (Sinv : 'M[R]_m) : py_remove_innovation None z Sinv = false.
Proof. by []. Qed.

Lemma cpp_remove_iff (k : R) (z : 'cV[R]_m) (Sinv : 'M[R]_m) :
  cpp_remove_innovation k z Sinv = (k * Num.sqrt (2%:R * m%:R) + m%:R < (z^T *m Sinv *m z) 0 0).
Proof. by rewrite /cpp_remove_innovation ?mulmxA. Qed.

Lemma cpp_remove_disabled (k : R) (z : 'cV[R]_m) (Sinv : 'M[R]_m) :
  k <= 0 -> cpp_filter_remove k z Sinv = false.
Proof. by rewrite /cpp_filter_remove ltNge => ->. Qed.

(** Python, the C++ helper and the generated C++ filter take the same decision *)
Lemma remove_same_decision (k : R) (z : 'cV[R]_m) (Sinv : 'M[R]_m) :
  0 < k ->
  py_remove_innovation (Some k) z Sinv = cpp_remove_innovation k z Sinv /\
  cpp_filter_remove k z Sinv = cpp_remove_innovation k z Sinv.
Proof. by move=> k0; rewrite py_remove_iff cpp_remove_iff /cpp_filter_remove k0. Qed.

End Rcf.
