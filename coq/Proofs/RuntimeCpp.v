(** The time arithmetic REGENERATED from ManagedFilter.h (gen/RuntimeCppGen.v) is the hand model of
    Model/RuntimeCpp.v, for both processUpdate overloads; hence it applies the specified steps. *)
From Coq Require Import ZArith QArith List Bool PrimFloat.
From FV Require Import Base.Num Model.Runtime Model.RuntimeCpp gen.RuntimeCppGen.
Import ListNotations.

Section P.
Variable N : Num.
Variable SV : Type.
Variable pmc : N -> SV -> SV.
Variable tag_max_dt : N.

Lemma gen_ctl_is_model cur st out :
  cpp_process_update_ctl N SV pmc tag_max_dt cur st out = cpp_process_update N SV pmc tag_max_dt cur st out.
Proof. reflexivity. Qed.

Lemma gen_noctl_is_model cur st out :
  cpp_process_update_noctl N SV pmc tag_max_dt cur st out = cpp_process_update N SV pmc tag_max_dt cur st out.
Proof. reflexivity. Qed.

Lemma gen_ctl_moves_by_steps cur st out :
  cpp_process_update_ctl N SV pmc tag_max_dt cur st out =
  option_map (fun s => (out, s)) (propagate N SV pmc tag_max_dt cur st out).
Proof. rewrite gen_ctl_is_model. apply cpp_process_update_is_propagate. Qed.

Lemma gen_noctl_moves_by_steps cur st out :
  cpp_process_update_noctl N SV pmc tag_max_dt cur st out =
  option_map (fun s => (out, s)) (propagate N SV pmc tag_max_dt cur st out).
Proof. rewrite gen_noctl_is_model. apply cpp_process_update_is_propagate. Qed.
End P.
