(** Side conditions on the parameters REGENERATED from python.py (gen/LayoutParams.v) and the by-name
    theorems instantiated with them. *)
From Coq Require Import String List Bool Arith Lia.
From FV Require Import Base.Names Base.Expr Model.BasicBlock Model.Layout Model.Jacobian gen.LayoutParams.
Import ListNotations.

Lemma scope_ok : forall i ts, prefix_scope i ts = firstn i ts.
Proof. intros; unfold prefix_scope; first [reflexivity | f_equal; lia]. Qed.

Lemma model_orders_agree : model_call_order = model_arglist_order.
Proof. reflexivity. Qed.
Lemma sensor_orders_agree : sensor_call_order = sensor_arglist_order.
Proof. reflexivity. Qed.
Lemma process_jac_orders_agree : process_jac_call_order = model_arglist_order.
Proof. reflexivity. Qed.
Lemma control_jac_orders_agree : control_jac_call_order = model_arglist_order.
Proof. reflexivity. Qed.
Lemma sensor_jac_orders_agree : sensor_jac_call_order = ekf_sensor_arglist_order.
Proof. reflexivity. Qed.

(** un-flattening: stride = number of symbolic columns; loops cover exactly the result array *)
Lemma process_idx_ok st ct cal ss r c : process_jac_idx st ct cal ss r c = r * process_jac_symcols st ct cal ss + c.
Proof. unfold process_jac_idx, process_jac_symcols; first [reflexivity | lia | nia]. Qed.
Lemma control_idx_ok st ct cal ss r c : control_jac_idx st ct cal ss r c = r * control_jac_symcols st ct cal ss + c.
Proof. unfold control_jac_idx, control_jac_symcols; first [reflexivity | lia | nia]. Qed.
Lemma sensor_idx_ok st ct cal ss r c : sensor_jac_idx st ct cal ss r c = r * sensor_jac_symcols st ct cal ss + c.
Proof. unfold sensor_jac_idx, sensor_jac_symcols; first [reflexivity | lia | nia]. Qed.

Lemma jac_shapes_ok st ct cal ss :
  process_jac_rows st ct cal ss = st /\ process_jac_cols st ct cal ss = st /\
  process_jac_row_range st ct cal ss = st /\ process_jac_col_range st ct cal ss = st /\
  control_jac_rows st ct cal ss = st /\ control_jac_cols st ct cal ss = ct /\
  control_jac_row_range st ct cal ss = st /\ control_jac_col_range st ct cal ss = ct /\
  sensor_jac_rows st ct cal ss = ss /\ sensor_jac_cols st ct cal ss = st /\
  sensor_jac_row_range st ct cal ss = ss /\ sensor_jac_col_range st ct cal ss = st.
Proof. repeat split; reflexivity. Qed.

Section Gen.
Variable T : Type.
Variable ev : (name -> option T) -> expr -> option T.

(** python.Model.model with the regenerated orders *)
Theorem gen_py_model_spec (d : defn) prefix body (i : inputs T) :
  shapes_ok T d i ->
  cse_contract T ev (arglist d model_arglist_order) (map (d_model d) (d_S d)) prefix body ->
  py_model T ev prefix_scope d model_arglist_order model_call_order prefix body i =
  option_map (combine (d_S d))
    (all_some (map (fun x => ev (named_env T d i model_arglist_order) (d_model d x)) (d_S d))).
Proof. rewrite model_orders_agree. apply py_model_spec. exact scope_ok. Qed.

Theorem gen_py_model_by_name (d : defn) prefix body (i : inputs T) r k x :
  shapes_ok T d i -> NoDup (d_S d) ->
  cse_contract T ev (arglist d model_arglist_order) (map (d_model d) (d_S d)) prefix body ->
  py_model T ev prefix_scope d model_arglist_order model_call_order prefix body i = Some r ->
  nth_error (d_S d) k = Some x ->
  option_map Some (lookup x r) = Some (ev (named_env T d i model_arglist_order) (d_model d x)).
Proof. rewrite model_orders_agree. apply py_model_by_name. exact scope_ok. Qed.

(** CSE on or off: same result (any two programs satisfying the contract) *)
Theorem gen_py_model_cse_indep (d : defn) p1 b1 p2 b2 (i : inputs T) :
  shapes_ok T d i ->
  cse_contract T ev (arglist d model_arglist_order) (map (d_model d) (d_S d)) p1 b1 ->
  cse_contract T ev (arglist d model_arglist_order) (map (d_model d) (d_S d)) p2 b2 ->
  py_model T ev prefix_scope d model_arglist_order model_call_order p1 b1 i =
  py_model T ev prefix_scope d model_arglist_order model_call_order p2 b2 i.
Proof. intros Sh C1 C2. rewrite !gen_py_model_spec by assumption. reflexivity. Qed.

(** SensorModel.model: predictions in sorted reading order *)
Theorem gen_py_sensor_spec (d : defn) (reading_exprs : list expr) prefix body (i : inputs T) :
  shapes_ok T d i ->
  cse_contract T ev (arglist d sensor_arglist_order) reading_exprs prefix body ->
  py_block T ev prefix_scope d sensor_arglist_order sensor_call_order prefix body i =
  all_some (map (ev (named_env T d i sensor_arglist_order)) reading_exprs).
Proof. rewrite sensor_orders_agree. apply py_block_spec. exact scope_ok. Qed.

Variable D : expr -> name -> expr.

Theorem gen_process_jacobian_by_name (d : defn) prefix body (i : inputs T) J r c y x ss :
  let st := length (d_S d) in let ct := length (d_U d) in let cal := length (d_C d) in
  shapes_ok T d i ->
  cse_contract T ev (arglist d model_arglist_order)
     (jac_exprs D (map (d_model d) (d_S d)) (d_S d)) prefix body ->
  py_jacobian T ev prefix_scope d model_arglist_order process_jac_call_order prefix body i
     (process_jac_row_range st ct cal ss) (process_jac_col_range st ct cal ss) (process_jac_idx st ct cal ss) = Some J ->
  nth_error (d_S d) r = Some y -> nth_error (d_S d) c = Some x ->
  exists row v, nth_error J r = Some row /\ nth_error row c = Some (Some v) /\
                ev (named_env T d i model_arglist_order) (D (d_model d y) x) = Some v.
Proof.
  intros st ct cal Sh C E Hr Hc. rewrite process_jac_orders_agree in E.
  eapply (py_jacobian_by_name T ev prefix_scope scope_ok D d model_arglist_order
            (map (d_model d) (d_S d)) (d_S d)); try eassumption.
  - intros r0 c0. rewrite process_idx_ok. reflexivity.
  - now rewrite map_length.
  - apply Nat.le_refl.
  - rewrite nth_error_map, Hr. reflexivity.
  - apply nth_error_Some. unfold process_jac_col_range, st. congruence.
Qed.

Theorem gen_control_jacobian_by_name (d : defn) prefix body (i : inputs T) J r c y u ss :
  let st := length (d_S d) in let ct := length (d_U d) in let cal := length (d_C d) in
  shapes_ok T d i ->
  cse_contract T ev (arglist d model_arglist_order)
     (jac_exprs D (map (d_model d) (d_S d)) (d_U d)) prefix body ->
  py_jacobian T ev prefix_scope d model_arglist_order control_jac_call_order prefix body i
     (control_jac_row_range st ct cal ss) (control_jac_col_range st ct cal ss) (control_jac_idx st ct cal ss) = Some J ->
  nth_error (d_S d) r = Some y -> nth_error (d_U d) c = Some u ->
  exists row v, nth_error J r = Some row /\ nth_error row c = Some (Some v) /\
                ev (named_env T d i model_arglist_order) (D (d_model d y) u) = Some v.
Proof.
  intros st ct cal Sh C E Hr Hc. rewrite control_jac_orders_agree in E.
  eapply (py_jacobian_by_name T ev prefix_scope scope_ok D d model_arglist_order
            (map (d_model d) (d_S d)) (d_U d)); try eassumption.
  - intros r0 c0. rewrite control_idx_ok. reflexivity.
  - now rewrite map_length.
  - apply Nat.le_refl.
  - rewrite nth_error_map, Hr. reflexivity.
  - apply nth_error_Some. unfold control_jac_col_range, ct. congruence.
Qed.

(** sensor Jacobian: rectangular (readings x states), flattened with state+calibration columns *)
Theorem gen_sensor_jacobian_by_name (d : defn) (reading_exprs : list expr) prefix body (i : inputs T) J r c e x :
  let st := length (d_S d) in let ct := length (d_U d) in let cal := length (d_C d) in
  let ss := length reading_exprs in
  shapes_ok T d i ->
  cse_contract T ev (arglist d ekf_sensor_arglist_order)
     (jac_exprs D reading_exprs (arglist d ekf_sensor_arglist_order)) prefix body ->
  py_jacobian T ev prefix_scope d ekf_sensor_arglist_order sensor_jac_call_order prefix body i
     (sensor_jac_row_range st ct cal ss) (sensor_jac_col_range st ct cal ss) (sensor_jac_idx st ct cal ss) = Some J ->
  nth_error reading_exprs r = Some e -> nth_error (d_S d) c = Some x ->
  exists row v, nth_error J r = Some row /\ nth_error row c = Some (Some v) /\
                ev (named_env T d i ekf_sensor_arglist_order) (D e x) = Some v.
Proof.
  intros st ct cal ss Sh C E Hr Hc. rewrite sensor_jac_orders_agree in E.
  assert (Hlen : length (arglist d ekf_sensor_arglist_order) = st + cal).
  { cbn. now rewrite app_nil_r, app_length. }
  eapply (py_jacobian_by_name T ev prefix_scope scope_ok D d ekf_sensor_arglist_order
            reading_exprs (arglist d ekf_sensor_arglist_order)); try eassumption.
  - intros r0 c0. rewrite sensor_idx_ok, Hlen. reflexivity.
  - reflexivity.
  - rewrite Hlen. unfold sensor_jac_col_range. lia.
  - cbn. rewrite app_nil_r, nth_error_app1; [exact Hc|]. apply nth_error_Some. congruence.
  - apply nth_error_Some. unfold sensor_jac_col_range, st. congruence.
Qed.

End Gen.
