#!/bin/sh
# try_patch.sh <patch.diff> <Cxx> [<Cxx> ...]: run quick checks against a scratch worktree of /repo with the patch applied,
# from a scratch copy of this directory; both are removed afterwards.  Nothing is applied to /repo.
set -u
D=$(cd "$(dirname "$0")/.." && pwd)
P=$(realpath "$1"); shift
T=/var/tmp/tp.$$
mkdir -p $T
git -C /repo worktree prune
git -C /repo worktree add -q --detach $T/repo HEAD || exit 2
( cd $T/repo && git apply "$P" ) || { echo "patch does not apply"; git -C /repo worktree remove --force $T/repo; rm -rf $T; exit 2; }
rsync -a --exclude .git --exclude replays --exclude seeded "$D"/ $T/verif/
mkdir -p $T/verif/replays
for c in "$@"; do
  ( cd $T/verif && VERIF_REPO=$T/repo ./check $c --tier quick 2>&1 | grep -E "^VIOLATION|^KNOWN|tier=quick" | cut -c1-220 )
  for f in $T/verif/replays/$c/*.json; do
    [ -f "$f" ] && python3 - "$f" <<'PY'
import json,sys
d=json.load(open(sys.argv[1]))
print("   replay:", d.get("what","")[:260])
for b in d.get("broken_obligations",[])[:3]:
    print("   broken:", b.get("kind"), str(b.get("name"))[:160])
PY
  done
done
git -C /repo worktree remove --force $T/repo
rm -rf $T
