#!/bin/sh
# regenerate every coq/gen/*.v from /repo's current working tree
D=$(cd "$(dirname "$0")/.." && pwd); cd /repo && for t in $D/tools/translate/gen_*.py; do PYTHONPATH=/repo/py FORMAK_VERIF=1 PYTHONHASHSEED=0 MPLBACKEND=Agg /venv/bin/python $t /repo $D/coq/gen || echo "translator $t failed closed"; done
