#!/bin/sh
# regenerate every coq/gen/*.v from /repo's current working tree
cd /repo && for t in /verif/tools/translate/gen_*.py; do PYTHONPATH=/repo/py FORMAK_VERIF=1 PYTHONHASHSEED=0 MPLBACKEND=Agg /venv/bin/python $t /repo /verif/coq/gen || echo "translator $t failed closed"; done
