"""Confirm every incoming seeded change in a scratch worktree: the demonstration passes on the unchanged tree and fails
with the patch; the repository's baseline tests still pass with the patch.  Then move it to /verif/seeded/<id>/."""
import json, os, shutil, subprocess, sys, xml.etree.ElementTree as ET
from concurrent.futures import ThreadPoolExecutor

INC = sys.argv[1] if len(sys.argv) > 1 else "/var/tmp/seed2"        # where the agents left <id>_patchX.diff, _demoX.*, _metaX.json
SV = "/var/tmp/sv"
BASE = json.load(open("/root/.vp/BASELINE.json"))["stable_pass"]


def sh(cmd, cwd=None, env=None, timeout=2400):
    r = subprocess.run(cmd, shell=True, cwd=cwd, env=env, capture_output=True, text=True, timeout=timeout)
    return r.returncode, (r.stdout + r.stderr)


def tests(wt, tag):
    junit = f"/var/tmp/sv/{tag}.xml"
    env = dict(os.environ, PYTHONDONTWRITEBYTECODE="1")
    env.pop("FORMAK_VERIF", None)
    rc, out = sh(f"/venv/bin/python -m pytest -ra -q -p no:cacheprovider --timeout=900 --continue-on-collection-errors --junitxml={junit}", cwd=wt, env=env)
    res = {}
    try:
        for tc in ET.parse(junit).iter("testcase"):
            name = tc.get("classname") + "::" + tc.get("name")
            res[name] = "fail" if any(c.tag in ("failure", "error") for c in tc) else ("skip" if any(c.tag == "skipped" for c in tc) else "pass")
    except Exception:
        pass
    return res, out.strip().splitlines()[-1] if out.strip() else ""


def one(name):
    pid, tag = name.split("_patch")
    letter = tag[0]
    wt = f"/var/tmp/sv/{pid}{letter}"
    shutil.rmtree(wt, ignore_errors=True)
    sh(f"git -C /repo worktree prune; git -C /repo worktree add -q --detach {wt} HEAD")
    import glob
    demos = glob.glob(f"{INC}/{pid}_demo{letter}.*")
    demo = demos[0] if demos else f"{INC}/{pid}_demo{letter}.py"
    runner = {"py": "/venv/bin/python", "sh": "bash"}.get(demo.rsplit(".", 1)[-1], "/venv/bin/python")
    env = dict(os.environ, PYTHONPATH=f"{wt}/py", MPLBACKEND="Agg", PYTHONDONTWRITEBYTECODE="1")
    out = {"id": f"{pid}{letter}", "property": pid}
    try:
        rc0, o0 = sh(f"{runner} {demo} {wt}", cwd=wt, env=env)
        rca, oa = sh(f"git apply {INC}/{name}.diff", cwd=wt)
        rc1, o1 = sh(f"{runner} {demo} {wt}", cwd=wt, env=env)
        res, line = tests(wt, f"{pid}{letter}")
        missing = [t for t in BASE if res.get(t) != "pass"]
        out.update({"demo_before_exit": rc0, "demo_before_tail": o0.strip().splitlines()[-1:] , "apply_exit": rca, "demo_after_exit": rc1,
                    "demo_after_tail": o1.strip().splitlines()[-3:], "tests_summary_with_patch": line, "baseline_tests_not_passing_with_patch": missing,
                    "confirmed": rc0 == 0 and rca == 0 and rc1 != 0 and not missing})
    finally:
        sh(f"git -C /repo worktree remove --force {wt}")
    return out


def main():
    os.makedirs("/var/tmp/sv", exist_ok=True)
    names = sorted(f[:-5] for f in os.listdir(INC) if f.endswith(".diff") and "_patch" in f and "foreign" not in f)
    with ThreadPoolExecutor(max_workers=6) as ex:
        results = list(ex.map(one, names))
    json.dump(results, open(f"{INC}/verify_results.json", "w"), indent=1)
    for r in results:
        print(r["id"], "CONFIRMED" if r["confirmed"] else "NOT-CONFIRMED", r["demo_before_exit"], r["demo_after_exit"], r["tests_summary_with_patch"], r["baseline_tests_not_passing_with_patch"][:2])
    shutil.rmtree("/var/tmp/sv", ignore_errors=True)


main()
