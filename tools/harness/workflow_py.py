"""The design workflow on the real classes.
in : {"searches": bool, "runs": [{"grid": {...}, "n_rows": int, "seed": int}]}
out: {"search": {"Start->Fit_Model": [..] | "ValueError" ...}, "non_state": {...}, "runs": [...]}"""
import json, sys
import numpy as np
from sympy import Symbol
from formak import python, ui
from formak.exceptions import ModelFitError
from formak import ui_state_machine as sm


class RecordingGridSearch(sm.GridSearchCV):
    """keeps the last fitted search so that the harness can read the parameter points and their scores"""
    last = None

    def fit(self, *a, **kw):
        r = super().fit(*a, **kw)
        RecordingGridSearch.last = self
        return r


sm.GridSearchCV = RecordingGridSearch


def independent_scores(search, data, model, a, x):
    """every parameter point of the grid scored again by an adapter CONSTRUCTED with exactly those hyper-parameters
    (python.Config(...) passed to Create, no set_params / clone involved), same splitter and scorer"""
    from sklearn.model_selection import cross_val_score
    rows = []
    for params, grid_score in zip(search.cv_results_["params"], search.cv_results_["mean_test_score"]):
        cfg = python.Config(innovation_filtering=params["innovation_filtering"], max_dt_sec=params["max_dt_sec"])
        est = python.SklearnEKFAdapter.Create(symbolic_model=model, process_noise=params["process_noise"], sensor_models=params["sensor_models"],
                                              sensor_noises=params["sensor_noises"], calibration_map=params["calibration_map"], config=cfg)
        try:
            sc = float(np.mean(cross_val_score(est, data, cv=search.cv, scoring=search.scoring, error_score="raise")))
        except Exception as e:  # noqa
            sc = "raised:" + type(e).__name__
        rows.append({"innovation_filtering": params["innovation_filtering"], "max_dt_sec": params["max_dt_sec"],
                     "grid_score": float(grid_score), "independent_score": sc})
    return rows


def small_model():
    dt, x, v, a = Symbol("dt"), Symbol("x"), Symbol("v"), Symbol("a")
    return ui.Model(dt=dt, state={x, v}, control={a}, state_model={x: x + dt * v, v: v + dt * a}), (x, v, a)


def instances():
    model, (x, v, a) = small_model()
    mgr = sm.DesignManager(name="m")
    sym = mgr.symbolic_model(model=model)
    return {"Start": mgr, "Symbolic_Model": sym}, model, (x, v, a)


def main():
    inp = json.load(open(sys.argv[1]))
    out = {"search": {}, "non_state": {}, "follow": {}, "runs": []}
    inst, model, (x, v, a) = instances()
    rng = np.random.default_rng(0)
    # a fitted state for searches that start from Fit_Model
    space = {"process_noise": [{a: 0.5}], "sensor_models": [{"pos": {"p": x}}], "sensor_noises": [{"pos": {"p": 0.5}}], "calibration_map": [{}],
             "innovation_filtering": [None]}
    try:
        inst["Fit_Model"] = inst["Symbolic_Model"].fit_model(parameter_space=dict(space), data=rng.normal(size=(6, 2)))
    except Exception as e:  # noqa
        out["fit_state_error"] = type(e).__name__ + ": " + str(e)[:300]
    for sname, obj in inst.items():
        for t in sm.StateId:
            try:
                p = obj.search(t, debug=False)
                out["search"][f"{sname}->{t.name}"] = list(p)
                # follow by return annotations, as a user would call them in order
                import inspect
                cur = type(obj)
                for n in p:
                    cur = inspect.signature(getattr(cur, n)).return_annotation
                out["follow"][f"{sname}->{t.name}"] = cur.state_id().name
            except ValueError:
                out["search"][f"{sname}->{t.name}"] = "ValueError"
            except Exception as e:  # noqa
                out["search"][f"{sname}->{t.name}"] = "other:" + type(e).__name__
        for bad in (1, "Fit_Model", None):
            try:
                obj.search(bad, debug=False)
                out["non_state"][f"{sname}:{bad!r}"] = "returned"
            except ValueError:
                out["non_state"][f"{sname}:{bad!r}"] = "ValueError"
            except Exception as e:  # noqa
                out["non_state"][f"{sname}:{bad!r}"] = "other:" + type(e).__name__
    out["history"] = {k: [h.name for h in o.history()] for k, o in inst.items()}
    # branching / repeated transitions must not disturb recorded histories
    mgr2 = sm.DesignManager(name="b")
    s1 = mgr2.symbolic_model(model=model)
    s2 = mgr2.symbolic_model(model=model)
    try:
        s1.fit_model(parameter_space=dict(space), data=rng.normal(size=(2, 2)))
        out["too_small"] = "accepted"
    except ModelFitError:
        out["too_small"] = "ModelFitError"
    except Exception as e:  # noqa
        out["too_small"] = "other:" + type(e).__name__
    out["history_branch"] = {"manager": [h.name for h in mgr2.history()], "first": [h.name for h in s1.history()], "second": [h.name for h in s2.history()]}
    for n_rows in (0, 1, 2):
        try:
            mgr2.symbolic_model(model=model).fit_model(parameter_space=dict(space), data=rng.normal(size=(n_rows, 2)))
            out[f"rows_{n_rows}"] = "accepted"
        except ModelFitError:
            out[f"rows_{n_rows}"] = "ModelFitError"
        except Exception as e:  # noqa
            out[f"rows_{n_rows}"] = "other:" + type(e).__name__
    for r in inp.get("runs", []):
        g = r["grid"]
        sp = {"process_noise": [{a: q} for q in g["process_noise"]], "sensor_models": [{"pos": {"p": x}}],
              "sensor_noises": [{"pos": {"p": q}} for q in g["sensor_noise"]], "calibration_map": [{}],
              "innovation_filtering": g["innovation_filtering"], "max_dt_sec": g["max_dt_sec"]}
        data = np.random.default_rng(r["seed"]).normal(size=(r["n_rows"], 2))
        try:
            st = sm.DesignManager(name="r").symbolic_model(model=model).fit_model(parameter_space=sp, data=data)
            ekf = st.export_python()
            est = st.fit_estimator
            search = RecordingGridSearch.last
            out["runs"].append({"history": [h.name for h in st.history()],
                                "best_params": {"innovation_filtering": search.best_params_["innovation_filtering"], "max_dt_sec": search.best_params_["max_dt_sec"]},
                                "candidates": independent_scores(search, data, model, a, x),
                                "exported": {"innovation_filtering": ekf.config.innovation_filtering, "max_dt_sec": ekf.config.max_dt_sec,
                                             "process_noise": float(ekf.process_noise[0, 0]), "sensor_noise": float(ekf.sensor_noises["pos"].data[0, 0])},
                                "selected": {"innovation_filtering": est.config.innovation_filtering, "max_dt_sec": est.config.max_dt_sec,
                                             "process_noise": float(list(est.process_noise.values())[0]), "sensor_noise": float(est.sensor_noises["pos"]["p"])}})
        except Exception as e:  # noqa
            import traceback
            out["runs"].append({"error": type(e).__name__ + ": " + str(e)[:300], "tb": traceback.format_exc()[-800:]})
    json.dump(out, open(sys.argv[2], "w"))


main()
