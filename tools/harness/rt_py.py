"""Run the real formak.runtime.ManagedFilter with a call-recording filter on histories.
in: {"histories": [{"max_dt": hex, "control_size": int, "start": hex, "ticks": [{"out": hex, "control": bool,
      "readings": null | [[ts_hex, key], ...]}]}]}
out: {"results": [[tick_obs, ...], ...]}  tick_obs = null (raised) | {"ret": rle, "held_t": hex, "held": rle}
rle = [[kind, value_hex, count], ...]; kind 0 = process_model(dt), kind 1+key = sensor_model(key)."""
import json, sys
from types import SimpleNamespace
from formak import runtime


class Rec:
    def __init__(self, max_dt, control_size):
        self.config = SimpleNamespace(max_dt_sec=max_dt)
        self.control_size = control_size

    def process_model(self, dt, state, covariance, control=None):
        return state + ((0, float(dt).hex()),), covariance

    def sensor_model(self, *, state, covariance, sensor_key, sensor_reading):
        assert sensor_reading == ("reading", sensor_key)
        return state + ((1 + sensor_key, (0.0).hex()),), covariance

    def make_reading(self, key, **kwargs):
        return ("reading", key)


def rle(tr):
    out = []
    for k, v in tr:
        if out and out[-1][0] == k and out[-1][1] == v:
            out[-1][2] += 1
        else:
            out.append([k, v, 1])
    return out


def run_history(h):
    impl = Rec(float.fromhex(h["max_dt"]), h["control_size"])
    mf = runtime.ManagedFilter(impl, float.fromhex(h["start"]), (), "cov")
    res = []
    for t in h["ticks"]:
        rs = None
        if t["readings"] is not None:
            rs = [runtime.StampedReading(float.fromhex(ts), key) for ts, key in t["readings"]]
        try:
            r = mf.tick(float.fromhex(t["out"]), control=("ctl" if t["control"] else None), readings=rs)
        except TypeError:
            res.append(None)
            continue
        except (OverflowError, ValueError, ZeroDivisionError):
            res.append(None)
            continue
        res.append({"ret": rle(r.state), "held_t": float(mf.current_time).hex(), "held": rle(mf.state)})
    return res


def main():
    inp = json.load(open(sys.argv[1]))
    out = {"results": [run_history(h) for h in inp["histories"]]}
    json.dump(out, open(sys.argv[2], "w"))


main()
