"""Decisions of python.ExtendedKalmanFilter.remove_innovation on explicit (k, innovation, S_inv) cases.
in: {"cases": [{"k": float|null, "z": [..], "Sinv": [[..]]}]}  out: {"results": [bool | {"_raised": ...}]}"""
import json, sys
import numpy as np
from sympy import Symbol
from formak import python, ui

_cache = {}


def ekf_for(k):
    if k not in _cache:
        dt, x = Symbol("dt"), Symbol("x")
        m = ui.Model(dt=dt, state={x}, control=set(), state_model={x: x})
        _cache[k] = python.compile_ekf(m, {}, {"s": {"r": x}}, {"s": {"r": 1.0}}, config=python.Config(innovation_filtering=k))
    return _cache[k]


def main():
    inp = json.load(open(sys.argv[1]))
    out = []
    for c in inp["cases"]:
        ekf = ekf_for(c["k"])
        z = np.array([[float.fromhex(v)] for v in c["z"]])
        S = np.array([[float.fromhex(v) for v in row] for row in c["Sinv"]])
        try:
            out.append(bool(ekf.remove_innovation(z, S)))
        except Exception as e:  # noqa
            out.append({"_raised": type(e).__name__ + ": " + str(e)[:200]})
    json.dump({"results": out}, open(sys.argv[2], "w"))


main()
