"""Generate C++ with the real FormaK generator, compile it (g++ -std=c++20, Eigen stand-in, real
innovation_filtering.h / ManagedFilter.h), run a generated driver, return every value by label.

in : {"jobs": [{"defn", "cse", "k": float|null, "max_dt": float, "decl", "points": [...], "keep_text": bool,
               "managed": bool, "only_generate": bool}]}
out: {"results": [{"header_sha","source_sha","compile_ok","compile_err","runs":[{label: float}], "header","source"}]}"""
import hashlib
import json
import os
import shutil
import subprocess
import sys
import traceback

# A simulated calendar date / clock (FV_FAKE_DATE=YYYY-MM-DD), installed BEFORE the project is imported: generated text
# may not depend on when it is generated.
if os.environ.get("FV_FAKE_DATE"):
    import datetime as _dt
    import time as _time
    _y, _m, _d = (int(x) for x in os.environ["FV_FAKE_DATE"].split("-"))

    class _FakeDate(_dt.date):
        @classmethod
        def today(cls):
            return cls(_y, _m, _d)

    class _FakeDateTime(_dt.datetime):
        @classmethod
        def now(cls, tz=None):
            return cls(_y, _m, _d, 12, 0, 0, tzinfo=tz)

        @classmethod
        def utcnow(cls):
            return cls(_y, _m, _d, 12, 0, 0)

        @classmethod
        def today(cls):
            return cls(_y, _m, _d, 12, 0, 0)
    _ts = _dt.datetime(_y, _m, _d, 12, 0, 0).timestamp()
    _dt.date, _dt.datetime = _FakeDate, _FakeDateTime
    _ol, _og, _os, _oc = _time.localtime, _time.gmtime, _time.strftime, _time.ctime
    _time.time = lambda: _ts
    _time.time_ns = lambda: int(_ts * 1e9)
    _time.localtime = lambda s=None: _ol(_ts if s is None else s)
    _time.gmtime = lambda s=None: _og(_ts if s is None else s)
    _time.strftime = lambda fmt, t=None: _os(fmt, _time.localtime() if t is None else t)
    _time.ctime = lambda s=None: _oc(_ts if s is None else s)
    _time.asctime = lambda t=None: _os("%a %b %d %H:%M:%S %Y", _time.localtime() if t is None else t)

sys.path.insert(0, __file__.rsplit("/", 1)[0])
import glue_py as G  # noqa: E402
from formak import cpp  # noqa: E402

VERIF = os.path.dirname(os.path.dirname(os.path.dirname(os.path.abspath(__file__))))
REPO = os.environ.get("VERIF_REPO", "/repo")


def generate(defn, cse, k, max_dt, decl, namespace="fv", cfg=None):
    syms, model, sensors, pn, sn, cm = G.build(defn, decl)
    if cfg is None:
        cfg = cpp.Config(common_subexpression_elimination=cse, innovation_filtering=(k if k is not None else 0.0), max_dt_sec=max_dt)
    gen = cpp._generate_ekf_function_bodies("generated/fv_filter.h", namespace, model, pn, sensors, sn, cm, cfg)
    header = "\n".join(cpp.header_from_ast(generator=gen))
    source = "\n".join(cpp.source_from_ast(generator=gen))
    # rendering again from the same generator object must give the same text
    global LAST_RERENDER
    try:
        h2 = "\n".join(cpp.header_from_ast(generator=gen))
        s2 = "\n".join(cpp.source_from_ast(generator=gen))
        LAST_RERENDER = {"header_same": h2 == header, "source_same": s2 == source}
    except Exception as e:  # noqa
        LAST_RERENDER = {"header_same": False, "source_same": False, "raised": type(e).__name__ + ": " + str(e)[:200]}
    return header, source


LAST_RERENDER = None


def generate_plain(defn, cse, decl, assumptions, namespace="fv"):
    """the model-only generator behind cpp.compile (no filter): struct State / Control / Calibration and Model::model"""
    syms, model, sensors, pn, sn, cm = G.build(defn, decl, assumptions=assumptions)
    cfg = cpp.Config(common_subexpression_elimination=cse)
    gen = cpp._generate_model_function_bodies("generated/fv_filter.h", namespace, model, cm, cfg)
    return "\n".join(cpp.header_from_ast(generator=gen)), "\n".join(cpp.source_from_ast(generator=gen))


def driver_plain(defn, points):
    S, U, C = sorted(defn["state"]), sorted(defn["control"]), sorted(defn["calibration"])
    L = ['#include <fv_filter.h>', '#include <cstdio>', '#include <cmath>', 'using namespace fv;',
         'static void P(const char* l, double v) { std::printf("%s %a\\n", l, v); }', 'int main() {']
    for pi, p in enumerate(points):
        L.append("{")
        L.append(f'std::printf("POINT {pi}\\n");')
        L.append("StateOptions so;")
        L += [f"so.{s} = {hexf(p['state'][s])};" for s in S]
        L.append("State state(so);")
        args = "state"
        if C:
            L.append("CalibrationOptions cao;")
            L += [f"cao.{c} = {hexf(defn['calibration_map'][c])};" for c in C]
            L.append("Calibration calibration(cao);")
            args += ", calibration"
        if U:
            L.append("ControlOptions co;")
            L += [f"co.{u} = {hexf(p['control'][u])};" for u in U]
            L.append("Control control(co);")
            args += ", control"
        L.append(f"Model mdl; State m = mdl.model({hexf(p['dt'])}, {args});")
        for i, s in enumerate(S):
            L.append(f'P("model/{i}/0", m.data({i}, 0)); P("plainacc/{s}", m.{s}());')
        L.append("}")
    L.append("return 0; }")
    return "\n".join(L)


def np_list(a):
    import numpy as _np
    return _np.asarray(a, dtype=float).tolist()


def hexf(x):
    return float(x).hex()


def driver(defn, points, managed=False):
    S, U, C = sorted(defn["state"]), sorted(defn["control"]), sorted(defn["calibration"])
    keys = sorted(defn["sensors"])
    L = ['#include <fv_filter.h>', '#include <cstdio>', '#include <cmath>']
    if managed:
        L.append('#include <formak/runtime/ManagedFilter.h>')
    L += ['using namespace fv;', 'static void P(const char* l, double v) { std::printf("%s %a\\n", l, v); }',
          'template <typename M> static void PM(const char* l, const M& m, int r, int c) { char b[256]; '
          'for (int i = 0; i < r; ++i) for (int j = 0; j < c; ++j) { std::snprintf(b, sizeof b, "%s/%d/%d", l, i, j); P(b, m(i, j)); } }',
          'int main() {']
    cal_arg = ", calibration" if C else ""
    ctl_arg = ", control" if U else ""
    for pi, p in enumerate(points):
        L.append("{")
        L.append(f'std::printf("POINT {pi}\\n");')
        L.append("StateOptions so;")
        for s in S:
            L.append(f"so.{s} = {hexf(p['state'][s])};")
        L.append("State state(so);")
        for i, s in enumerate(S):
            L.append(f'P("slot/State/acc/{s}", state.{s}()); P("slot/State/raw/{i}", state.data({i}, 0));')
        if U:
            L.append("ControlOptions co;")
            for u in U:
                L.append(f"co.{u} = {hexf(p['control'][u])};")
            L.append("Control control(co);")
            for i, u in enumerate(U):
                L.append(f'P("slot/Control/acc/{u}", control.{u}()); P("slot/Control/raw/{i}", control.data({i}, 0));')
        if C:
            L.append("CalibrationOptions cao;")
            for c in C:
                L.append(f"cao.{c} = {hexf(defn['calibration_map'][c])};")
            L.append("Calibration calibration(cao);")
            for i, c in enumerate(C):
                L.append(f'P("slot/Calibration/acc/{c}", calibration.{c}()); P("slot/Calibration/raw/{i}", calibration.data({i}, 0));')
        n = len(S)
        L.append("StateAndVariance sv; sv.state = state;")
        for i in range(n):
            for j in range(n):
                L.append(f"sv.covariance.data({i}, {j}) = {hexf(p['P'][i][j])};")
        for i, s in enumerate(S):
            L.append(f'P("slot/Covariance/acc/{s}", sv.covariance.{s}());')
        L.append("{ Covariance cdef; " + " ".join(f'P("slot/CovarianceDefault/{i}/{j}", cdef.data({i}, {j}));' for i in range(n) for j in range(n)) + " }")
        L.append("{ State sdef; " + " ".join(f'P("slot/StateDefault/{i}", sdef.data({i}, 0));' for i in range(n)) + " }")
        dt = hexf(p["dt"])
        L.append(f"State m = ExtendedKalmanFilterProcessModel::model({dt}, sv{cal_arg}{ctl_arg});")
        L.append(f'PM("model", m.data, {n}, 1);')
        L.append(f"auto Gm = ExtendedKalmanFilterProcessModel::process_jacobian({dt}, sv{cal_arg}{ctl_arg}); PM(\"G\", Gm, {n}, {n});")
        L.append(f"auto Vm = ExtendedKalmanFilterProcessModel::control_jacobian({dt}, sv{cal_arg}{ctl_arg}); PM(\"V\", Vm, {n}, {len(U)});")
        L.append(f"auto Mm = ExtendedKalmanFilterProcessModel::covariance({dt}, sv{cal_arg}{ctl_arg}); PM(\"M\", Mm, {len(U)}, {len(U)});")
        L.append("ExtendedKalmanFilter ekf;")
        L.append(f"StateAndVariance nx = ekf.process_model({dt}, sv{cal_arg}{ctl_arg});")
        L.append(f'PM("pm/state", nx.state.data, {n}, 1); PM("pm/cov", nx.covariance.data, {n}, {n});')
        for key in keys:
            T = key.title()
            R = sorted(defn["sensors"][key])
            m_ = len(R)
            L.append("{")
            L.append(f"{T}Options ro;")
            for r in R:
                L.append(f"ro.{r} = {hexf(p['readings'][key][r])};")
            L.append(f"{T} reading(ro);")
            for i, r in enumerate(R):
                L.append(f'P("slot/{key}/acc/{r}", reading.{r}()); P("slot/{key}/raw/{i}", reading.data({i}, 0));')
            L.append(f"{T} pred = {T}SensorModel::model(sv{cal_arg}, reading); PM(\"h/{key}\", pred.data, {m_}, 1);")
            L.append(f"auto Hm = {T}SensorModel::jacobian(sv{cal_arg}, reading); PM(\"H/{key}\", Hm, {m_}, {n});")
            L.append(f"auto Qm = {T}SensorModel::covariance(sv{cal_arg}, reading); PM(\"Q/{key}\", Qm, {m_}, {m_});")
            L.append("ExtendedKalmanFilter e2;")
            L.append(f'{{ auto none = e2.innovations<{T}>(); P("inn/{key}/before", none.has_value() ? 1.0 : 0.0); }}')
            L.append(f"StateAndVariance up = e2.sensor_model(sv{cal_arg}, reading);")
            L.append(f'PM("upd/{key}/state", up.state.data, {n}, 1); PM("upd/{key}/cov", up.covariance.data, {n}, {n});')
            L.append(f'{{ auto inn = e2.innovations<{T}>(); P("inn/{key}/has", inn.has_value() ? 1.0 : 0.0); if (inn.has_value()) PM("inn/{key}", inn.value(), {m_}, 1); }}')
            L.append("}")
        L.append("}")
    L.append("return 0; }")
    return "\n".join(L)


def run_job(job, workroot):
    defn = job["defn"]
    out = {}
    if job.get("plain_model") is not None:
        header, source = generate_plain(defn, job["cse"], job.get("decl"), job["plain_model"].get("assumptions"))
        job = dict(job, driver_text=driver_plain(defn, job["points"]))
    else:
        header, source = generate(defn, job["cse"], job.get("k"), job.get("max_dt", 0.1), job.get("decl"))
    import re as _re
    mk = _re.search(r"static constexpr double innovation_filtering\s*=\s*([^;]+);", header)
    out["emitted_k"] = mk.group(1).strip() if mk else None
    mm = _re.search(r"static constexpr double max_dt_sec\s*=\s*([^;]+);", header)
    out["emitted_max_dt"] = mm.group(1).strip() if mm else None
    out["header_sha"] = hashlib.sha256(header.encode()).hexdigest()
    out["source_sha"] = hashlib.sha256(source.encode()).hexdigest()
    out["rerender"] = LAST_RERENDER
    if job.get("keep_text"):
        out["header"], out["source"] = header, source
    if job.get("only_generate"):
        # determinism within one interpreter: generate again (and after an unrelated model) and hash every text
        shas = [[out["header_sha"], out["source_sha"]]]
        if job.get("warmup_defn"):
            generate(job["warmup_defn"], True, None, 0.1, None)
        for _ in range(job.get("repeat", 0)):
            h2, s2 = generate(defn, job["cse"], job.get("k"), job.get("max_dt", 0.1), job.get("decl"))
            shas.append([hashlib.sha256(h2.encode()).hexdigest(), hashlib.sha256(s2.encode()).hexdigest()])
        # one Config object handed to two generations: it must come back unchanged and give the same text twice
        import dataclasses as _dc
        shared = cpp.Config(common_subexpression_elimination=job["cse"], innovation_filtering=(job.get("k") if job.get("k") is not None else 0.0), max_dt_sec=job.get("max_dt", 0.1))
        before = _dc.asdict(shared)
        for _ in range(2):
            h3, s3 = generate(defn, job["cse"], job.get("k"), job.get("max_dt", 0.1), job.get("decl"), cfg=shared)
            shas.append([hashlib.sha256(h3.encode()).hexdigest(), hashlib.sha256(s3.encode()).hexdigest()])
        out["config_unchanged"] = _dc.asdict(shared) == before
        out["config_after"] = {k_: v_ for k_, v_ in _dc.asdict(shared).items()}
        out["shas"] = shas
        from formak import python as _py
        syms, model, sensors, pn, sn, cm = G.build(defn, job.get("decl"))
        pm = _py.compile(model, cm, config=_py.Config(common_subexpression_elimination=job["cse"]))
        out["py_arglist"] = [str(a) for a in pm.arglist]
        ekf = _py.compile_ekf(model, pn, sensors, sn, cm, config=_py.Config(common_subexpression_elimination=job["cse"]))
        out["py_readings"] = {k: [str(r) for r in v.readings] for k, v in sorted(ekf.sensor_models.items())}
        out["py_sensor_keys_sorted"] = sorted(ekf.sensor_models)
        # values the Python filter computes at one fixed point: they may not depend on how the definition was declared
        try:
            st = ekf.State(**{str(a): 0.375 + 0.0625 * i for i, a in enumerate(ekf.arglist_state)})
            ct = ekf.Control(**{str(a): -0.25 + 0.125 * i for i, a in enumerate(ekf.arglist_control)})
            vals = {"G": ekf.process_jacobian(0.125, st, ct).tolist(), "V": np_list(ekf.control_jacobian(0.125, st, ct))}
            for k_ in sorted(ekf.sensor_models):
                vals["H/" + k_] = np_list(ekf.sensor_jacobian(k_, st))
                vals["h/" + k_] = np_list(ekf.sensor_models[k_].model(st).data)
                vals["Q/" + k_] = np_list(ekf.sensor_noises[k_].data)
            vals["M"] = np_list(ekf.process_noise)
            out["py_values"] = json.dumps(vals, sort_keys=True)
        except Exception as e:  # noqa
            out["py_values"] = "raised:" + type(e).__name__ + ": " + str(e)[:200]
        return out
    d = os.path.join(workroot, "job")
    shutil.rmtree(d, ignore_errors=True)
    os.makedirs(os.path.join(d, "generated"))
    open(os.path.join(d, "generated", "fv_filter.h"), "w").write(header)
    open(os.path.join(d, "fv_filter.cpp"), "w").write(source.replace("#include <generated_to_stdout.h>", "#include <fv_filter.h>"))
    drv = job.get("driver_text") or driver(defn, job["points"], job.get("managed", False))
    open(os.path.join(d, "driver.cpp"), "w").write(drv)
    cmd = ["g++", "-std=c++20", "-O0", "-ffp-contract=off", "-I", os.path.join(VERIF, "tools/cpp/shim"), "-I", os.path.join(REPO, "cpp/include"),
           "-I", os.path.join(REPO, "cpp/runtime/include"), "-I", os.path.join(d, "generated"),
           os.path.join(d, "fv_filter.cpp"), os.path.join(d, "driver.cpp"), "-o", os.path.join(d, "drv")]
    r = subprocess.run(cmd, capture_output=True, text=True, timeout=600)
    out["compile_ok"] = r.returncode == 0
    if r.returncode != 0:
        out["compile_err"] = r.stderr[-3000:]
        if not job.get("keep_text"):
            out["header"], out["source"] = header, source
        return out
    r = subprocess.run([os.path.join(d, "drv")], capture_output=True, text=True, timeout=120)
    out["run_ok"] = r.returncode == 0
    runs, cur = [], None
    for line in r.stdout.splitlines():
        if line.startswith("POINT"):
            cur = {}
            runs.append(cur)
        elif cur is not None and " " in line:
            lab, v = line.rsplit(" ", 1)
            try:
                cur[lab] = float.fromhex(v)
            except ValueError:
                cur[lab] = float("nan") if "nan" in v else (float("inf") if "inf" in v else None)
    out["runs"] = runs
    out["stdout_tail"] = r.stdout[-300:] if r.returncode != 0 else ""
    return out


def main():
    inp = json.load(open(sys.argv[1]))
    workroot = os.path.dirname(os.path.abspath(sys.argv[1]))
    res = []
    from _limit import run_limited
    for job in inp["jobs"]:
        res.append(run_limited(lambda j: run_job(j, workroot), job))
    json.dump({"results": res}, open(sys.argv[2], "w"))


if __name__ == "__main__":
    main()
