"""Decisions of python.assert_valid_covariance on explicit symmetric matrices.
in: {"mats": [[[..]]]}  out: {"results": ["accept" | "refuse" | "other:<exc>"]}"""
import json, sys
import numpy as np
from formak import python
inp = json.load(open(sys.argv[1]))
out = []
for m in inp["mats"]:
    try:
        python.assert_valid_covariance(np.array(m, dtype=float))
        out.append("accept")
    except AssertionError as e:
        out.append("refuse")
    except Exception as e:  # noqa
        out.append("other:" + type(e).__name__)
json.dump({"results": out, "negative_tol": python.assert_valid_covariance.__kwdefaults__["negative_tol"]}, open(sys.argv[2], "w"))
