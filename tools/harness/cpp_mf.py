"""Drive generated C++ filters through the REAL ManagedFilter.h.

in : {"jobs": [{"defn", "cse", "k", "max_dt", "decl", "point": {...}, "histories": [{"start": hex, "ticks": [{"out": hex, "readings": null|[[ts_hex, key_index]]}]}]}]}
out: per job {"compile_ok", "compile_err", "histories": [[{"ret": [floats...], "byhand": [floats...], "trace": rle}, ...]]}
The driver derives a call-recording filter from the generated ExtendedKalmanFilter, ticks it through
formak::runtime::ManagedFilter, then replays the recorded calls by hand on a plain generated filter."""
import json
import os
import shutil
import subprocess
import sys
import traceback

sys.path.insert(0, __file__.rsplit("/", 1)[0])
import cpp_gen as CG  # noqa: E402

VERIF = CG.VERIF
REPO = CG.REPO


def driver(defn, point, histories):
    S, U, C = sorted(defn["state"]), sorted(defn["control"]), sorted(defn["calibration"])
    keys = sorted(defn["sensors"])
    n = len(S)
    hx = CG.hexf
    cal_arg = ", calibration" if C else ""
    ctl_arg = ", control" if U else ""
    L = ['#include <fv_filter.h>', '#include <formak/runtime/ManagedFilter.h>', '#include <cstdio>', '#include <cstdlib>', '#include <iostream>', '#include <sstream>', '#include <string>', '#include <vector>', 'using namespace fv;',
         'struct Ev { int kind; double v; };', 'static std::vector<Ev> g_trace;',
         'struct Rec : public ExtendedKalmanFilter {',
         '  template <typename... A> StateAndVariance process_model(double dt, const StateAndVariance& s, const A&... a) const {',
         '    g_trace.push_back({0, dt}); return ExtendedKalmanFilter::process_model(dt, s, a...); }',
         '};',
         'static_assert(formak::runtime::ManagedFilter<ExtendedKalmanFilter>::compatible);',
         'static_assert(formak::runtime::ManagedFilter<Rec>::compatible);',
         'using MF = formak::runtime::ManagedFilter<Rec>;',
         'static void dump(const char* tag, const StateAndVariance& sv) { std::printf("%s", tag); '
         f'for (int i = 0; i < {n}; ++i) std::printf(" %a", sv.state.data(i, 0)); '
         f'for (int i = 0; i < {n}; ++i) for (int j = 0; j < {n}; ++j) std::printf(" %a", sv.covariance.data(i, j)); std::printf("\\n"); }}',
         'int main(int argc, char** argv) {']
    L.append("StateOptions so;")
    for s in S:
        L.append(f"so.{s} = {hx(point['state'][s])};")
    L.append("StateAndVariance sv0; sv0.state = State(so);")
    for i in range(n):
        for j in range(n):
            L.append(f"sv0.covariance.data({i}, {j}) = {hx(point['P'][i][j])};")
    if U:
        L.append("ControlOptions co;")
        for u in U:
            L.append(f"co.{u} = {hx(point['control'][u])};")
        L.append("Control control(co);")
    if C:
        L.append("CalibrationOptions cao;")
        for c in C:
            L.append(f"cao.{c} = {hx(defn['calibration_map'][c])};")
        L.append("Calibration calibration(cao);")
    for ki, key in enumerate(keys):
        T = key.title()
        L.append(f"{T}Options ro{ki};")
        for r in sorted(defn["sensors"][key]):
            L.append(f"ro{ki}.{r} = {hx(point['readings'][key][r])};")
        L.append(f"{T} reading{ki}(ro{ki});")
    L.append('if (argc > 1 && std::string(argv[1]) == "byhand") {')
    L.append("  // calls of the generated filter's own prediction / update functions, in the order given on stdin")
    L.append("  ExtendedKalmanFilter plain; StateAndVariance held = sv0, tmp = sv0; std::string line;")
    L.append("  while (std::getline(std::cin, line)) { std::istringstream ss(line); std::string tag; ss >> tag;")
    L.append('    if (tag == "H") { held = sv0; tmp = sv0; std::printf("HISTORY\\n"); }')
    L.append('    else if (tag == "T") { tmp = held; }')
    L.append(f'    else if (tag == "P") {{ std::string v; ss >> v; tmp = plain.process_model(std::strtod(v.c_str(), nullptr), tmp{cal_arg}{ctl_arg}); }}')
    L.append('    else if (tag == "S") { int k; ss >> k; switch (k) {')
    for ki, key in enumerate(keys):
        L.append(f"      case {ki}: tmp = plain.sensor_model(tmp{cal_arg}, reading{ki}); break;")
    L.append("      default: break; } held = tmp; }")
    L.append('    else if (tag == "R") { dump("RET", tmp); } }')
    L.append("  return 0; }")
    for hi, h in enumerate(histories):
        L.append("{")
        L.append('std::printf("HISTORY\\n");')
        L.append(f"MF mf({h['start']}, sv0{cal_arg});")
        for t in h["ticks"]:
            L.append("{ g_trace.clear(); std::vector<MF::StampedReading> rs;")
            if t["readings"] is not None:
                for ts, ki in t["readings"]:
                    L.append(f"rs.push_back(MF::wrap({ts}, reading{ki}));")
                L.append(f"StateAndVariance r = mf.tick({t['out']}{ctl_arg}, rs);")
            else:
                L.append(f"StateAndVariance r = mf.tick({t['out']}{ctl_arg});")
            L.append('std::printf("TRACE"); for (auto& e : g_trace) std::printf(" %d:%a", e.kind, e.v); std::printf("\\n");')
            L.append('dump("RET", r); }')
        L.append("}")
    L.append("return 0; }")
    return "\n".join(L)


def run_job(job, workroot):
    defn = job["defn"]
    out = {}
    header, source = CG.generate(defn, job["cse"], job.get("k"), job["max_dt"], job.get("decl"))
    d = os.path.join(workroot, "job")
    shutil.rmtree(d, ignore_errors=True)
    os.makedirs(os.path.join(d, "generated"))
    open(os.path.join(d, "generated", "fv_filter.h"), "w").write(header)
    open(os.path.join(d, "fv_filter.cpp"), "w").write(source)
    open(os.path.join(d, "driver.cpp"), "w").write(driver(defn, job["point"], job["histories"]))
    cmd = ["g++", "-std=c++20", "-O0", "-ffp-contract=off", "-I", os.path.join(VERIF, "tools/cpp/shim"), "-I", os.path.join(REPO, "cpp/include"),
           "-I", os.path.join(REPO, "cpp/runtime/include"), "-I", os.path.join(d, "generated"),
           os.path.join(d, "fv_filter.cpp"), os.path.join(d, "driver.cpp"), "-o", os.path.join(d, "drv")]
    r = subprocess.run(cmd, capture_output=True, text=True, timeout=600)
    out["compile_ok"] = r.returncode == 0
    import re
    m = re.search(r"static constexpr double max_dt_sec = ([^;]+);", header)
    out["emitted_max_dt"] = m.group(1) if m else None
    if r.returncode != 0:
        out["compile_err"] = r.stderr[-3000:]
        return out
    if job.get("byhand_ops") is not None:
        r = subprocess.run([os.path.join(d, "drv"), "byhand"], input="\n".join(job["byhand_ops"]) + "\n", capture_output=True, text=True, timeout=300)
    else:
        r = subprocess.run([os.path.join(d, "drv")], capture_output=True, text=True, timeout=300)
    out["run_ok"] = r.returncode == 0
    hs, cur = [], None
    tick = {}
    for line in r.stdout.splitlines():
        if line.startswith("HISTORY"):
            cur = []
            hs.append(cur)
        elif line.startswith("TRACE"):
            tick = {"trace": [[int(x.split(":")[0]), float.fromhex(x.split(":")[1]).hex()] for x in line.split()[1:]]}
        elif line.startswith("RET"):
            tick["ret"] = [x for x in line.split()[1:]]
            cur.append(tick)
            tick = {}
    out["histories"] = hs
    return out


def main():
    inp = json.load(open(sys.argv[1]))
    workroot = os.path.dirname(os.path.abspath(sys.argv[1]))
    res = []
    from _limit import run_limited
    for job in inp["jobs"]:
        res.append(run_limited(lambda j: run_job(j, workroot), job))
    json.dump({"results": res}, open(sys.argv[2], "w"))


if __name__ == "__main__":
    main()
