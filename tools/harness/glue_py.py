"""Run the real Python back end on generated definitions; export what it really computes.

in : {"jobs": [{"defn": D, "cse": bool, "decl": {"container": "set"|"list", "perm_seed": int}, "points": [inputs...],
               "want": ["model", "sensors", "jacobians"]}]}
out: {"results": [ {...} | {"error": str, "kind": exc class} ]}
Every numeric output is a Python float (repr-exact in JSON); every exported expression is the JSON
tree of tools/lib/models.py (None when outside the exportable fragment)."""
import json
import random
import sys
import traceback
from fractions import Fraction

import sympy
from sympy import Symbol

from formak import python, ui


# ------------------------------------------------------------------------------------------ expr <-> sympy
def to_sympy(e, syms):
    t = e[0]
    if t == "num":
        return sympy.Rational(e[1], e[2])
    if t == "var":
        return syms[e[1]]
    if t == "add":
        return to_sympy(e[1], syms) + to_sympy(e[2], syms)
    if t == "mul":
        return to_sympy(e[1], syms) * to_sympy(e[2], syms)
    if t == "pow":
        return to_sympy(e[1], syms) ** e[2]
    if t == "fn":
        return getattr(sympy, e[1])(to_sympy(e[2], syms))
    if t == "fn2":
        return getattr(sympy, e[1])(to_sympy(e[2], syms), to_sympy(e[3], syms))
    raise ValueError(e)


class NotExportable(Exception):
    pass


def from_sympy(s):
    if isinstance(s, sympy.Integer):
        return ["num", int(s), 1]
    if isinstance(s, sympy.Rational):
        return ["num", int(s.p), int(s.q)]
    if isinstance(s, sympy.Float):
        fr = Fraction(float(s))
        return ["num", fr.numerator, fr.denominator]
    if isinstance(s, Symbol):
        return ["var", s.name]
    if isinstance(s, sympy.Add) or isinstance(s, sympy.Mul):
        tag = "add" if isinstance(s, sympy.Add) else "mul"
        args = [from_sympy(a) for a in s.args]
        out = args[-1]
        for a in reversed(args[:-1]):
            out = [tag, a, out]
        return out
    if isinstance(s, sympy.Pow):
        b, ex = s.args
        if isinstance(ex, sympy.Integer):
            return ["pow", from_sympy(b), int(ex)]
        if ex == sympy.Rational(1, 2):
            return ["fn", "sqrt", from_sympy(b)]
        if ex == sympy.Rational(-1, 2):
            return ["pow", ["fn", "sqrt", from_sympy(b)], -1]
        raise NotExportable(f"power {ex}")
    if isinstance(s, sympy.Function) and len(s.args) == 1 and s.func.__name__ in ("sin", "cos", "tan", "exp", "log"):
        return ["fn", s.func.__name__, from_sympy(s.args[0])]
    if s is sympy.S.Half or s.is_Number:
        fr = Fraction(str(sympy.nsimplify(s)))
        return ["num", fr.numerator, fr.denominator]
    raise NotExportable(f"{type(s).__name__}: {s}")


def export(s):
    try:
        return from_sympy(sympy.sympify(s))
    except NotExportable:
        return None
    except Exception:
        return None


def export_block(bb):
    """post-CSE program of a python.BasicBlock (hook FORMAK_VERIF=1)"""
    if not hasattr(bb, "_verif_prefix"):
        return None
    pre = [[n, export(e)] for n, e in bb._verif_prefix]
    body = [export(e) for e in bb._verif_body]
    if any(e is None for _, e in pre) or any(e is None for e in body):
        return {"prefix": None, "body": None, "n_prefix": len(pre), "n_body": len(body)}
    return {"prefix": pre, "body": body, "n_prefix": len(pre), "n_body": len(body)}


# ------------------------------------------------------------------------------------------ building definitions
def build(defn, decl=None, assumptions=None):
    names = [defn["dt"]] + defn["state"] + defn["control"] + defn["calibration"]
    syms = {n: Symbol(n, **(assumptions or {})) for n in names}
    decl = decl or {"container": "set", "perm_seed": 0}
    rng = random.Random(decl.get("perm_seed", 0))
    # ui.Model(proactive_simplify=True) is a supported way to declare a model; only on request (sympy's simplify can
    # take minutes on large expressions: it is given 20 s, after which the declaration is repeated without it)
    proactive = bool(decl.get("proactive_simplify", False))

    def cont(xs):
        xs = [syms[x] for x in xs]
        rng.shuffle(xs)
        return set(xs) if decl.get("container", "set") == "set" else list(xs)

    def dshuf(items):
        items = list(items)
        rng.shuffle(items)
        return dict(items)
    sm = dshuf((syms[k], to_sympy(v, syms)) for k, v in defn["state_model"].items())
    import contextlib
    import io
    import signal

    class _Slow(Exception):
        pass

    def _alarm(*_a):
        raise _Slow()
    st, ct, cl = cont(defn["state"]), cont(defn["control"]), cont(defn["calibration"])
    model = None
    if proactive:
        old = signal.signal(signal.SIGALRM, _alarm)
        signal.alarm(20)
        try:
            with contextlib.redirect_stdout(io.StringIO()):
                model = ui.Model(dt=syms[defn["dt"]], state=st, control=ct, calibration=cl, state_model=dict(sm), proactive_simplify=True)
        except _Slow:
            model = None
        finally:
            signal.alarm(0)
            signal.signal(signal.SIGALRM, old)
    if model is None:
        model = ui.Model(dt=syms[defn["dt"]], state=st, control=ct, calibration=cl, state_model=sm)
    sensors = dshuf((k, dshuf((r, to_sympy(e, syms)) for r, e in rd.items())) for k, rd in defn["sensors"].items())
    pn = dshuf((syms[u], v) for u, v in defn["process_noise"].items())
    # readings may be named by str in the sensor models and by a same-named Symbol in the noise dictionary (validation
    # compares them as strings): one declaration in three does
    symkeys = decl.get("noise_keys", "symbol" if random.Random(decl.get("perm_seed", 0) + 5).random() < 0.34 else "str") == "symbol"
    sn = dshuf((k, dshuf(((Symbol(r) if symkeys else r), v) for r, v in rd.items())) for k, rd in defn["sensor_noise"].items())
    cm = dshuf((syms[c], v) for c, v in defn["calibration_map"].items())
    return syms, model, sensors, pn, sn, cm


def float_eval(e, env):
    """plain binary64 evaluation of the expression tree as written (math module); None on overflow / domain error"""
    import math
    if e.is_Symbol:
        return float(env[e])
    if e.is_Number or e.is_NumberSymbol:
        return float(e)
    args = [float_eval(a, env) for a in e.args]
    if any(a is None for a in args):
        return None
    try:
        if e.is_Add:
            r = math.fsum(args)
        elif e.is_Mul:
            r = 1.0
            for a in args:
                r *= a
        elif e.is_Pow:
            r = math.pow(args[0], args[1])
        else:
            nm = type(e).__name__.lower()
            if nm == "atan2":
                return math.atan2(*args)
            recip = {"sec": math.cos, "csc": math.sin, "cot": math.tan, "sech": math.cosh, "csch": math.sinh, "coth": math.tanh}
            if nm in recip:
                r = 1.0 / recip[nm](*args)
            elif nm == "acot":      # sympy's convention: odd, values in (-pi/2, pi/2]
                r = math.atan(1.0 / args[0]) if args[0] != 0.0 else math.pi / 2
            elif nm == "acsch":
                r = math.asinh(1.0 / args[0])
            else:
                f = getattr(math, {'abs': 'fabs'}.get(nm, nm), None)
                if f is None:
                    return None
                r = f(*args)
    except (OverflowError, ValueError, ZeroDivisionError):
        return None
    return r if math.isfinite(r) else None


def exact(expr, env):
    """exact value (30 digits) of the expression at the point, or None when the point is outside the quantifier: the
    expression is undefined there, or its own binary64 evaluation overflows / loses more than 1e-11 relative (then no
    float implementation of this expression can be asked for 1e-9)"""
    v = expr.subs(env)
    v = sympy.N(v, 30)
    if not v.is_real or v.has(sympy.zoo, sympy.nan, sympy.oo):
        return None
    x = float(v)
    try:
        fv = float_eval(expr, env)
    except Exception:
        fv = None
    if fv is None or abs(fv - x) > 1e-11 * max(1.0, abs(x)):
        return None
    return x


def run_job(job):
    defn = job["defn"]
    cfg = python.Config(common_subexpression_elimination=job["cse"], innovation_filtering=None)
    if job.get("warmup_assumptions"):
        # the same definition over same-named symbols that carry assumptions is compiled first in this interpreter:
        # nothing of it may leak into the model compiled afterwards
        _s, _m, _se, _pn, _sn, _cm = build(defn, job.get("decl"), assumptions=job["warmup_assumptions"])
        _pm = python.compile(_m, _cm, config=cfg)
        _pm.model(0.125, _pm.State(**{str(a): 1.5 for a in _pm.arglist_state}), _pm.Control(**{str(a): 0.5 for a in _pm.arglist_control}))
    syms, model, sensors, pn, sn, cm = build(defn, job.get("decl"))
    want = job.get("want", ["model"])
    out = {"cse": job["cse"]}
    pm = python.compile(model, cm, config=cfg)
    out["arglist"] = [str(a) for a in pm.arglist]
    out["arglist_state"] = [str(a) for a in pm.arglist_state]
    out["program"] = export_block(pm._impl)
    ekf = None
    if ("sensors" in want or "jacobians" in want):
        ekf = python.compile_ekf(model, pn, sensors, sn, cm, config=cfg)
        out["sensor_arglist"] = [str(a) for a in ekf.arglist_sensor]
        out["readings"] = {k: [str(r) for r in sm_.readings] for k, sm_ in ekf.sensor_models.items()}
        out["sensor_programs"] = {k: export_block(sm_._impl) for k, sm_ in ekf.sensor_models.items()}
        if "jacobians" in want:
            out["jac_programs"] = {"process": export_block(ekf._impl_process_jacobian),
                                   "control": export_block(ekf._impl_control_jacobian),
                                   "sensor": {k: export_block(b) for k, b in ekf._impl_sensor_jacobians.items()}}
            # independent derivative oracle, by name
            sm_s = {s: to_sympy(e, syms) for s, e in defn["state_model"].items()}
            out["D"] = {
                "process": {r: {c: export(sympy.diff(sm_s[r], syms[c])) for c in defn["state"]} for r in defn["state"]},
                "control": {r: {c: export(sympy.diff(sm_s[r], syms[c])) for c in defn["control"]} for r in defn["state"]},
                "sensor": {k: {r: {c: export(sympy.diff(to_sympy(e, syms), syms[c])) for c in defn["state"]}
                               for r, e in rd.items()} for k, rd in defn["sensors"].items()},
            }
    ekf_s = None
    if "ekf_state" in want:
        ekf_s = ekf if ekf is not None else python.compile_ekf(model, pn, sensors, sn, cm, config=cfg)
    returned = []       # (object, values at the time it was returned): results must not change afterwards
    pts = []
    for p in job["points"]:
        env = {syms[defn["dt"]]: sympy.Rational(Fraction(p["dt"]).numerator, Fraction(p["dt"]).denominator)}
        for grp, vals in (("state", p["state"]), ("control", p["control"]), ("calibration", defn["calibration_map"])):
            for n, v in vals.items():
                fr = Fraction(v)
                env[syms[n]] = sympy.Rational(fr.numerator, fr.denominator)
        r = {}
        state = pm.State(**p["state"])
        control = pm.Control(**p["control"])
        try:
            nxt = pm.model(float(p["dt"]), state, control)
            r["model"] = {str(n): float(v) for n, v in zip(pm.arglist_state, nxt.data[:, 0])}
            returned.append((nxt, nxt.data.copy()))
        except Exception as e:  # noqa
            r["model"] = {"_raised": type(e).__name__ + ": " + str(e)[:200]}
        r["oracle_model"] = {s: (None if p.get("branch_cut") else exact(to_sympy(e, syms), env)) for s, e in defn["state_model"].items()}
        r["branch_cut"] = bool(p.get("branch_cut"))
        if ekf_s is not None:
            try:
                import numpy as _np
                es = ekf_s.process_model(float(p["dt"]), ekf_s.State(**p["state"]), ekf_s.Covariance(), ekf_s.Control(**p["control"]))
                r["ekf_state"] = {str(n): float(v) for n, v in zip(ekf_s.arglist_state, es.state.data[:, 0])}
                returned.append((es.state, es.state.data.copy()))
            except Exception as e:  # noqa
                r["ekf_state"] = {"_raised": type(e).__name__ + ": " + str(e)[:200]}
        if ekf is not None:
            est = ekf.State(**p["state"])
            ectl = ekf.Control(**p["control"])
            r["sensors"], r["oracle_sensors"] = {}, {}
            for k, sm_ in ekf.sensor_models.items():
                try:
                    pr = sm_.model(est)
                    r["sensors"][k] = {str(n): float(v) for n, v in zip(sm_.readings, pr.data[:, 0])}
                except Exception as e:  # noqa
                    r["sensors"][k] = {"_raised": type(e).__name__ + ": " + str(e)[:200]}
                r["oracle_sensors"][k] = {rd: exact(to_sympy(e, syms), env) for rd, e in defn["sensors"][k].items()}
            if "jacobians" in want:
                def mat(f):
                    try:
                        return [[float(x) for x in row] for row in f()]
                    except Exception as e:  # noqa
                        return {"_raised": type(e).__name__ + ": " + str(e)[:200]}
                r["G"] = mat(lambda: ekf.process_jacobian(float(p["dt"]), est, ectl))
                r["V"] = mat(lambda: ekf.control_jacobian(float(p["dt"]), est, ectl))
                r["H"] = {k: mat(lambda k=k: ekf.sensor_jacobian(k, est)) for k in ekf.sensor_models}
                sm_s = {s: to_sympy(e, syms) for s, e in defn["state_model"].items()}
                r["oracle_G"] = {rr: {c: exact(sympy.diff(sm_s[rr], syms[c]), env) for c in defn["state"]} for rr in defn["state"]}
                r["oracle_V"] = {rr: {c: exact(sympy.diff(sm_s[rr], syms[c]), env) for c in defn["control"]} for rr in defn["state"]}
                r["oracle_H"] = {k: {rd: {c: exact(sympy.diff(to_sympy(e, syms), syms[c]), env) for c in defn["state"]}
                                     for rd, e in rdd.items()} for k, rdd in defn["sensors"].items()}
        pts.append(r)
    out["points"] = pts
    import numpy as _np
    out["results_stable"] = bool(all(_np.array_equal(o.data, v, equal_nan=True) for o, v in returned))
    return out


def main():
    inp = json.load(open(sys.argv[1]))
    res = []
    from _limit import run_limited
    for job in inp["jobs"]:
        res.append(run_limited(run_job, job))
    json.dump({"results": res}, open(sys.argv[2], "w"))


if __name__ == "__main__":
    main()
