"""Compiled Python model of formak.reference_models.strapdown_imu at given points.
in: {"points": [{"cse": bool, "dt": v, "state": {sym: v}, "control": {..}, "calibration": {..}}]}  (names = symbol names of the module)
out: {"results": [{name: float}], "symbols": {...}}"""
import json, sys
from formak import python
from formak.reference_models import strapdown_imu as sd
inp = json.load(open(sys.argv[1]))
cache = {}
out = []
returned = []   # states handed out earlier must keep their values when the model is evaluated again
byname = {s.name: s for s in list(sd.symbolic_model.state) + list(sd.symbolic_model.control) + list(sd.symbolic_model.calibration)}
for p in inp["points"]:
    key = (p["cse"], json.dumps(p["calibration"], sort_keys=True))
    try:
        if key not in cache:
            cache[key] = python.compile(sd.symbolic_model, {byname[k]: v for k, v in p["calibration"].items()},
                                        config=python.Config(common_subexpression_elimination=p["cse"]))
        m = cache[key]
        nxt = m.model(float(p["dt"]), m.State(**p["state"]), m.Control(**p["control"]))
        out.append({str(n): float(v) for n, v in zip(m.arglist_state, nxt.data[:, 0])})
        returned.append((nxt, nxt.data.copy()))
    except Exception as e:  # noqa
        out.append({"_raised": type(e).__name__ + ": " + str(e)[:300]})
import numpy as np
stable = bool(all(np.array_equal(o.data, v, equal_nan=True) for o, v in returned))
json.dump({"results": out, "results_stable": stable}, open(sys.argv[2], "w"))
