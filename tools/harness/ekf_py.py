"""Run the real python.ExtendedKalmanFilter prediction / update on generated definitions and compare
material: implementation outputs, exported programs (hook), and an independent exact oracle (sympy).

in : {"jobs": [{"defn", "cse", "k": float|null, "decl", "points": [{"dt","state","control","P","readings"}]}]}
out: {"results": [...]}"""
import copy
import json
import sys
import traceback
from fractions import Fraction

import numpy as np
import sympy

sys.path.insert(0, __file__.rsplit("/", 1)[0])
import glue_py as G  # noqa: E402
from formak import python  # noqa: E402


def rat(v):
    fr = Fraction(v)
    return sympy.Rational(fr.numerator, fr.denominator)


def smat(rows):
    return sympy.Matrix([[rat(x) for x in r] for r in rows])


def ev(e, env, rational):
    v = e.subs(env)
    if rational:
        return sympy.nsimplify(v) if not v.is_Rational else v
    return sympy.N(v, 40)


def tofloat(M):
    return [[float(sympy.N(x, 30)) for x in M.row(i)] for i in range(M.rows)]


def oracle(defn, syms, p, k):
    """exact EKF prediction and, from the predicted estimate, each sensor's update; all by name"""
    rational = defn["rational"]
    S = sorted(defn["state"]); U = sorted(defn["control"])
    env = {syms[defn["dt"]]: rat(p["dt"])}
    for n, v in list(p["state"].items()) + list(p["control"].items()) + list(defn["calibration_map"].items()):
        env[syms[n]] = rat(v)
    sm = {s: G.to_sympy(e, syms) for s, e in defn["state_model"].items()}
    fx = sympy.Matrix([ev(sm[s], env, rational) for s in S])
    Gm = sympy.Matrix([[ev(sympy.diff(sm[r], syms[c]), env, rational) for c in S] for r in S])
    P = smat(p["P"])
    Pn = Gm * P * Gm.T
    if U:
        V = sympy.Matrix([[ev(sympy.diff(sm[r], syms[c]), env, rational) for c in U] for r in S])
        M = sympy.diag(*[rat(defn["process_noise"][u]) for u in U])
        Pn = Pn + V * M * V.T
    out = {"state": {s: float(sympy.N(fx[i], 30)) for i, s in enumerate(S)}, "cov": tofloat(Pn), "updates": {},
           "G": {r: {c: float(sympy.N(Gm[i, j], 30)) for j, c in enumerate(S)} for i, r in enumerate(S)},
           "V": ({r: {c: float(sympy.N(V[i, j], 30)) for j, c in enumerate(U)} for i, r in enumerate(S)} if U else {r: {} for r in S}),
           "h": {}, "H": {}}
    # sensor updates are applied to the INPUT estimate (state, P), independently of the prediction
    env2 = dict(env)
    x0 = sympy.Matrix([rat(p["state"][s]) for s in S])
    fx_u, Pn_u = x0, P
    for key, rd in defn["sensors"].items():
        R = sorted(rd)
        h = sympy.Matrix([ev(G.to_sympy(rd[r], syms), env2, rational) for r in R])
        H = sympy.Matrix([[ev(sympy.diff(G.to_sympy(rd[r], syms), syms[c]), env2, rational) for c in S] for r in R])
        Q = sympy.diag(*[rat(defn["sensor_noise"][key][r]) for r in R])
        z = sympy.Matrix([rat(p["readings"][key][r]) for r in R])
        out["h"][key] = {r: float(sympy.N(h[i], 30)) for i, r in enumerate(R)}
        out["H"][key] = {r: {c: float(sympy.N(H[i, j], 30)) for j, c in enumerate(S)} for i, r in enumerate(R)}
        Sm = H * Pn_u * H.T + Q
        Si = Sm.inv()
        inn = z - h
        nis = (inn.T * Si * inn)[0, 0]
        m = len(R)
        rej, margin = False, None
        if k is not None:
            thr = rat(k) * sympy.sqrt(2 * m) + m
            d = sympy.N(nis - thr, 40)
            margin = float(d)
            rej = bool(d > 0)
        if rej:
            xs, Ps = fx_u, Pn_u
        else:
            K = Pn_u * H.T * Si
            xs = fx_u + K * inn
            Ps = Pn_u - K * H * Pn_u
        out["updates"][key] = {"state": {s: float(sympy.N(xs[i], 30)) for i, s in enumerate(S)}, "cov": tofloat(Ps),
                               "innovation": {r: float(sympy.N(inn[i], 30)) for i, r in enumerate(R)}, "S": tofloat(Sm),
                               "rejected": rej, "margin": margin, "nis": float(sympy.N(nis, 30))}
    return out


def all_finite(o):
    if isinstance(o, dict):
        return all(all_finite(v) for v in o.values())
    if isinstance(o, (list, tuple)):
        return all(all_finite(v) for v in o)
    if isinstance(o, float):
        return o == o and abs(o) != float("inf")
    return True


def run_job(job):
    defn = job["defn"]
    syms, model, sensors, pn, sn, cm = G.build(defn, job.get("decl"))
    cfg = python.Config(common_subexpression_elimination=job["cse"], innovation_filtering=job.get("k"))
    ekf = python.compile_ekf(model, pn, sensors, sn, cm, config=cfg)
    out = {"cse": job["cse"], "k": job.get("k")}
    out["arglist_state"] = [str(a) for a in ekf.arglist_state]
    out["arglist_control"] = [str(a) for a in ekf.arglist_control]
    out["process_noise_matrix"] = [[float(x) for x in row] for row in ekf.process_noise]
    out["sensor_noise_matrix"] = {k: [[float(x) for x in row] for row in v.data] for k, v in ekf.sensor_noises.items()}
    out["readings"] = {k: [str(r) for r in sm_.readings] for k, sm_ in ekf.sensor_models.items()}
    out["Q"] = {k: [[float(x) for x in row] for row in ekf.sensor_noises[k].data] for k in ekf.sensor_models}
    out["programs"] = {
        "model": G.export_block(ekf._state_model._impl),
        "process": G.export_block(ekf._impl_process_jacobian),
        "control": G.export_block(ekf._impl_control_jacobian),
        "sensor_block": {k: G.export_block(s._impl) for k, s in ekf.sensor_models.items()},
        "sensor_jac": {k: G.export_block(b) for k, b in ekf._impl_sensor_jacobians.items()},
    }
    pts = []
    for p in job["points"]:
        r = {}
        if pts == []:
            kept = []       # (returned object, its values when returned): must not change when the filter is used again
        state = ekf.State(**p["state"])
        control = ekf.Control(**p["control"])
        Pd = np.array(p["P"], dtype=float)
        cov = ekf.Covariance.from_data(Pd.copy())
        snap = (state.data.copy(), cov.data.copy(), control.data.copy(), copy.deepcopy(ekf.process_noise))
        try:
            nxt = ekf.process_model(float(p["dt"]), state, cov, control)
            kept.append((nxt.state, nxt.state.data.copy()))
            kept.append((nxt.covariance, nxt.covariance.data.copy()))
            again = ekf.process_model(float(p["dt"]), state, cov, control)
            r["predict"] = {
                "state": {str(n): float(v) for n, v in zip(ekf.arglist_state, nxt.state.data[:, 0])},
                "cov": [[float(x) for x in row] for row in nxt.covariance.data],
                "inputs_unchanged": bool(np.array_equal(snap[0], state.data) and np.array_equal(snap[1], cov.data)
                                         and np.array_equal(snap[2], control.data) and np.array_equal(snap[3], ekf.process_noise)),
                "repeat_identical": bool(np.array_equal(nxt.state.data, again.state.data, equal_nan=True)
                                         and np.array_equal(nxt.covariance.data, again.covariance.data, equal_nan=True)),
            }
        except Exception as e:  # noqa
            r["predict"] = {"_raised": type(e).__name__ + ": " + str(e)[:300]}
            nxt = None
        r["updates"] = {}
        nxt = python.StateAndCovariance(ekf.State(**p["state"]), ekf.Covariance.from_data(Pd.copy()))
        if True:
            for key in ekf.sensor_models:
                rd = ekf.make_reading(key, **{str(a): b for a, b in p["readings"][key].items()})
                s0, c0 = nxt.state.data.copy(), nxt.covariance.data.copy()
                ekf.innovations.pop(key, None)
                ekf.sensor_prediction_uncertainty.pop(key, None)
                try:
                    u = ekf.sensor_model(nxt.state, nxt.covariance, sensor_key=key, sensor_reading=rd)
                    rejected = bool(np.array_equal(u.state.data, s0) and np.array_equal(u.covariance.data, c0)
                                    and (u.state is nxt.state or True))
                    r["updates"][key] = {
                        "state": {str(n): float(v) for n, v in zip(ekf.arglist_state, u.state.data[:, 0])},
                        "cov": [[float(x) for x in row] for row in u.covariance.data],
                        "innovation": {str(n): float(v) for n, v in zip(ekf.sensor_models[key].readings, ekf.innovations[key][:, 0])}
                        if key in ekf.innovations else None,
                        "S": [[float(x) for x in row] for row in ekf.sensor_prediction_uncertainty[key]]
                        if key in ekf.sensor_prediction_uncertainty else None,
                        "same_objects": bool(u.state is nxt.state and u.covariance is nxt.covariance),
                        "unchanged": rejected,
                        "inputs_unchanged": bool(np.array_equal(nxt.state.data, s0) and np.array_equal(nxt.covariance.data, c0)),
                        "decision": bool(ekf.remove_innovation(ekf.innovations[key], np.linalg.inv(ekf.sensor_prediction_uncertainty[key])))
                        if key in ekf.innovations else None,
                    }
                except Exception as e:  # noqa
                    r["updates"][key] = {"_raised": type(e).__name__ + ": " + str(e)[:300]}
        # readings produced by the filter's own sensor model, passed on as the objects they are:
        #  (i) at the same estimate: the innovation is exactly zero, the update must still be the Kalman update;
        #  (ii) at another estimate: passing the object itself or a copy of its values must not matter
        r["own_readings"] = {}
        for key in ekf.sensor_models:
            try:
                st2, cv2 = ekf.State(**p["state"]), ekf.Covariance.from_data(Pd.copy())
                rd_self = ekf.sensor_models[key].model(st2)
                names_r = [str(n) for n in ekf.sensor_models[key].readings]
                vals = {n: float(v) for n, v in zip(names_r, rd_self.data[:, 0])}
                u = ekf.sensor_model(st2, cv2, sensor_key=key, sensor_reading=rd_self)
                rec = {"reading": vals, "state": {str(n): float(v) for n, v in zip(ekf.arglist_state, u.state.data[:, 0])},
                       "cov": [[float(x) for x in row] for row in u.covariance.data],
                       "innovation": [float(v) for v in ekf.innovations[key][:, 0]] if key in ekf.innovations else None}
                other = ekf.State(**{k_: v + 0.5 for k_, v in p["state"].items()})
                rd_other = ekf.sensor_models[key].model(other)
                vals_o = rd_other.data.copy()
                ua = ekf.sensor_model(st2, cv2, sensor_key=key, sensor_reading=rd_other)
                inn_a = ekf.innovations[key].copy() if key in ekf.innovations else None
                uc = ekf.sensor_model(st2, cv2, sensor_key=key, sensor_reading=ekf.make_reading(key, data=vals_o))
                inn_c = ekf.innovations[key].copy() if key in ekf.innovations else None
                rec["alias_consistent"] = bool(np.array_equal(ua.state.data, uc.state.data, equal_nan=True) and np.array_equal(ua.covariance.data, uc.covariance.data, equal_nan=True)
                                               and (inn_a is None) == (inn_c is None) and (inn_a is None or np.array_equal(inn_a, inn_c, equal_nan=True)))
                rec["alias"] = {"object": [float(v) for v in ua.state.data[:, 0]], "copy": [float(v) for v in uc.state.data[:, 0]],
                                "reading_values": [float(v) for v in vals_o[:, 0]]}
                r["own_readings"][key] = rec
            except Exception as e:  # noqa
                r["own_readings"][key] = {"_raised": type(e).__name__ + ": " + str(e)[:300]}
        try:
            r["oracle"] = oracle(defn, syms, p, job.get("k"))
            if not all_finite(r["oracle"]):
                r["oracle"] = {"_failed": "an expression or derivative is undefined (not finite) at this point"}
        except Exception as e:  # noqa
            r["oracle"] = {"_failed": type(e).__name__ + ": " + str(e)[:200]}
        pts.append(r)
    out["points"] = pts
    out["results_stable"] = bool(all(np.array_equal(o.data, v, equal_nan=True) for o, v in kept)) if pts else True
    return out


def main():
    inp = json.load(open(sys.argv[1]))
    res = []
    from _limit import run_limited
    for job in inp["jobs"]:
        res.append(run_limited(run_job, job))
    json.dump({"results": res}, open(sys.argv[2], "w"))


if __name__ == "__main__":
    main()
