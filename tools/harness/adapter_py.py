"""python.SklearnEKFAdapter on generated definitions.
in : {"jobs": [{"defn", "k", "decl", "X": [[..]], "ops": [...], "vectors": [[..]], "fit_rows": int|null}]}
out: per job: transform / mahalanobis / score results, by-hand run of export_python(), what the adapter passed to the
filter (recorded by wrapping python.compile_ekf: no source change), parameter snapshots, results of parameter operations."""
import copy
import dataclasses
import json
import sys
import traceback

import numpy as np
from sklearn.base import clone

sys.path.insert(0, __file__.rsplit("/", 1)[0])
import glue_py as G  # noqa: E402
from formak import python  # noqa: E402
from formak.exceptions import MinimizationFailure, ModelConstructionError  # noqa: E402


class Recorder:
    """proxy around the real filter returned by compile_ekf: records the arguments of the calls transform makes"""

    def __init__(self, ekf, log):
        object.__setattr__(self, "_ekf", ekf)
        object.__setattr__(self, "_log", log)

    def __getattr__(self, n):
        return getattr(self._ekf, n)

    def process_model(self, dt, state, covariance, control=None):
        self._log.append(["P", float(dt), [float(x) for x in control.data[:, 0]]])
        return self._ekf.process_model(dt, state, covariance, control)

    def sensor_model(self, state, covariance, *, sensor_key, sensor_reading):
        self._log.append(["S", str(sensor_key), [float(x) for x in sensor_reading.data[:, 0]]])
        return self._ekf.sensor_model(state, covariance, sensor_key=sensor_key, sensor_reading=sensor_reading)


def snapshot(est, syms_inv):
    p = est.get_params()
    cfg = p["config"]
    return {"process_noise": {str(k): float(v) for k, v in p["process_noise"].items()},
            "sensor_noises": {k: {str(r): float(v) for r, v in m.items()} for k, m in p["sensor_noises"].items()},
            "sensor_models": {k: sorted(str(r) for r in m) for k, m in p["sensor_models"].items()},
            "calibration_map": {str(k): float(v) for k, v in (p["calibration_map"] or {}).items()},
            "symbolic_model_id": (None if p["symbolic_model"] is None else
                                  [sorted(str(s) for s in p["symbolic_model"].state), sorted(str(s) for s in p["symbolic_model"].control),
                                   sorted((str(k), str(v)) for k, v in p["symbolic_model"].state_model.items())]),
            "config": None if cfg is None else {f.name: (getattr(cfg, f.name) if f.name != "python_modules" else modules_token(cfg.python_modules)) for f in dataclasses.fields(python.Config)},
            "config_type": None if cfg is None else type(cfg).__name__}


def modules_token(mods):
    """the default module list is the token "modules"; any other value is spelled out"""
    def one(m):
        return m if isinstance(m, str) else ("dict:" + ",".join(sorted(m)) if isinstance(m, dict) else type(m).__name__)
    desc = "|".join(one(m) for m in mods)
    default = "|".join(one(m) for m in python.DEFAULT_MODULES)
    return "modules" if desc == default else "mods:" + desc


def run_special(job):
    """small adapter histories used by C06 / C08: parameters set through set_params must reach the exported filter"""
    import dataclasses as _dc
    from sympy import Symbol as _S
    out = {}
    if job["kind"] == "set_then_decide":
        dt, x = _S("dt"), _S("x")
        from formak import ui as _ui
        model = _ui.Model(dt=dt, state={x}, control=set(), state_model={x: x})
        est = python.SklearnEKFAdapter.Create(model, {}, {"s": {"r": x}}, {"s": {"r": 1.0}}, {}, config=python.Config())
        est.set_params(**job["sets"])
        ekf = est.export_python()
        st, cv = ekf.State(x=0.0), ekf.Covariance()
        u = ekf.sensor_model(st, cv, sensor_key="s", sensor_reading=ekf.make_reading("s", r=float(job["z"])))
        out = {"discarded": bool(u.state is st and u.covariance is cv), "state": float(u.state.data[0, 0]), "cov": float(u.covariance.data[0, 0]),
               "exported_k": ekf.config.innovation_filtering, "exported_config": {f.name: (getattr(ekf.config, f.name) if f.name != "python_modules" else "modules") for f in _dc.fields(python.Config)}}
    elif job["kind"] == "noise_order":
        # one estimator per declaration order of the per-sensor noise dictionaries; fitting with an optimiser that returns its
        # starting point must hand every named value back under its own name, whatever the order
        from types import SimpleNamespace
        syms, model, sensors, pn, sn, cm = G.build(job["defn"], job.get("decl"))
        X = np.array(job["X"], dtype=float)

        def ident(fun, x0, **_kw):
            fun(np.array(x0, dtype=float))
            return SimpleNamespace(success=True, x=np.array(x0, dtype=float))
        real = python.minimize
        python.minimize = ident
        try:
            for order in ("sorted", "reversed"):
                keys = sorted(sn, key=str)
                keys = keys if order == "sorted" else keys[::-1]
                sn2 = {k: dict(sorted(sn[k].items(), key=lambda kv: str(kv[0]), reverse=(order != "sorted"))) for k in keys}
                est = python.SklearnEKFAdapter.Create(model, pn, sensors, sn2, cm, config=python.Config(innovation_filtering=None))
                try:
                    est.fit(X)
                    snap = snapshot(est, None)
                    out[order] = {"sensor_noises": snap["sensor_noises"], "process_noise": snap["process_noise"]}
                except Exception as e:  # noqa
                    out[order] = {"err": f"{type(e).__name__}: {e}"[:300]}
        finally:
            python.minimize = real
    elif job["kind"] == "toggle_cse":
        syms, model, sensors, pn, sn, cm = G.build(job["defn"], job.get("decl"))
        cfg = python.Config(innovation_filtering=job.get("k"), max_dt_sec=0.2, common_subexpression_elimination=True)
        est = python.SklearnEKFAdapter.Create(model, pn, sensors, sn, cm, config=cfg)
        X = np.array(job["X"], dtype=float)

        def tr():
            # a random non-linear definition may overflow over the rows of X (the filter then refuses its own covariance):
            # such a history is outside the property, but it must behave the same way under both settings
            try:
                with np.errstate(all="ignore"):
                    return [[float(v) for v in row] for row in est.transform(X)], None
            except (AssertionError, FloatingPointError, OverflowError, ZeroDivisionError, np.linalg.LinAlgError) as e:
                return [], type(e).__name__
        T1, e1 = tr()
        before = snapshot(est, None)
        est.set_params(common_subexpression_elimination=False)
        after = snapshot(est, None)
        T2, e2 = tr()
        out = {"T_on": T1, "T_off": T2, "err_on": e1, "err_off": e2, "before": before, "after": after}
    return out


def run_job(job):
    if job.get("kind"):
        return run_special(job)
    defn = job["defn"]
    syms, model, sensors, pn, sn, cm = G.build(defn, job.get("decl"))
    # max_dt_sec belongs to the managed runtime's sub-stepping: the adapter's own fixed step must not depend on it
    cfg = python.Config(innovation_filtering=job.get("k"), max_dt_sec=job.get("max_dt_sec", 0.1))
    est = python.SklearnEKFAdapter.Create(model, pn, sensors, sn, cm, config=cfg)
    out = {}
    if job.get("X") is not None:
        X = np.array(job["X"], dtype=float)
        before = snapshot(est, None)
        log = []
        real = python.compile_ekf
        python.compile_ekf = lambda *a, **kw: Recorder(real(*a, **kw), log)
        try:
            T1 = est.transform(X)
        finally:
            python.compile_ekf = real
        out["recorded"] = log
        T2 = est.transform(X)
        Mh = est.mahalanobis(X)
        sc = est.score(X, explain_score=True)
        sc2 = est.score(X)
        after = snapshot(est, None)
        out["transform"] = [[float(v) for v in row] for row in T1]
        out["transform_repeat_identical"] = bool(np.array_equal(T1, T2))
        # the same data matrix in other accepted forms: nested list, and (one column only) the flat sequence of its samples
        forms = {"nested_list": [list(map(float, row)) for row in X]}
        if X.shape[1] == 1:
            forms["flat_array"] = X[:, 0].copy()
            forms["flat_list"] = [float(v) for v in X[:, 0]]
        out["input_forms"] = {}
        for name, Xf in forms.items():
            try:
                Tf = np.asarray(est.transform(Xf), dtype=float)
                out["input_forms"][name] = [[float(v) for v in row] for row in Tf.reshape((Tf.shape[0], -1))] if Tf.ndim >= 1 and Tf.size else []
            except Exception as e:  # noqa
                out["input_forms"][name] = {"err": f"{type(e).__name__}: {e}"[:300]}
        out["mahalanobis"] = [float(v) for v in Mh]
        out["score"] = float(sc[0])
        out["score_terms"] = [float(x) for x in sc[1]]
        out["score_repeat_identical"] = bool(sc2 == sc[0])
        out["params_unchanged"] = before == after
        out["params_before"], out["params_after"] = before, after
        # by hand on the exported filter
        ekf = est.export_python()
        state, cov = ekf.State(), ekf.Covariance()
        c = ekf.control_size
        bh = []
        for row in X:
            ctl = ekf.Control.from_data(row[:c].reshape((c, 1)))
            state, cov = ekf.process_model(0.1, state, cov, ctl)
            rest = row[c:]
            r = []
            for key in sorted(ekf.sensor_models):
                m = ekf.sensor_models[key].sensor_size
                rd = ekf.make_reading(key, data=rest[:m].reshape((m, 1)))
                rest = rest[m:]
                state, cov = ekf.sensor_model(state, cov, sensor_key=key, sensor_reading=rd)
                inn, S = ekf.innovations[key], ekf.sensor_prediction_uncertainty[key]
                r.append(float((inn.T @ np.linalg.inv(S) @ inn).item()))
            bh.append(r)
        out["by_hand"] = bh
        out["sensor_sizes"] = {k: ekf.sensor_models[k].sensor_size for k in ekf.sensor_models}
        out["control_size"] = c
    # ---------------- parameter operations (C17)
    if job.get("ops"):
        tokens = {}
        res = []
        if job.get("config0_view"):
            from formak import ui_state_machine as _sm
            est2 = python.SklearnEKFAdapter.Create(model, pn, sensors, sn, cm, config=_sm.ConfigView(dict(job.get("config0", {}))))
        else:
            est2 = python.SklearnEKFAdapter.Create(model, pn, sensors, sn, cm, config=python.Config(**job.get("config0", {})))
        out["ops_initial"] = snapshot(est2, None)
        for op in job["ops"]:
            r = {"op": op[0]}
            try:
                if op[0] == "get_set":
                    est2.set_params(**est2.get_params())
                elif op[0] == "clone":
                    c2 = clone(est2)
                    r["clone_equal"] = snapshot(c2, None) == snapshot(est2, None)
                elif op[0] == "set":
                    kw = {}
                    for k, v in op[1].items():
                        if isinstance(v, dict) and "config" in v:
                            kw[k] = python.Config(**v["config"])
                        elif isinstance(v, dict) and "noise" in v:
                            kw[k] = {syms[a]: b for a, b in v["noise"].items()}
                        elif k == "python_modules":
                            kw[k] = tuple(v)
                        else:
                            kw[k] = v
                    est2.set_params(**kw)
                r["result"] = "ok"
            except ModelConstructionError:
                r["result"] = "ModelConstructionError"
            except Exception as e:  # noqa
                r["result"] = "other:" + type(e).__name__ + ":" + str(e)[:100]
            r["state"] = snapshot(est2, None)
            res.append(r)
        out["ops"] = res
    # ---------------- flatten / inverse flatten (C17)
    if job.get("vectors") is not None:
        est3 = python.SklearnEKFAdapter.Create(model, pn, copy.deepcopy(sensors), copy.deepcopy(sn), cm, config=python.Config())
        out["flatten"] = [float(x) for x in est3._flatten_scoring_params()]
        inv = []
        for x in job["vectors"]:
            e4 = python.SklearnEKFAdapter.Create(model, pn, copy.deepcopy(sensors), copy.deepcopy(sn), cm, config=python.Config())
            p = e4._inverse_flatten_scoring_params(list(x))
            inv.append({"process_noise": {str(k): float(v) for k, v in p["process_noise"].items()},
                        "sensor_noises": {k: {str(r): float(v) for r, v in m.items()} for k, m in p["sensor_noises"].items()},
                        "other_keys_same": all(p[k] is getattr(e4, k) for k in ("symbolic_model", "sensor_models", "calibration_map", "config"))})
        out["inverse"] = inv
    if job.get("fit_rows"):
        # a configuration in which every field differs from its default: fitting may only retune noise
        fcfg = python.Config(innovation_filtering=job.get("k"), **job.get("fit_config", {}))
        e5 = python.SklearnEKFAdapter.Create(model, pn, copy.deepcopy(sensors), copy.deepcopy(sn), cm, config=fcfg)
        b5 = snapshot(e5, None)
        Xf = np.array(job["fit_X"], dtype=float)
        try:
            r = e5.fit(Xf)
            out["fit"] = {"result": "ok", "returns_self": r is e5, "before": b5, "after": snapshot(e5, None)}
        except MinimizationFailure:
            out["fit"] = {"result": "MinimizationFailure", "before": b5, "after": snapshot(e5, None)}
        except Exception as e:  # noqa
            out["fit"] = {"result": "other:" + type(e).__name__ + ": " + str(e)[:200]}
    return out


def main():
    inp = json.load(open(sys.argv[1]))
    res = []
    for job in inp["jobs"]:
        try:
            res.append(run_job(job))
        except Exception as e:  # noqa
            res.append({"error": traceback.format_exc()[-1500:], "kind": type(e).__name__})
    json.dump({"results": res}, open(sys.argv[2], "w"))


main()
