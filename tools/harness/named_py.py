"""common.named_vector / named_covariance: sequences of constructions on ONE generated class.
in: {"cases": [{"kind": "vector"|"covariance", "arglist": [names], "ops": [{"op": "make"|"from_data"|"from_dict", "kwargs": {..}, "shape": [r,c]}]}]}
out: {"results": [[{"data": [[..]], "data_after_all": [[..]]} | {"err": "TypeError"|...}, ...]]}
Every object is read immediately and again after all constructions of the case (aliasing between objects shows up there)."""
import json, sys
import numpy as np
from sympy import Symbol
from formak import common
inp = json.load(open(sys.argv[1]))
out = []
for c in inp["cases"]:
    args = [Symbol(a) for a in c["arglist"]]
    cls = (common.named_vector if c["kind"] == "vector" else common.named_covariance)("X", args)
    objs, res = [], []
    for o_ in c["ops"]:
        try:
            if o_["op"] == "make":
                o = cls(**o_["kwargs"])
            elif o_["op"] == "from_dict":
                o = cls.from_dict({Symbol(k): v for k, v in o_["kwargs"].items()})
            elif o_["op"] == "from_dict_pair":
                # a pair of names is not a name of the container: it must be refused like any unknown key
                dct = {Symbol(k): v for k, v in o_["kwargs"].items()}
                dct[(Symbol(o_["pair"][0]), Symbol(o_["pair"][1]))] = o_["pair"][2]
                o = cls.from_dict(dct)
            elif o_["op"] == "from_data_reshaped":
                # the right number of elements in the wrong shape (row instead of column, flat, square instead of column):
                # must be refused like any other wrong shape
                shp = tuple(o_["raw_shape"])
                o = cls.from_data(np.arange(int(np.prod(shp)), dtype=float).reshape(shp) + 0.5)
            else:
                r, cc = o_["shape"]
                o = cls.from_data(np.arange(r * cc, dtype=float).reshape((r, cc)) + 0.5)
            objs.append(o)
            res.append({"data": [[float(x) for x in row] for row in o.data]})
        except (TypeError, ValueError, AssertionError) as e:
            objs.append(None)
            res.append({"err": type(e).__name__})
    for o, r in zip(objs, res):
        if o is not None:
            r["data_after_all"] = [[float(x) for x in row] for row in o.data]
    out.append(res)
json.dump({"results": out}, open(sys.argv[2], "w"))
