"""Per-job wall-clock limit for the harnesses whose jobs call sympy (simplify can take tens of minutes on an unlucky
random expression: compile time of the library, not a property).  A job that exceeds the limit is reported with
kind "SlowCompile"; the driver counts such jobs and does not turn them into violations unless they are many."""
import os
import signal
import traceback

LIMIT = int(os.environ.get("FV_JOB_LIMIT", "240"))


class _Slow(Exception):
    pass


def _alarm(*_a):
    raise _Slow()


def run_limited(fn, job):
    old = signal.signal(signal.SIGALRM, _alarm)
    signal.alarm(LIMIT)
    try:
        return fn(job)
    except _Slow:
        return {"error": f"job exceeded {LIMIT} s (sympy simplify / code generation); skipped", "kind": "SlowCompile"}
    except Exception as e:  # noqa
        return {"error": traceback.format_exc()[-2000:], "kind": type(e).__name__}
    finally:
        signal.alarm(0)
        signal.signal(signal.SIGALRM, old)
