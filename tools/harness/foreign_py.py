"""Values carrying OTHER names handed to an operation (C13: values are bound by name, never by position).
in : {"cases": [{"own": [state names], "foreign": [as many other names], "s1": [reading names], "s2": [as many other reading names],
                 "data": [floats per state], "rdata": [floats per reading], "diag": [positive floats per state]}]}
out: {"results": [{"<op>": {"own": [..], "foreign": [..] | {"err": type}}}]}
  ops: model (Model.model), process_state / process_cov (filter prediction with a foreign State / Covariance),
       sensor (update of sensor s1 with a Reading generated for sensor s2)"""
import json
import sys
import numpy as np
from sympy import Symbol
from formak import python, ui

inp = json.load(open(sys.argv[1]))


def build(names, s1, s2):
    dt = Symbol("dt")
    st = [Symbol(n) for n in names]
    u = Symbol("u_in")
    sm = {s: s + dt * (st[(i + 1) % len(st)] if len(st) > 1 else u) for i, s in enumerate(st)}
    sm[st[-1]] = st[-1] + dt * u
    model = ui.Model(dt=dt, state=set(st), control={u}, state_model=sm)
    sensors = {"s1": {r: (i + 1) * st[i % len(st)] + st[0] for i, r in enumerate(s1)},
               "s2": {r: (i + 2) * st[(i + 1) % len(st)] - st[0] for i, r in enumerate(s2)}}
    noise = {"s1": {r: 0.5 for r in s1}, "s2": {r: 0.25 for r in s2}}
    cfg = python.Config(innovation_filtering=None)
    return python.compile(model, config=cfg), python.compile_ekf(model, {u: 0.25}, sensors, noise, config=cfg)


def attempt(f):
    try:
        return [float(x) for x in np.asarray(f()).ravel()]
    except BaseException as e:  # noqa
        if isinstance(e, (KeyboardInterrupt, SystemExit)):
            raise
        return {"err": type(e).__name__}


out = []
for c in inp["cases"]:
    pm, ekf = build(c["own"], c["s1"], c["s2"])
    pm_f, ekf_f = build(c["foreign"], c["s1"], c["s2"])
    n = len(c["own"])
    x = np.array([c["data"]]).transpose()
    P = np.diag(c["diag"])
    z = np.array([c["rdata"]]).transpose()
    own_s, for_s = ekf.State.from_data(x.copy()), ekf_f.State.from_data(x.copy())
    own_P, for_P = ekf.Covariance.from_data(P.copy()), ekf_f.Covariance.from_data(P.copy())
    ctl = ekf.Control(u_in=0.5)
    R1, R2 = ekf.sensor_models["s1"].Reading, ekf.sensor_models["s2"].Reading
    r = {}
    r["model"] = {"own": attempt(lambda: pm.model(0.05, pm.State.from_data(x.copy()), pm.Control(u_in=0.5)).data),
                  "foreign": attempt(lambda: pm.model(0.05, pm_f.State.from_data(x.copy()), pm.Control(u_in=0.5)).data)}
    r["process_state"] = {"own": attempt(lambda: ekf.process_model(0.05, own_s, own_P, ctl).state.data),
                          "foreign": attempt(lambda: ekf.process_model(0.05, for_s, own_P, ctl).state.data)}
    r["process_cov"] = {"own": attempt(lambda: ekf.process_model(0.05, own_s, own_P, ctl).covariance.data),
                        "foreign": attempt(lambda: ekf.process_model(0.05, own_s, for_P, ctl).covariance.data)}
    r["sensor"] = {"own": attempt(lambda: ekf.sensor_model(own_s, own_P, sensor_key="s1", sensor_reading=R1.from_data(z.copy())).state.data),
                   "foreign": attempt(lambda: ekf.sensor_model(own_s, own_P, sensor_key="s1", sensor_reading=R2.from_data(z.copy())).state.data)}
    out.append(r)
json.dump({"results": out}, open(sys.argv[2], "w"))
