"""Verdicts of the five entry points on raw (possibly faulty) definitions.
in : {"defs": [raw]} with raw = {"dt","state","control","calibration","state_model": {key: expr},
      "calibration_map": {name: v}, "process_noise": [[kind, name, value]], "sensors": {k: {r: expr}}, "sensor_noise": {k: {r: v}}}
      process-noise key kinds: "sym" (Symbol of that name), "str" (a plain string), "tuple" (a pair of Symbols)
out: {"results": [{"ui": v, "py_compile": v, "py_compile_ekf": v, "cpp_compile": v, "cpp_compile_ekf": v}]}
      v = "accept" | "refuse:<ExceptionType>" | "skip" (not reachable: ui.Model refused)"""
import json
import os
import shutil
import sys
import tempfile

import sympy
from sympy import Symbol

sys.path.insert(0, __file__.rsplit("/", 1)[0])
import glue_py as G  # noqa: E402
from formak import cpp, python, ui  # noqa: E402


def verdict(f):
    try:
        r = f()
        return "accept", r
    except BaseException as e:  # noqa
        if isinstance(e, (KeyboardInterrupt, SystemExit)):
            raise
        return "refuse:" + type(e).__name__, None


def run(raw, workdir):
    names = set([raw["dt"]] + raw["state"] + raw["control"] + raw["calibration"] + list(raw["state_model"]) + list(raw["calibration_map"]))
    for k, n, v in raw["process_noise"]:
        names.add(n)

    def collect(e):
        if e[0] == "var":
            names.add(e[1])
        elif e[0] in ("add", "mul"):
            collect(e[1]); collect(e[2])
        elif e[0] == "pow":
            collect(e[1])
        elif e[0] == "fn":
            collect(e[2])
    for e in raw["state_model"].values():
        collect(e)
    for rd in raw["sensors"].values():
        for e in rd.values():
            collect(e)
    syms = {n: Symbol(n) for n in names}
    out = {}
    sm = {syms[k]: G.to_sympy(e, syms) for k, e in raw["state_model"].items()}
    v, model = verdict(lambda: ui.Model(dt=syms[raw["dt"]], state=set(syms[x] for x in raw["state"]), control=set(syms[x] for x in raw["control"]),
                                        calibration=set(syms[x] for x in raw["calibration"]), state_model=sm))
    out["ui"] = v
    if model is None:
        return dict(out, py_compile="skip", py_compile_ekf="skip", cpp_compile="skip", cpp_compile_ekf="skip")
    cm = {syms[k]: val for k, val in raw["calibration_map"].items()}
    pn = {}
    for kind, n, val in raw["process_noise"]:
        if kind == "sym":
            key = syms[n]
        elif kind == "symreal":
            key = Symbol(n, real=True)   # same name, different assumptions: a different sympy symbol
        elif kind == "str":
            key = n
        else:
            key = (syms[n], syms[raw["control"][0]] if raw["control"] else syms[n])
        pn[key] = val
    sensors = {k: {r: G.to_sympy(e, syms) for r, e in rd.items()} for k, rd in raw["sensors"].items()}
    sn = {k: dict(rd) for k, rd in raw["sensor_noise"].items()}
    if raw.get("reading_keys") == "symbol":
        # the project's own examples key readings (and their noise) by Symbol rather than by str
        sensors = {k: {Symbol(r): e for r, e in rd.items()} for k, rd in sensors.items()}
        sn = {k: {Symbol(r): v for r, v in rd.items()} for k, rd in sn.items()}
    cfg = python.Config(innovation_filtering=None)
    vf = raw.get("valid_first")
    if vf:
        # history on ONE model object: a valid filter is built from it first; the verdict on the faulty definition that
        # follows may not depend on that
        vpn = {syms[n]: val for _k, n, val in vf["process_noise"]}
        vsens = {k: {r: G.to_sympy(e, syms) for r, e in rd.items()} for k, rd in vf["sensors"].items()}
        vsn = {k: dict(rd) for k, rd in vf["sensor_noise"].items()}
        vcm = {syms[k]: val for k, val in vf["calibration_map"].items()}
        out["valid_first_py"], _ = verdict(lambda: python.compile_ekf(model, vpn, vsens, vsn, vcm, config=cfg))
    out["py_compile"], _ = verdict(lambda: python.compile(model, cm, config=cfg))
    out["py_compile_ekf"], _ = verdict(lambda: python.compile_ekf(model, pn, sensors, sn, cm, config=cfg))
    # C++ entry points with real --header / --source paths so that the lazily generated parts run
    for name, call in (("cpp_compile", lambda: cpp.compile(model, cm, config=cpp.Config())),
                       ("cpp_compile_ekf", lambda: cpp.compile_ekf(model, pn, sensors, sn, cm, config=cpp.Config()))):
        d = os.path.join(workdir, name)
        shutil.rmtree(d, ignore_errors=True)
        os.makedirs(os.path.join(d, "generated"))
        hdr, src = os.path.join(d, "generated", "f.h"), os.path.join(d, "f.cpp")
        argv = sys.argv
        sys.argv = ["generator.py", "--header", hdr, "--source", src, "--namespace", "fv"]
        stdout = sys.stdout
        sys.stdout = open(os.devnull, "w")
        try:
            if vf and name == "cpp_compile_ekf":
                out["valid_first_cpp"], _ = verdict(lambda: cpp.compile_ekf(model, vpn, vsens, vsn, vcm, config=cpp.Config()))
                for f_ in (hdr, src):
                    if os.path.exists(f_):
                        os.remove(f_)
            v, r = verdict(call)
        finally:
            sys.stdout.close()
            sys.stdout = stdout
            sys.argv = argv
        written = os.path.exists(hdr) and os.path.getsize(hdr) > 0 and os.path.exists(src) and os.path.getsize(src) > 0
        if v == "accept" and not (r is not None and getattr(r, "success", False) and written):
            v = "refuse:NoOutput"
        out[name] = v
        out[name + "_files_written"] = bool(written)
    return out


def main():
    inp = json.load(open(sys.argv[1]))
    work = tempfile.mkdtemp(prefix="fv_valid_", dir="/var/tmp")
    try:
        res = []
        for raw in inp["defs"]:
            try:
                res.append(run(raw, work))
            except Exception as e:  # noqa
                import traceback
                res.append({"error": traceback.format_exc()[-1200:], "kind": type(e).__name__})
        json.dump({"results": res}, open(sys.argv[2], "w"))
    finally:
        shutil.rmtree(work, ignore_errors=True)


main()
