"""Long prediction / update histories on the real python.ExtendedKalmanFilter.
in: {"jobs": [{"defn", "cse", "max_dt", "ops": [["p", dt, {control}] | ["u", key, {reading}]], "P0": [[..]], "x0": {..}}]}
out: per job {"steps_done", "failed_at", "failure", "min_rel_eig", "max_asym_rel", "max_abs", "stopped": reason,
              "amp_rel": first-order bound on accumulated rounding relative to magnitude at the last step, "amp_max"}

Rounding bound.  A rounding error dP injected at one step reaches later covariances as F dP F^T with F = G for a
prediction and F = I - K H for an update (the derivative of both update forms at the optimal gain).  The harness
therefore carries the matrix recurrence  E' = F E F^T + C u diag(row sums of the entry-wise size |G| |P| |G|^T ... of the
products formed in this step), with
u = 2^-53 and a generous constant C, using the filter's own Jacobians: if -E <= dP <= E in the Loewner order then
-F E F^T <= F dP F^T <= F E F^T, so lambda_max(E) bounds every eigenvalue defect to first order.  lambda_max(E) / max(1, |P|) is the level at which
'up to rounding relative to magnitude' can be asked of ANY covariance-form implementation on this history; on
histories whose noise-free dynamics are expansive it grows exponentially and no fixed tolerance can hold."""
import json, sys, traceback
import numpy as np
sys.path.insert(0, __file__.rsplit("/", 1)[0])
import glue_py as G  # noqa
from formak import python  # noqa


def dominate(B):
    """a symmetric error D with |D_ij| <= B_ij satisfies -L <= D <= L in the Loewner order for L = diag(row sums of the
    symmetrised B):  |x^T D x| <= sum_ij |x_i||x_j| B_ij <= sum_i x_i^2 sum_j B_ij.  Keeps the bound component-wise: a
    state that is only copied (no arithmetic on it) receives no rounding from the large entries of another one."""
    Bs = (np.abs(B) + np.abs(B).T) / 2
    return np.diag(Bs.sum(axis=1))


def run_job(job):
    defn = job["defn"]
    syms, model, sensors, pn, sn, cm = G.build(defn, job.get("decl"))
    cfg = python.Config(common_subexpression_elimination=job["cse"], innovation_filtering=None, max_dt_sec=job.get("max_dt", 0.1))
    ekf = python.compile_ekf(model, pn, sensors, sn, cm, config=cfg)
    state = ekf.State(**job["x0"])
    cov = ekf.Covariance.from_data(np.array(job["P0"], dtype=float))
    out = {"steps_done": 0, "failed_at": None, "failure": None, "min_rel_eig": 0.0, "max_asym_rel": 0.0, "max_abs": 0.0, "stopped": None,
           "amp_rel": 0.0, "amp_max": 0.0, "defect_over_bound": 0.0, "max_defect_rel": 0.0}
    n = len(defn["state"])
    U = 2.0 ** -53
    CONST = 16.0 * n
    E = np.zeros((n, n))
    I_n = np.eye(n)
    amp_limit = job.get("amp_limit")
    every = job.get("checkpoint_every")
    out["checkpoints"] = []
    nrm = lambda A: float(np.linalg.norm(A, 2)) if A.size else 0.0  # noqa: E731
    Mn = max([abs(float(v)) for v in defn.get("process_noise", {}).values()] + [0.0])
    for i, op in enumerate(job["ops"]):
        # ---- rounding bound for this step, from the filter's own Jacobians at the state BEFORE the step
        try:
            Pn = nrm(cov.data)
            if op[0] == "p":
                ctl = ekf.Control(**op[2])
                Gm = ekf.process_jacobian(float(op[1]), state, ctl)
                Vm = np.asarray(ekf.control_jacobian(float(op[1]), state, ctl), dtype=float)
                # entry-wise rounding of the products formed: |fl(G P G^T) - G P G^T| <= gamma |G| |P| |G|^T
                B = np.abs(Gm) @ np.abs(cov.data) @ np.abs(Gm).T
                if Vm.size:
                    B = B + np.abs(Vm) @ (Mn * np.eye(Vm.shape[1])) @ np.abs(Vm).T
                E = Gm @ E @ Gm.T + CONST * U * dominate(B)
            else:
                Hm = ekf.sensor_jacobian(op[1], state)
                Ps = (cov.data + cov.data.T) / 2
                Rm = np.diag([float(defn["sensor_noise"][op[1]][r]) for r in sorted(defn["sensor_noise"][op[1]])])
                Sm = Hm @ Ps @ Hm.T + Rm
                Si = np.linalg.inv(Sm)
                Km = Ps @ Hm.T @ Si
                Fm = I_n - Km @ Hm
                aP, aH, aK = np.abs(Ps), np.abs(Hm), np.abs(Km)
                dS = nrm(aH @ aP @ aH.T + np.abs(Rm))                                    # rounding of S (relative to u)
                dSi = nrm(Si) ** 2 * dS + float(np.linalg.cond(Sm)) * nrm(Si)            # of its inverse
                Kerr = (aP @ aH.T) * dSi + aP @ aH.T @ np.abs(Si)                        # entry-wise, of the gain
                B = aP + aK @ aH @ aP + Kerr @ np.abs(Hm @ Ps)                           # entry-wise, of P - K H P
                E = Fm @ E @ Fm.T + CONST * U * dominate(B)
        except Exception as e:  # noqa
            out["stopped"] = "bound computation failed: " + type(e).__name__
            break
        try:
            if op[0] == "p":
                state, cov = ekf.process_model(float(op[1]), state, cov, ekf.Control(**op[2]))
            else:
                state, cov = ekf.sensor_model(state, cov, sensor_key=op[1], sensor_reading=ekf.make_reading(op[1], **op[2]))
        except AssertionError as e:
            out["failed_at"], out["failure"] = i, "AssertionError: " + str(e)[:400]
            out["last_cov"] = [[float(x) for x in row] for row in cov.data]
            out["amp_rel_at_failure"] = (float(np.linalg.eigvalsh((E + E.T) / 2)[-1]) if np.all(np.isfinite(E)) else float("inf")) / max(1.0, float(np.max(np.abs(cov.data))))
            break
        except Exception as e:  # noqa
            out["failed_at"], out["failure"] = i, type(e).__name__ + ": " + str(e)[:300]
            break
        P = cov.data
        mx = float(np.max(np.abs(P)))
        if not np.all(np.isfinite(P)) or mx > 1e9 or not np.all(np.isfinite(state.data)):
            out["stopped"] = "magnitude bound exceeded"
            break
        sc = max(1.0, mx)
        E = (E + E.T) / 2
        En = float(np.linalg.eigvalsh(E)[-1]) if np.all(np.isfinite(E)) else float("inf")
        out["amp_rel"] = En / sc
        out["amp_max"] = max(out["amp_max"], En / sc)
        if amp_limit is not None and En / sc > amp_limit:
            out["stopped"] = "rounding amplification bound exceeded"
            break
        out["max_abs"] = max(out["max_abs"], mx)
        out["max_asym_rel"] = max(out["max_asym_rel"], float(np.max(np.abs(P - P.T))) / sc)
        ev = np.linalg.eigvalsh((P + P.T) / 2)
        out["min_rel_eig"] = min(out["min_rel_eig"], float(ev[0]) / max(1.0, float(ev[-1])))
        defect = max(-float(ev[0]), float(np.max(np.abs(P - P.T))), 0.0)
        out["max_defect_rel"] = max(out["max_defect_rel"], defect / sc)
        if En > 0:
            out["defect_over_bound"] = max(out["defect_over_bound"], defect / En)
        out["steps_done"] = i + 1
        if every and (i + 1) % every == 0 and len(out["checkpoints"]) < 64:
            out["checkpoints"].append({"step": i + 1, "cov": [[float(x).hex() for x in row] for row in P], "bound_abs": En})
    return out


def main():
    inp = json.load(open(sys.argv[1]))
    res = []
    for job in inp["jobs"]:
        try:
            res.append(run_job(job))
        except Exception as e:  # noqa
            res.append({"error": traceback.format_exc()[-1500:], "kind": type(e).__name__})
    json.dump({"results": res}, open(sys.argv[2], "w"))


main()
