"""Long prediction / update histories on the real python.ExtendedKalmanFilter.
in: {"jobs": [{"defn", "cse", "max_dt", "ops": [["p", dt, {control}] | ["u", key, {reading}]], "P0": [[..]], "x0": {..}}]}
out: per job {"steps_done", "failed_at", "failure", "min_rel_eig", "max_asym_rel", "max_abs", "stopped": reason}"""
import json, sys, traceback
import numpy as np
sys.path.insert(0, __file__.rsplit("/", 1)[0])
import glue_py as G  # noqa
from formak import python  # noqa


def run_job(job):
    defn = job["defn"]
    syms, model, sensors, pn, sn, cm = G.build(defn, job.get("decl"))
    cfg = python.Config(common_subexpression_elimination=job["cse"], innovation_filtering=None, max_dt_sec=job.get("max_dt", 0.1))
    ekf = python.compile_ekf(model, pn, sensors, sn, cm, config=cfg)
    state = ekf.State(**job["x0"])
    cov = ekf.Covariance.from_data(np.array(job["P0"], dtype=float))
    out = {"steps_done": 0, "failed_at": None, "failure": None, "min_rel_eig": 0.0, "max_asym_rel": 0.0, "max_abs": 0.0, "stopped": None}
    for i, op in enumerate(job["ops"]):
        try:
            if op[0] == "p":
                state, cov = ekf.process_model(float(op[1]), state, cov, ekf.Control(**op[2]))
            else:
                state, cov = ekf.sensor_model(state, cov, sensor_key=op[1], sensor_reading=ekf.make_reading(op[1], **op[2]))
        except AssertionError as e:
            out["failed_at"], out["failure"] = i, "AssertionError: " + str(e)[:400]
            out["last_cov"] = [[float(x) for x in row] for row in cov.data]
            break
        except Exception as e:  # noqa
            out["failed_at"], out["failure"] = i, type(e).__name__ + ": " + str(e)[:300]
            break
        P = cov.data
        mx = float(np.max(np.abs(P)))
        if not np.all(np.isfinite(P)) or mx > 1e9 or not np.all(np.isfinite(state.data)):
            out["stopped"] = "magnitude bound exceeded"
            break
        sc = max(1.0, mx)
        out["max_abs"] = max(out["max_abs"], mx)
        out["max_asym_rel"] = max(out["max_asym_rel"], float(np.max(np.abs(P - P.T))) / sc)
        ev = np.linalg.eigvalsh((P + P.T) / 2)
        out["min_rel_eig"] = min(out["min_rel_eig"], float(ev[0]) / max(1.0, float(ev[-1])))
        out["steps_done"] = i + 1
    return out


def main():
    inp = json.load(open(sys.argv[1]))
    res = []
    for job in inp["jobs"]:
        try:
            res.append(run_job(job))
        except Exception as e:  # noqa
            res.append({"error": traceback.format_exc()[-1500:], "kind": type(e).__name__})
    json.dump({"results": res}, open(sys.argv[2], "w"))


main()
