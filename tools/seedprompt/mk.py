import json,sys
pre=open('/verif/tools/seedprompt/preamble.txt').read()
pid=sys.argv[1]
for l in open('/verif/properties.jsonl'):
    p=json.loads(l)
    if p['id']==pid:
        prop=f"Property {p['id']}: {p['title']}\nStatement: {p['statement']}\nQuantified over: {p['quantifier']['text']}\nWhere in the code: {', '.join(p['anchors']['files'])}"
        print(pre.format(WT=f'/tmp/seed/{pid}',ID=pid,PROP=prop))
