"""Prompt for a second-round seeding agent: same brief as round one plus the summaries of the two changes already
held for the property, so that the new ones are of a different kind / at a different site."""
import json, sys
pre = open('/verif/tools/seedprompt/preamble.txt').read()
pid = sys.argv[1]
root = sys.argv[2] if len(sys.argv) > 2 else '/tmp/seed2'
for l in open('/verif/properties.jsonl'):
    p = json.loads(l)
    if p['id'] == pid:
        prop = (f"Property {p['id']}: {p['title']}\nStatement: {p['statement']}\nQuantified over: {p['quantifier']['text']}\n"
                f"Where in the code: {', '.join(p['anchors']['files'])}")
        txt = pre.format(WT=f'{root}/{pid}', ID=pid, PROP=prop)
        prev = []
        for L in 'ABCDEF':
            try:
                m = json.load(open(f'/verif/seeded/{pid}{L}/meta.json'))
                prev.append(f" - (already done, do NOT repeat) {m['summary'][:500]}")
            except Exception:
                pass
        txt += ("\n\nThis is a LATER round. Changes already produced for this property by earlier agents:\n" + "\n".join(prev) +
                "\nYours must be of a different kind and at a different site from these (different function or different file; if the property "
                "spans the Python and the C++ side or several entry points, prefer the side / entry point not touched yet; multi-step histories, "
                "boundary values and interactions between two features are welcome). Name your files with the suffixes G and H instead of A and B "
                f"(e.g. {root}/{pid}_patchG.diff, {pid}_demoG.py, {pid}_metaG.json).")
        print(txt)
