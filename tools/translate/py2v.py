"""py2v: a small fail-closed translator from Python function bodies (ast) to Gallina text.

Shallow translation: assignments become `let`, `if` without else becomes a conditional on the tuple of
variables it assigns, `for _ in range(n)` becomes `iterN`, `for x in xs` becomes `fold_left`.  Every
name, attribute path and call must be declared in the per-function Spec; anything else raises
Untranslatable, the caller then writes a file that does not compile (fail closed).

Kinds: 'num' (a value of the Num structure: time / scalar), 'int' (Z), 'nat', 'bool', 'opq' (opaque
value handled only by declared calls), 'mat' (matrix expression, rendered by the matrix back ends).
"""
from __future__ import annotations

import ast
import inspect
import textwrap
from dataclasses import dataclass, field
from fractions import Fraction


class Untranslatable(Exception):
    pass


def fail(node, why):
    line = getattr(node, "lineno", "?")
    try:
        src = ast.unparse(node)
    except Exception:
        src = str(node)
    raise Untranslatable(f"line {line}: {why}: `{src[:120]}`")


def get_source_func(path, qualname):
    """Return the ast.FunctionDef for Class.func or func in file `path` (and the module ast)."""
    tree = ast.parse(open(path).read())
    parts = qualname.split(".")
    node = tree
    for p in parts:
        found = None
        for ch in node.body:
            if isinstance(ch, (ast.FunctionDef, ast.ClassDef)) and ch.name == p:
                found = ch
        if found is None:
            raise Untranslatable(f"{path}: {qualname} not found")
        node = found
    return node


def path_of(node):
    """Dotted path of a Name/Attribute chain, or None."""
    if isinstance(node, ast.Name):
        return node.id
    if isinstance(node, ast.Attribute):
        b = path_of(node.value)
        return None if b is None else b + "." + node.attr
    return None


def float_lit(v: float) -> str:
    """Gallina term `(lit N q f)` carrying the exact decimal value and the nearest double."""
    fr = Fraction(repr(v)) if not isinstance(v, int) else Fraction(v)
    hx = float(v).hex()
    if hx.startswith("-"):
        fl = f"(-{hx[1:]})%float"
    else:
        fl = f"({hx})%float"
    return f"(lit N ({fr.numerator} # {fr.denominator})%Q {fl})"


@dataclass
class Spec:
    names: dict = field(default_factory=dict)  # python path -> (gallina, kind)
    calls: dict = field(default_factory=dict)  # python call path -> (gallina, result kind or tuple arity, [arg handling])
    skip_calls: set = field(default_factory=set)  # statement-level calls that are ignored (recorded)
    ignore_kwargs: bool = False


class FuncTranslator:
    def __init__(self, spec: Spec):
        self.spec = spec
        self.kinds: dict[str, str] = {}
        self.skipped: list[str] = []
        self.fresh = 0
        self.final_fields: list[str] = []

    # ---------------------------------------------------------------- expressions
    def expr(self, e) -> tuple[str, str]:
        """returns (gallina text, kind); `int` values produced by floor are handled by stmt-level bind"""
        if isinstance(e, ast.Constant):
            if isinstance(e.value, bool):
                return ("true" if e.value else "false"), "bool"
            if isinstance(e.value, int):
                return f"({e.value})%Z", "int"
            if isinstance(e.value, float):
                return float_lit(e.value), "num"
            if e.value is None:
                return "None", "none"
            fail(e, "constant of unsupported type")
        p = path_of(e)
        if p is not None:
            if p in self.kinds:
                return p.replace(".", "_"), self.kinds[p]
            if p in self.spec.names:
                g, k = self.spec.names[p]
                return g, k
            fail(e, "undeclared name")
        if isinstance(e, ast.UnaryOp):
            a, k = self.expr(e.operand)
            if isinstance(e.op, ast.USub):
                if k == "num":
                    return f"(opp N {a})", "num"
                if k == "int":
                    return f"(Z.opp {a})", "int"
            if isinstance(e.op, ast.Not) and k == "bool":
                return f"(negb {a})", "bool"
            fail(e, "unary operator")
        if isinstance(e, ast.BinOp):
            a, ka = self.expr(e.left)
            b, kb = self.expr(e.right)
            opn = {ast.Add: "add", ast.Sub: "sub", ast.Mult: "mul", ast.Div: "div"}.get(type(e.op))
            if opn is None:
                fail(e, "binary operator")
            if ka == "num" and kb == "num":
                return f"({opn} N {a} {b})", "num"
            if ka == "num" and kb == "int":
                return f"({opn} N {a} (ofZ N {b}))", "num"
            if ka == "int" and kb == "num":
                return f"({opn} N (ofZ N {a}) {b})", "num"
            if ka == "int" and kb == "int" and opn != "div":
                return f"(Z.{opn} {a} {b})", "int"
            fail(e, f"operand kinds {ka},{kb}")
        if isinstance(e, ast.Compare) and len(e.ops) == 1:
            a, ka = self.expr(e.left)
            b, kb = self.expr(e.comparators[0])
            op = type(e.ops[0])
            if ka == "num" and kb == "num":
                t = {ast.Lt: f"(ltb N {a} {b})", ast.Gt: f"(ltb N {b} {a})", ast.LtE: f"(leb N {a} {b})",
                     ast.GtE: f"(leb N {b} {a})"}.get(op)
                if t:
                    return t, "bool"
            if ka == "int" and kb == "int":
                t = {ast.Lt: f"(Z.ltb {a} {b})", ast.Gt: f"(Z.ltb {b} {a})", ast.LtE: f"(Z.leb {a} {b})",
                     ast.GtE: f"(Z.leb {b} {a})", ast.Eq: f"(Z.eqb {a} {b})"}.get(op)
                if t:
                    return t, "bool"
            if kb == "none" and op in (ast.Is, ast.IsNot) and ka.startswith("opt:"):
                t = f"(is_none {a})" if op is ast.Is else f"(negb (is_none {a}))"
                return t, "bool"
            fail(e, f"comparison of kinds {ka},{kb}")
        if isinstance(e, ast.BoolOp):
            parts = [self.expr(v) for v in e.values]
            if all(k == "bool" for _, k in parts):
                j = " && " if isinstance(e.op, ast.And) else " || "
                return "(" + j.join(t for t, _ in parts) + ")", "bool"
            fail(e, "boolean operator on non-bool")
        if isinstance(e, ast.Call):
            f = path_of(e.func)
            if f == "abs" and len(e.args) == 1:
                a, k = self.expr(e.args[0])
                if k == "num":
                    return f"(absv N {a})", "num"
                if k == "int":
                    return f"(Z.abs {a})", "int"
            if f in self.spec.calls:
                t, rk, _mon = self.call(e)
                if _mon:
                    fail(e, "monadic call in expression position")
                return t, rk
            fail(e, "undeclared call")
        if isinstance(e, ast.Tuple):
            parts = [self.expr(v) for v in e.elts]
            return "(" + ", ".join(t for t, _ in parts) + ")", "tuple:" + ",".join(k for _, k in parts)
        fail(e, "expression form")

    def call(self, e):
        """declared call -> (text, result kind, monadic?)"""
        f = path_of(e.func)
        c = self.spec.calls[f]
        args = [self.expr(self._path_node(p))[0] for p in c.get("prefix", [])]
        args += [self.expr(a)[0] for a in e.args]
        kw = c.get("kw")
        given = {}
        splat = None
        for k in e.keywords:
            if k.arg is None:
                splat = self.expr(k.value)[0]
            else:
                given[k.arg] = self.expr(k.value)[0]
        if given or kw:
            if kw is None:
                fail(e, "keyword arguments not declared for this call")
            npos = len(e.args)
            for name in kw[npos:]:
                if name not in given:
                    fail(e, f"missing argument {name}")
                args.append(given.pop(name))
            if given:
                fail(e, f"unexpected keywords {sorted(given)}")
        if splat is not None:
            if not c.get("splat"):
                fail(e, "**kwargs not declared for this call")
            args.append(splat)
        elif c.get("splat"):
            fail(e, "declared **kwargs missing")
        return "(" + " ".join([c["g"]] + args) + ")", c["kind"], bool(c.get("monadic"))

    def _path_node(self, p):
        return ast.parse(p, mode="eval").body

    # ---------------------------------------------------------------- statements
    def assigned(self, stmts) -> list[str]:
        out = []
        for s in stmts:
            for n in ast.walk(s):
                if isinstance(n, (ast.Assign, ast.AugAssign, ast.AnnAssign)):
                    tg = n.targets if isinstance(n, ast.Assign) else [n.target]
                    for t in tg:
                        for el in (t.elts if isinstance(t, ast.Tuple) else [t]):
                            p = path_of(el)
                            if p and p not in out:
                                out.append(p)
        return out

    def g(self, p):
        return p.replace(".", "_")

    def body(self, stmts, ret_vars=None) -> str:
        """Translate a statement list into a Gallina expression of type option R (Some on normal end)."""
        if not stmts:
            if ret_vars is None:
                fail(ast.Pass(), "function falls off its end")
            return "Some " + self.tuple_of(ret_vars)
        s, rest = stmts[0], stmts[1:]
        if isinstance(s, ast.Expr) and isinstance(s.value, ast.Constant) and isinstance(s.value.value, str):
            return self.body(rest, ret_vars)  # docstring
        if isinstance(s, ast.Expr) and isinstance(s.value, ast.Call):
            f = path_of(s.value.func)
            if f in self.spec.skip_calls:
                self.skipped.append(ast.unparse(s))
                return self.body(rest, ret_vars)
            fail(s, "statement-level call")
        if isinstance(s, ast.Assert):
            self.skipped.append(ast.unparse(s))
            return self.body(rest, ret_vars)
        if isinstance(s, ast.Try):
            # only `try: asserts... except AssertionError: print; raise` is accepted
            if all(isinstance(b, ast.Assert) for b in s.body):
                self.skipped.append("try-assert block")
                return self.body(rest, ret_vars)
            fail(s, "try block")
        if isinstance(s, ast.Return):
            if ret_vars is not None:
                fail(s, "return inside a loop / branch body")
            t, _ = self.expr(s.value)
            if self.final_fields:
                t = f"({t}, {self.tuple_of(self.final_fields)})"
            return f"Some {t}"
        if isinstance(s, ast.Raise):
            return "None"
        if isinstance(s, ast.Assign) and len(s.targets) == 1:
            tgt = s.targets[0]
            # floor(...) produces option Z: bind
            if isinstance(s.value, ast.Call) and self._contains_floor(s.value):
                return self._assign_with_floor(tgt, s.value, rest, ret_vars)
            mon = False
            if isinstance(s.value, ast.Call) and path_of(s.value.func) in self.spec.calls:
                t, k, mon = self.call(s.value)
            else:
                t, k = self.expr(s.value)
            pat = self.bind_pattern(tgt, k)
            if mon:
                return f"obind {t} (fun {pat} =>\n{self.body(rest, ret_vars)})"
            return f"let {pat} := {t} in\n{self.body(rest, ret_vars)}"
        if isinstance(s, ast.If) and not s.orelse and len(s.body) == 1 and isinstance(s.body[0], ast.Assign) \
                and isinstance(s.test, ast.Compare) and len(s.test.ops) == 1 and isinstance(s.test.ops[0], ast.Is) \
                and isinstance(s.test.comparators[0], ast.Constant) and s.test.comparators[0].value is None \
                and len(s.body[0].targets) == 1 and path_of(s.body[0].targets[0]) is not None \
                and path_of(s.body[0].targets[0]) == path_of(s.test.left):
            # idiom: if X is None: X = E   ==>   X := odefault X E
            p = path_of(s.test.left)
            cur, k = self.expr(s.test.left)
            if not k.startswith("opt:"):
                fail(s, "None test on a value that is not optional")
            v = s.body[0].value
            if isinstance(v, ast.List) and not v.elts:
                d = "[]"
            elif isinstance(v, ast.Call) and path_of(v.func) in self.spec.calls:
                d, _, mon = self.call(v)
                if mon:
                    fail(s, "monadic default")
            else:
                d, _ = self.expr(v)
            self.kinds[p] = k[len("opt:"):]
            return f"let {self.g(p)} := odefault {cur} {d} in\n{self.body(rest, ret_vars)}"
        if isinstance(s, ast.If):
            c, k = self.expr(s.test)
            if k != "bool":
                fail(s, "condition is not boolean")
            # early exit: `if c: return e` / `if c: raise`
            if not s.orelse and len(s.body) >= 1 and isinstance(s.body[-1], (ast.Return, ast.Raise)):
                saved = dict(self.kinds)
                then = self.body(s.body, None)
                self.kinds = saved
                return f"if {c} then ({then}) else\n{self.body(rest, ret_vars)}"
            vs = self.assigned(s.body + s.orelse)
            for v in vs:
                if v not in self.kinds and v not in self.spec.names:
                    fail(s, f"variable {v} assigned only inside a branch")
            saved = dict(self.kinds)
            then = self.body(s.body, vs)
            self.kinds = dict(saved)
            els = self.body(s.orelse, vs) if s.orelse else "Some " + self.tuple_of(vs)
            self.kinds = saved
            for v in vs:
                self.kinds.setdefault(v, self.spec.names.get(v, (None, "opq"))[1])
            pat = self.pat_of(vs)
            return (f"obind (if {c} then ({then}) else ({els})) (fun {pat} =>\n{self.body(rest, ret_vars)})")
        if isinstance(s, ast.For) and not s.orelse:
            vs = self.assigned(s.body)
            for v in vs:
                if v not in self.kinds and v not in self.spec.names:
                    fail(s, f"loop-carried variable {v} not initialised before the loop")
            it = s.iter
            if isinstance(it, ast.Call) and path_of(it.func) == "range" and len(it.args) == 1:
                n, k = self.expr(it.args[0])
                if k != "int":
                    fail(s, "range bound is not an int")
                if not (isinstance(s.target, ast.Name) and s.target.id == "_"):
                    fail(s, "range loop variable is used")
                saved = dict(self.kinds)
                b = self.body(s.body, vs)
                self.kinds = saved
                pat = self.pat_of(vs)
                return (f"obind (iterN (Z.to_nat {n}) (fun {pat} => {b}) {self.tuple_of(vs)}) (fun {pat} =>\n"
                        f"{self.body(rest, ret_vars)})")
            # for x in <list>
            lst, k = self.expr(it)
            if not k.startswith("list:"):
                fail(s, "iteration over a non-list")
            x = path_of(s.target)
            if x is None:
                fail(s, "loop target")
            vs = [v for v in vs if not v.startswith(x + ".")]
            saved = dict(self.kinds)
            self.kinds[x] = k.split(":", 1)[1]
            b = self.body(s.body, vs)
            self.kinds = saved
            pat = self.pat_of(vs)
            return (f"obind (ofold (fun {pat} {self.g(x)} => {b}) {lst} {self.tuple_of(vs)}) (fun {pat} =>\n"
                    f"{self.body(rest, ret_vars)})")
        fail(s, "statement form")

    def bind_pattern(self, tgt, kind):
        """pattern text for an assignment target; records the kinds of the bound variables.
        kind: 'tuple:(k1,k2,...)' nested with parentheses, e.g. tuple:num,(opq,opq)"""
        def parse_kind(k):
            # returns nested list structure
            k = k.strip()
            if k.startswith("tuple:"):
                k = k[len("tuple:"):]
                parts, depth, cur = [], 0, ""
                for ch in k:
                    if ch == "(":
                        depth += 1
                    if ch == ")":
                        depth -= 1
                    if ch == "," and depth == 0:
                        parts.append(cur)
                        cur = ""
                    else:
                        cur += ch
                parts.append(cur)
                out = []
                for p_ in parts:
                    p_ = p_.strip()
                    if p_.startswith("(") and p_.endswith(")"):
                        out.append(parse_kind("tuple:" + p_[1:-1]))
                    else:
                        out.append(p_)
                return out
            return k

        def go(t, k, top):
            if isinstance(t, ast.Tuple):
                if not isinstance(k, list) or len(k) != len(t.elts):
                    fail(t, f"tuple target does not match value kind {k}")
                inner = ", ".join(go(x, kk, False) for x, kk in zip(t.elts, k))
                return ("'(" if top else "(") + inner + ")"
            p = path_of(t)
            if p is None:
                fail(t, "assignment target")
            if p == "_":
                return "_"
            if isinstance(k, list):
                k = "tuple:" + ",".join(x if isinstance(x, str) else "(?)" for x in k)
            self.kinds[p] = k
            return self.g(p)
        return go(tgt, parse_kind(kind), True)

    def tuple_of(self, vs):
        if not vs:
            return "tt"
        names = []
        for v in vs:
            if v in self.kinds:
                names.append(self.g(v))
            elif v in self.spec.names:
                names.append(self.spec.names[v][0])
            else:
                names.append(self.g(v))
        return names[0] if len(names) == 1 else "(" + ", ".join(names) + ")"

    def pat_of(self, vs):
        if not vs:
            return "_"
        if len(vs) == 1:
            return self.g(vs[0])
        return "'(" + ", ".join(self.g(v) for v in vs) + ")"

    def _contains_floor(self, e):
        return any(isinstance(n, ast.Call) and path_of(n.func) == "floor" for n in ast.walk(e))

    def _assign_with_floor(self, tgt, value, rest, ret_vars):
        # supported shapes: x = floor(e) | x = abs(floor(e))
        p = path_of(tgt)
        if p is None:
            fail(tgt, "target")
        wrap = None
        v = value
        if path_of(v.func) == "abs" and len(v.args) == 1 and isinstance(v.args[0], ast.Call):
            wrap = "Z.abs"
            v = v.args[0]
        if path_of(v.func) != "floor" or len(v.args) != 1:
            fail(value, "floor in unsupported position")
        a, k = self.expr(v.args[0])
        if k != "num":
            fail(value, "floor of a non-number")
        self.fresh += 1
        tmp = f"fl{self.fresh}"
        self.kinds[p] = "int"
        val = f"({wrap} {tmp})" if wrap else tmp
        return (f"obind (floorZ N {a}) (fun {tmp} =>\nlet {self.g(p)} := {val} in\n{self.body(rest, ret_vars)})")


def indent(txt, n=2):
    return textwrap.indent(txt, " " * n)
