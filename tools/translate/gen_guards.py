"""gen_guards: the validation guards of the five entry points, in source order -> gen/Guards.v.
For each function the ordered list of (`if cond: raise E`, `assert cond`, validation calls) is extracted from the AST
and compared with the sequence the hand model Model/Validate.v was written from.  A guard that disappears, changes
its condition or moves makes the translation fail closed (the model no longer describes the code)."""
import ast
import os
import sys

sys.path.insert(0, os.path.dirname(os.path.abspath(__file__)))
from py2v import Untranslatable, get_source_func

CALLS = ("common.model_validation", "assert_valid_covariance", "Model", "model.ReadingCovariance.from_dict")


def guards(func):
    out = []

    def raises(stmts):
        for s in stmts:
            for n in ast.walk(s):
                if isinstance(n, ast.Raise) and n.exc is not None:
                    e = n.exc
                    return ast.unparse(e.func) if isinstance(e, ast.Call) else ast.unparse(e)
        return None

    def walk(stmts, ctx):
        for s in stmts:
            if isinstance(s, ast.If):
                direct = [x for x in s.body if isinstance(x, ast.Raise) and x.exc is not None]
                r = None
                if direct:
                    e = direct[0].exc
                    r = ast.unparse(e.func) if isinstance(e, ast.Call) else ast.unparse(e)
                if r:
                    out.append(f"{ctx}if {ast.unparse(s.test)}: raise {r}")
                else:
                    walk(s.body, ctx + f"[{ast.unparse(s.test)}] ")
                    walk(s.orelse, ctx + f"[not {ast.unparse(s.test)}] ")
            elif isinstance(s, ast.Assert):
                t = ast.unparse(s.test)
                if not t.startswith("isinstance("):
                    out.append(f"{ctx}assert {t}")
            elif isinstance(s, ast.For):
                walk(s.body, ctx + f"for {ast.unparse(s.target)} in {ast.unparse(s.iter)}: ")
            elif isinstance(s, ast.Try):
                walk(s.body, ctx)
            elif isinstance(s, (ast.Expr, ast.Assign, ast.Return)):
                v = s.value
                for n in ast.walk(v) if v is not None else []:
                    if isinstance(n, ast.Call) and ast.unparse(n.func) in CALLS:
                        out.append(f"{ctx}call {ast.unparse(n.func)}({', '.join([ast.unparse(a) for a in n.args] + [k.arg + '=' + ast.unparse(k.value) for k in n.keywords])})")
    walk(func.body, "")
    return out


EXPECTED = {
    ("ui_model.py", "Model.__init__"): [
        "if not set(self.state).isdisjoint(set(self.calibration)): raise ModelDefinitionError",
        "if not set(self.state).isdisjoint(set(self.control)): raise ModelDefinitionError",
        "if not set(self.calibration).isdisjoint(set(self.control)): raise ModelDefinitionError",
        "if not len(state_model) == len(state): raise ModelDefinitionError",
        "for k in state: assert k in state_model",
    ],
    ("common.py", "model_validation"): [
        "for key in process_noise: if not isinstance(key, Symbol): raise ModelConstructionError",
        "for key in process_noise: if key not in allowed_keys: raise ModelConstructionError",
        "if set(calibration_map.keys()) != declared_calibration: raise ModelConstructionError",
        "for (k, model_set) in sensor_models.items(): for (k2, model) in model_set.items(): if not set(model.free_symbols).issubset(allowed_symbols): raise ModelConstructionError",
        "[extra_validation] if len(results_set) > 0: raise ModelConstructionError",
    ],
    ("python.py", "Model.__init__"): [
        "[self.calibration_size > 0] if len(calibration_map) == 0: raise ModelConstructionError",
        "[self.calibration_size > 0] if len(calibration_map) != self.calibration_size: raise ModelConstructionError",
        "if self.calibration_vector.shape != (self.calibration_size, 1): raise ModelConstructionError",
    ],
    ("python.py", "ExtendedKalmanFilter._construct_process"): [
        "call Model(symbolic_model=state_model, calibration_map=calibration_map, config=config)",
        "assert len(process_noise) == self.control_size",
        "call assert_valid_covariance(self.process_noise)",
        "assert symbolic_process_jacobian.shape == (self.state_size, self.state_size)",
        "assert len(self._impl_process_jacobian) == self.state_size ** 2",
        "assert len(self._impl_control_jacobian) == self.control_size * self.state_size",
    ],
    ("python.py", "ExtendedKalmanFilter._construct_sensors"): [
        "assert set(sensor_models.keys()) == set(sensor_noises.keys())",
        "assert len(sensor_noises) == len(sensor_models)",
        "for (key, model) in self.sensor_models.items(): assert len(sensor_noises[key]) == self.sensor_models[key].sensor_size",
        "for (key, model) in self.sensor_models.items(): call model.ReadingCovariance.from_dict(sensor_noises[key])",
        "for (k, sensor_model) in self.sensor_models.items(): assert symbolic_sensor_jacobian.shape == (sensor_size, self.state_size + self.calibration_size)",
        "for (k, sensor_model) in self.sensor_models.items(): assert len(impl_sensor_jacobian) == sensor_size * (self.state_size + self.calibration_size)",
    ],
    ("python.py", "compile"): [
        "call common.model_validation(symbolic_model, {}, {}, calibration_map=calibration_map, extra_validation=config.extra_validation)",
        "call Model(symbolic_model=symbolic_model, calibration_map=calibration_map, config=config)",
    ],
    ("python.py", "compile_ekf"): [
        "call common.model_validation(symbolic_model, process_noise, sensor_models, calibration_map=calibration_map, extra_validation=config.extra_validation)",
    ],
    ("cpp.py", "Model.__init__"): [
        "[self.calibration_size > 0] if len(calibration_map) == 0: raise ModelConstructionError",
        "[self.calibration_size > 0] if len(calibration_map) != self.calibration_size: raise ModelConstructionError",
    ],
    ("cpp.py", "ExtendedKalmanFilter.__init__"): [
        "[self.calibration_size > 0] if len(calibration_map) == 0: raise ModelConstructionError",
        "[self.calibration_size > 0] if len(calibration_map) != self.calibration_size: raise ModelConstructionError",
        "if len(process_noise) != self.control_size: raise ModelConstructionError",
        "for (key, value) in process_noise.items(): if value < 0.0: raise ModelConstructionError",
        "if set(sensor_models.keys()) != set(sensor_noises.keys()): raise ModelConstructionError",
        "for (key, sensor_model) in sensor_models.items(): if {str(k) for k in sensor_noises[key].keys()} != {str(k) for k in sensor_model.keys()}: raise ModelConstructionError",
    ],
    ("cpp.py", "compile"): [
        "call common.model_validation(symbolic_model, {}, {}, extra_validation=config.extra_validation, calibration_map=calibration_map)",
    ],
    ("cpp.py", "compile_ekf"): [
        "call common.model_validation(state_model, process_noise, sensor_models, extra_validation=config.extra_validation, calibration_map=calibration_map)",
    ],
}
DEFS = {
    ("common.py", "model_validation"): {
        "allowed_keys": "set(list(state_model.control) + [(x, y) for x, y in product(state_model.control, state_model.control) if x != y])",
        "declared_calibration": "set(state_model.calibration)",
        "allowed_symbols": "set(state_model.state) | set(state_model.calibration)",
    },
}


def main(repo, outdir):
    out = os.path.join(outdir, "Guards.v")
    try:
        lines = []
        for (fn, q), want in EXPECTED.items():
            f = get_source_func(os.path.join(repo, "py/formak", fn), q)
            got = guards(f)
            if got != want:
                import difflib
                d = "\n".join(difflib.unified_diff(want, got, "modelled", "source", lineterm=""))
                raise Untranslatable(f"guards of {fn}:{q} differ from the sequence Model/Validate.v was written from:\n{d}")
            for name, text in DEFS.get((fn, q), {}).items():
                found = [ast.unparse(n.value) for n in ast.walk(f) if isinstance(n, ast.Assign) and len(n.targets) == 1 and ast.unparse(n.targets[0]) == name]
                if found != [text]:
                    raise Untranslatable(f"{fn}:{q}: definition of {name} changed: {found}")
            for g in got:
                lines.append('  "' + f"{fn}:{q}: {g}".replace('"', "'") + '"%string')
        # the state-model dict is stored as given (keys = what was passed)
        ui = ast.unparse(get_source_func(os.path.join(repo, "py/formak/ui_model.py"), "Model.__init__"))
        if "self.state_model = {k: parse_expr(v) if isinstance(v, str) else v for k, v in state_model.items()}" not in ui:
            raise Untranslatable("ui_model.Model: state_model construction changed")
        txt = ("(* GENERATED on every run by tools/translate/gen_guards.py: validation guards of the entry points, in source order. *)\n"
               "From Coq Require Import String List.\nImport ListNotations.\n"
               "Definition guards : list string := [\n" + ";\n".join(lines) + "\n].\n"
               "Definition guards_match_model : bool := true.\n")
    except Exception as e:
        open(out, "w").write(f"(* TRANSLATION FAILED (fail closed): {str(e).replace('*)', '* )').replace('(*', '( *')} *)\nDefinition translation_failed : False := I.\n")
        print("UNTRANSLATABLE", e)
        return 1
    old = open(out).read() if os.path.exists(out) else None
    if old != txt:
        open(out, "w").write(txt)
    return 0


if __name__ == "__main__":
    sys.exit(main(sys.argv[1], sys.argv[2]))
