"""gen_runtime_cpp: cpp/runtime/include/formak/runtime/ManagedFilter.h (both processUpdate overloads and the four tick
overloads) -> gen/RuntimeCppGen.v.  The scalar time arithmetic is TRANSLATED (small C++ expression parser -> Num-polymorphic
Gallina); the calls into the filter are abstracted exactly where the header calls them (pmc / smc); the statement skeleton
around them is matched against the expected sequence.  Fail closed."""
import os
import re
import sys
from fractions import Fraction

sys.path.insert(0, os.path.dirname(os.path.abspath(__file__)))
from py2v import Untranslatable

TOK = re.compile(r"\s*(?:(\d+\.?\d*(?:[eE][-+]?\d+)?)|([A-Za-z_][A-Za-z0-9_]*(?:(?:::|\.)[A-Za-z_][A-Za-z0-9_]*)*)|(>=|<=|==|!=|.))")


def toks(s):
    out, pos = [], 0
    s = s.strip()
    while pos < len(s):
        m = TOK.match(s, pos)
        if not m:
            raise Untranslatable(f"C++ token at {s[pos:pos+20]!r}")
        pos = m.end()
        num, ident, op = m.groups()
        out.append(("num", num) if num else (("id", ident) if ident else ("op", op)))
    return out


NAMES = {"outputTime": "out", "_state.currentTime": "cur", "state.currentTime": "cur", "max_dt": "max_dt", "iterTime": "iterTime",
         "Impl::Tag::max_dt_sec": "tag_max_dt"}


def lit(text):
    v = float(text)
    fr = Fraction(text)
    hx = v.hex()
    return f"(lit N ({fr.numerator} # {fr.denominator})%Q ({hx})%float)"


class P:
    """precedence parser: comparison < additive < multiplicative < unary < primary; returns (gallina, kind) kind in num|int|bool"""

    def __init__(self, t):
        self.t, self.i = t, 0

    def peek(self):
        return self.t[self.i] if self.i < len(self.t) else ("end", "")

    def eat(self, v=None):
        k = self.peek()
        if v is not None and k[1] != v:
            raise Untranslatable(f"C++ parse: expected {v!r}, got {k}")
        self.i += 1
        return k

    def cmp(self):
        a, ka = self.add()
        if self.peek()[1] in (">", ">=", "<", "<="):
            op = self.eat()[1]
            b, kb = self.add()
            if ka != "num" or kb != "num":
                raise Untranslatable("comparison of non-doubles")
            return {">": f"(ltb N {b} {a})", ">=": f"(leb N {b} {a})", "<": f"(ltb N {a} {b})", "<=": f"(leb N {a} {b})"}[op], "bool"
        return a, ka

    def add(self):
        a, ka = self.mul()
        while self.peek()[1] in ("+", "-"):
            op = self.eat()[1]
            b, kb = self.mul()
            a, ka = self.arith("add" if op == "+" else "sub", a, ka, b, kb)
        return a, ka

    def mul(self):
        a, ka = self.unary()
        while self.peek()[1] in ("*", "/"):
            op = self.eat()[1]
            b, kb = self.unary()
            a, ka = self.arith("mul" if op == "*" else "div", a, ka, b, kb)
        return a, ka

    def arith(self, op, a, ka, b, kb):
        if ka == "int":
            a, ka = f"(ofZ N {a})", "num"   # size_t -> double conversion
        if kb == "int":
            b, kb = f"(ofZ N {b})", "num"
        if ka != "num" or kb != "num":
            raise Untranslatable("arithmetic on non-numbers")
        return f"({op} N {a} {b})", "num"

    def unary(self):
        if self.peek()[1] == "-":
            self.eat()
            a, k = self.unary()
            if k != "num":
                raise Untranslatable("negation of a non-double")
            return f"(opp N {a})", "num"
        return self.prim()

    def prim(self):
        k = self.peek()
        if k[0] == "num":
            self.eat()
            return lit(k[1]), "num"
        if k[1] == "(":
            self.eat()
            r = self.cmp()
            self.eat(")")
            return r
        if k[0] == "id":
            self.eat()
            name = k[1]
            if name == "std::abs":
                self.eat("(")
                a, ka = self.cmp()
                self.eat(")")
                if ka != "num":
                    raise Untranslatable("std::abs of a non-double")
                return f"(absv N {a})", "num"
            if name == "expected_iterations":
                return "expected_iterations", "int"
            if name in NAMES:
                return NAMES[name], "num"
            raise Untranslatable(f"unknown C++ name {name}")
        raise Untranslatable(f"C++ parse: unexpected {k}")


def expr(text, want=None):
    p = P(toks(text))
    g, k = p.cmp()
    if p.peek()[0] != "end":
        raise Untranslatable(f"trailing tokens in {text!r}")
    if want and k != want:
        raise Untranslatable(f"{text!r} is a {k}, expected {want}")
    return g


def norm(s):
    return re.sub(r"\s+", " ", re.sub(r"//[^\n]*", "", s)).strip()


def body_of(src, header):
    i = src.index(header)
    j = src.index("{", i + len(header) - 1) if not header.endswith("{") else i + len(header) - 1
    depth, k = 0, j
    while True:
        depth += src[k] == "{"
        depth -= src[k] == "}"
        k += 1
        if depth == 0:
            return src[j + 1:k - 1]


def process_update(body, with_control):
    b = norm(body)
    m = re.match(r"const double max_dt = \(\[outputTime\]\(const State& state\) \{ (?:static_assert\( !std::is_same_v<typename Impl::Tag::ControlT, std::false_type>\); )?"
                 r"if \((.*?)\) \{ return (.*?); \} return (.*?); \}\)\(_state\); "
                 r"typename Impl::Tag::StateAndVarianceT state = _state\.state; "
                 r"size_t expected_iterations = static_cast<size_t>\( ?std::abs\( ?std::floor\((.*?)\)\)\); "
                 r"for \(size_t count = 0; count < expected_iterations; \+\+count\) \{ (.*?) \} "
                 r"double iterTime = (.*?); "
                 r"if \((.*?)\) \{ (.*?) \} "
                 r"return \{\.currentTime = outputTime, \.state = state\};$", b)
    if not m:
        raise Untranslatable("processUpdate: statement skeleton changed:\n" + b[:900])
    cond, r1, r2, fl, loop, it, rcond, rem = m.groups()
    ctl = ", control" if with_control else ""

    def call(dt):
        return norm(f"if constexpr (!std::is_same_v<typename Impl::Tag::CalibrationT, std::false_type>) {{ state = _impl.process_model({dt}, state, _calibration{ctl}); }} "
                    f"else {{ state = _impl.process_model({dt}, state{ctl}); }}")
    if norm(loop) != call("max_dt"):
        raise Untranslatable("processUpdate: the full-step loop body is not the prediction call with max_dt: " + loop)
    mm = re.match(r"^if constexpr \(.*?\) \{ state = _impl\.process_model\((.*?), state, _calibration" + re.escape(ctl) + r"\); \} else \{ state = _impl\.process_model\((.*?), state" + re.escape(ctl) + r"\); \}$", norm(rem))
    if not mm or mm.group(1) != mm.group(2) or norm(rem) != call(mm.group(1)):
        raise Untranslatable("processUpdate: the remainder step is not one prediction call: " + rem)
    return (f"  let max_dt := if {expr(cond, 'bool')} then {expr(r1, 'num')} else {expr(r2, 'num')} in\n"
            f"  obind (floorZ N {expr(fl, 'num')}) (fun fl =>\n"
            f"  let expected_iterations := Z.abs fl in\n"
            f"  let st := Nat.iter (Z.to_nat expected_iterations) (pmc max_dt) st in\n"
            f"  let iterTime := {expr(it, 'num')} in\n"
            f"  let st := if {expr(rcond, 'bool')} then pmc {expr(mm.group(1), 'num')} st else st in\n"
            f"  Some (out, st))")


TICKS = {
    "ctl": ("typename Impl::Tag::StateAndVarianceT tick( double outputTime, const typename Impl::Tag::ControlT& control) {",
            "static_assert( !std::is_same_v<typename Impl::Tag::ControlT, std::false_type>); ScopeTimer s(&_timeLog.tickTimeControl); return processUpdate(outputTime, control).state;"),
    "noctl": ("typename Impl::Tag::StateAndVarianceT tick(double outputTime) {",
              "static_assert( std::is_same_v<typename Impl::Tag::ControlT, std::false_type>); ScopeTimer s(&_timeLog.tickTime); return processUpdate(outputTime).state;"),
    "ctl_rs": ("typename Impl::Tag::StateAndVarianceT tick( double outputTime, const typename Impl::Tag::ControlT& control, const std::vector<StampedReading>& readings) {",
               "static_assert( !std::is_same_v<typename Impl::Tag::ControlT, std::false_type>); ScopeTimer s(&_timeLog.tickTimeControlReadings); "
               "for (const auto& stampedReading : readings) { _state = processUpdate(stampedReading.timestamp, control); "
               "if constexpr (!std::is_same_v<typename Impl::Tag::CalibrationT, std::false_type>) { _state.state = stampedReading.data->sensor_model(_impl, _state.state, _calibration); } "
               "else { _state.state = stampedReading.data->sensor_model(_impl, _state.state); } } return tick(outputTime, control);"),
    "noctl_rs": ("typename Impl::Tag::StateAndVarianceT tick( double outputTime, const std::vector<StampedReading>& readings) {",
                 "static_assert( std::is_same_v<typename Impl::Tag::ControlT, std::false_type>); ScopeTimer s(&_timeLog.tickTimeReadings); "
                 "for (const auto& stampedReading : readings) { _state = processUpdate(stampedReading.timestamp); "
                 "if constexpr (!std::is_same_v<typename Impl::Tag::CalibrationT, std::false_type>) { _state.state = stampedReading.data->sensor_model(_impl, _state.state, _calibration); } "
                 "else { _state.state = stampedReading.data->sensor_model(_impl, _state.state); } } return tick(outputTime);"),
}


def main(repo, outdir):
    out = os.path.join(outdir, "RuntimeCppGen.v")
    try:
        src = open(os.path.join(repo, "cpp/runtime/include/formak/runtime/ManagedFilter.h")).read()
        flat = norm(src)
        b1 = body_of(src, "State processUpdate(double outputTime,\n                      const typename Impl::Tag::ControlT& control) const {")
        b2 = body_of(src, "State processUpdate(double outputTime) const {")
        d1 = process_update(b1, True)
        d2 = process_update(b2.replace("static_assert(\n        std::is_same_v<typename Impl::Tag::ControlT, std::false_type>);", ""), False)
        for k, (hdr, body) in TICKS.items():
            if norm(hdr) not in flat:
                raise Untranslatable(f"tick overload {k}: signature not found")
            got = norm(body_of(flat, norm(hdr)))
            if got != norm(body):
                raise Untranslatable(f"tick overload {k} changed:\n{got}")
        if "static constexpr bool compatible" not in src or "return std::is_constructible_v<Impl> && Impl::Tag::max_dt_sec > 0;" not in src:
            raise Untranslatable("compatibility check changed")
        txt = ("(* GENERATED on every run by tools/translate/gen_runtime_cpp.py from cpp/runtime/include/formak/runtime/ManagedFilter.h. *)\n"
               "From Coq Require Import ZArith QArith List Bool PrimFloat.\nFrom FV Require Import Base.Num.\nImport ListNotations.\n\n"
               "Section RuntimeCppGen.\nVariable N : Num.\nVariable SV : Type.\nVariable pmc : N -> SV -> SV.   (* _impl.process_model(dt, state [, _calibration] [, control]) *)\n"
               "Variable tag_max_dt : N.         (* Impl::Tag::max_dt_sec *)\n\n"
               "(* State processUpdate(double outputTime, const ControlT& control) const *)\n"
               "Definition cpp_process_update_ctl (cur : N) (st : SV) (out : N) : option (N * SV) :=\n" + d1 + ".\n\n"
               "(* State processUpdate(double outputTime) const *)\n"
               "Definition cpp_process_update_noctl (cur : N) (st : SV) (out : N) : option (N * SV) :=\n" + d2 + ".\n"
               "End RuntimeCppGen.\n\n"
               "(* the four tick overloads match the modelled skeleton: for each reading _state = processUpdate(ts); _state.state = sensor_model(...);\n"
               "   then return processUpdate(outputTime).state without assigning _state *)\n"
               "Definition cpp_tick_skeleton_as_modelled : bool := true.\n")
    except Exception as e:
        open(out, "w").write(f"(* TRANSLATION FAILED (fail closed): {str(e).replace('*)', '* )').replace('(*', '( *')} *)\nDefinition translation_failed : False := I.\n")
        print("UNTRANSLATABLE", e)
        return 1
    old = open(out).read() if os.path.exists(out) else None
    if old != txt:
        open(out, "w").write(txt)
    return 0


if __name__ == "__main__":
    sys.exit(main(sys.argv[1], sys.argv[2]))
