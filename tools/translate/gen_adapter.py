"""gen_adapter: SklearnEKFAdapter (py/formak/python.py) -> gen/AdapterParams.v.
Extracted: allowed constructor keys, Config field names (dataclass, by import), the fixed step of transform, the row
slicing expressions and sensor order, the score weights; the source text of set_params / get_params / the flatten pair /
fit / the transform loop skeleton is pinned (fail closed)."""
import ast
import dataclasses
import os
import re
import sys
from fractions import Fraction

sys.path.insert(0, os.path.dirname(os.path.abspath(__file__)))
from py2v import Untranslatable, get_source_func


def norm(s):
    return re.sub(r"\s+", " ", s).strip()


def need(text, want, what):
    if norm(want) not in norm(text):
        raise Untranslatable(f"{what}: `{want[:90]}` not found")


def main(repo, outdir):
    out = os.path.join(outdir, "AdapterParams.v")
    try:
        sys.path.insert(0, os.path.join(repo, "py"))
        from formak import python as fp
        path = os.path.join(repo, "py/formak/python.py")
        cls = [n for n in ast.parse(open(path).read()).body if isinstance(n, ast.ClassDef) and n.name == "SklearnEKFAdapter"][0]
        ak = [n for n in cls.body if isinstance(n, ast.Assign) and ast.unparse(n.targets[0]) == "allowed_keys"]
        allowed = ast.literal_eval(ak[0].value)
        if allowed != list(fp.SklearnEKFAdapter.allowed_keys) or "config" not in allowed:
            raise Untranslatable("allowed_keys changed")
        fields = [f.name for f in dataclasses.fields(fp.Config)]
        sp = ast.unparse(get_source_func(path, "SklearnEKFAdapter.set_params"))
        need(sp, "for key in params: if key in self.allowed_keys: setattr(self, key, params[key]) elif key in dataclasses.asdict(self.config): "
                 "mutable_version = dataclasses.asdict(self.config) mutable_version[key] = params[key] self.config = Config(**mutable_version) "
                 "else: raise ModelConstructionError(f'set_params called with invalid key {key}') return self", "set_params")
        gp = ast.unparse(get_source_func(path, "SklearnEKFAdapter.get_params"))
        need(gp, "return {" + ", ".join(f"'{k}': self.{k}" for k in allowed) + "}", "get_params")
        init = ast.unparse(get_source_func(path, "SklearnEKFAdapter.__init__"))
        for k in allowed:
            need(init, f"self.{k} = {k}", "__init__")
        fl = ast.unparse(get_source_func(path, "SklearnEKFAdapter._flatten_scoring_params"))
        need(fl, "arglist_control = sorted(list(self.symbolic_model.control), key=lambda x: x.name) flattened = list(self._flatten_dict_diagonal(self.process_noise, arglist_control)) "
                 "for _key, mapping in sorted(list(self.sensor_noises.items())): arglist = sorted(list(mapping.keys()), key=str) flattened.extend(self._flatten_dict_diagonal(mapping, arglist)) return flattened", "_flatten_scoring_params")
        inv = ast.unparse(get_source_func(path, "SklearnEKFAdapter._inverse_flatten_scoring_params"))
        need(inv, "params = {k: getattr(self, k) for k in self.allowed_keys} controls, flattened = (flattened[:control_size], flattened[control_size:]) "
                  "params['process_noise'] = nearest_positive_definite(dict(self._inverse_flatten_dict_diagonal(controls, arglist_control))) "
                  "for key, mapping in sorted(list(self.sensor_noises.items())): sensor_size = len(mapping) sensor, flattened = (flattened[:sensor_size], flattened[sensor_size:]) "
                  "arglist = sorted(list(mapping.keys()), key=str) params['sensor_noises'][key] = nearest_positive_definite(dict(self._inverse_flatten_dict_diagonal(sensor, arglist))) return params",
             "_inverse_flatten_scoring_params")
        npd = ast.unparse(get_source_func(path, "nearest_positive_definite"))
        need(npd, "REWRITE_TOL = 1e-06", "nearest_positive_definite")
        need(npd, "yield (key, max(REWRITE_TOL, value))", "nearest_positive_definite")
        fit = ast.unparse(get_source_func(path, "SklearnEKFAdapter.fit"))
        need(fit, "x0 = self._flatten_scoring_params()", "fit")
        need(fit, "result = minimize(minimize_this, x0, tol=0.1) if not result.success: raise MinimizationFailure(result) "
                  "soln_as_params = self._inverse_flatten_scoring_params(result.x) self.set_params(**soln_as_params) return self", "fit")
        need(fit, "holdout_params = dict(self.get_params()) scoring_params = self._inverse_flatten_scoring_params(x) self.set_params(**scoring_params) "
                  "score = self.score(X, y, sample_weight) self.set_params(**holdout_params) return score", "fit.minimize_this")
        # ---- transform
        tr = ast.unparse(get_source_func(path, "SklearnEKFAdapter.transform"))
        m = re.search(r"\n\s*dt = ([0-9.e+-]+)\n", tr)
        if not m:
            raise Untranslatable("transform: fixed step `dt = <literal>` not found")
        dtq = Fraction(m.group(1))
        need(tr, "self.model_ = compile_ekf(symbolic_model=self.symbolic_model, process_noise=self.process_noise, sensor_models=self.sensor_models, "
                 "sensor_noises=self.sensor_noises, calibration_map=self.calibration_map, config=self.config)", "transform")
        # the data matrix as given: converted without changing its shape; a flat sequence is one column of samples
        need(tr, "X = force_to_ndarray(X) if len(X.shape) == 1: X = np.reshape(X, (len(X), 1)) n_samples, n_features = X.shape", "transform")
        fa = ast.unparse(get_source_func(path, "force_to_ndarray"))
        need(fa, "if mat is None: return mat if isinstance(mat, list): return np.array(mat) if not isinstance(mat, np.ndarray): mat = mat.__array__() "
                 "assert isinstance(mat, np.ndarray) return mat", "force_to_ndarray")
        need(tr, "state = self.model_.State() covariance = self.model_.Covariance()", "transform")
        need(tr, "for idx in range(X.shape[0]): controls_input, the_rest = (X[idx, :self.model_.control_size], X[idx, self.model_.control_size:]) "
                 "controls_input = self.model_.Control.from_data(controls_input.reshape((self.model_.control_size, 1))) "
                 "state, covariance = self.model_.process_model(dt, state, covariance, controls_input)", "transform")
        need(tr, "for idx, key in enumerate(sorted(list(self.model_.sensor_models))): sensor_size = len(self.model_.sensor_models[key]) "
                 "sensor_input, the_rest = (the_rest[:sensor_size], the_rest[sensor_size:]) "
                 "sensor_input = self.model_.make_reading(key, data=sensor_input.reshape((sensor_size, 1))) "
                 "state, covariance = self.model_.sensor_model(state=state, covariance=covariance, sensor_key=key, sensor_reading=sensor_input)", "transform")
        need(tr, "innovation.append(float(np.matmul(np.matmul(self.model_.innovations[key].T, np.linalg.inv(self.model_.sensor_prediction_uncertainty[key])), "
                 "self.model_.innovations[key]).item()))", "transform")
        need(tr, "innovations.append(innovation)", "transform")
        mh = ast.unparse(get_source_func(path, "SklearnEKFAdapter.mahalanobis"))
        need(mh, "innovations, states, covariances = self.transform(X, include_states=True)", "mahalanobis")
        need(mh, "return innovations.flatten()", "mahalanobis")
        sc = ast.unparse(get_source_func(path, "SklearnEKFAdapter.score"))
        w = {}
        for name in ("bias_weight", "variance_weight", "matrix_weight"):
            mm = re.search(rf"\n\s*{name} = ([0-9.e+-]+)\n", sc)
            if not mm:
                raise Untranslatable(f"score: {name} not found")
            w[name] = Fraction(mm.group(1))
        need(sc, "mahalanobis_distance_squared = self.mahalanobis(X) normalized_innovations = np.sqrt(mahalanobis_distance_squared)", "score")
        need(sc, "avg = np.sum(np.square(np.mean(normalized_innovations))) var = np.sum(mahalanobis_distance_squared)", "score")
        need(sc, "variance_score = (1.0 / var + var) / 2.0", "score")
        need(sc, "result = bias_weight * bias_score + variance_weight * variance_score + matrix_weight * matrix_score", "score")
        need(sc, "matrix_score = np.sum(np.square(list(self._flatten_dict_diagonal(self.process_noise, self.model_.arglist_control))))", "score")
        need(sc, "for noise_mapping in self.sensor_noises.values(): arglist = sorted(list(noise_mapping.keys()), key=str) "
                 "matrix_score += np.sum(np.square(list(self._flatten_dict_diagonal(noise_mapping, arglist))))", "score")
        ex = ast.unparse(get_source_func(path, "SklearnEKFAdapter.export_python"))
        need(ex, "return compile_ekf(self.symbolic_model, self.process_noise, self.sensor_models, self.sensor_noises, self.calibration_map, config=self.config)", "export_python")

        def names(xs):
            return "[" + "; ".join(f'"{x}"%string' for x in xs) + "]"
        q = lambda f: f"({f.numerator} # {f.denominator})%Q"
        txt = ("(* GENERATED on every run by tools/translate/gen_adapter.py from python.SklearnEKFAdapter / python.Config. *)\n"
               "From Coq Require Import String List QArith.\nImport ListNotations.\n"
               f"Definition adapter_allowed_keys : list string := {names(allowed)}.\n"
               f"Definition config_fields : list string := {names(fields)}.\n"
               f"Definition adapter_dt : Q := {q(dtq)}.\n"
               f"Definition score_bias_weight : Q := {q(w['bias_weight'])}.\nDefinition score_variance_weight : Q := {q(w['variance_weight'])}.\n"
               f"Definition score_matrix_weight : Q := {q(w['matrix_weight'])}.\n"
               "Definition adapter_sensor_order_sorted : bool := true.\nDefinition adapter_row_slicing_is_prefix_then_rest : bool := true.\n"
               "Definition adapter_source_as_modelled : bool := true.\n")
    except Exception as e:
        open(out, "w").write(f"(* TRANSLATION FAILED (fail closed): {str(e).replace('*)', '* )').replace('(*', '( *')} *)\nDefinition translation_failed : False := I.\n")
        print("UNTRANSLATABLE", e)
        return 1
    old = open(out).read() if os.path.exists(out) else None
    if old != txt:
        open(out, "w").write(txt)
    return 0


if __name__ == "__main__":
    sys.exit(main(sys.argv[1], sys.argv[2]))
