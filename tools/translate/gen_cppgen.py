"""gen_cppgen: emission-layout parameters of the C++ generator (py/formak/ast_fragments.py, cpp.py)
-> gen/CppGenParams.v.  Which list each accessor / Options / constructor / assignment loop ranges over,
which index lands where, what is differentiated with respect to what, and that every layout list is sorted
by symbol name.  Extracted from the unparsed AST of each function by pattern; fail closed."""
import ast
import os
import re
import sys

sys.path.insert(0, os.path.dirname(os.path.abspath(__file__)))
from py2v import Untranslatable, get_source_func

LISTS = {"generator.arglist_state": "Gstate", "generator.arglist_control": "Gctl", "generator.arglist_calibration": "Gcal",
         "self.arglist_state": "Gstate", "self.arglist_control": "Gctl", "self.arglist_calibration": "Gcal"}
SORTED_READINGS = "sorted(list(reading_type.sensor_model_mapping.keys()))"


def src(path, name):
    return ast.unparse(get_source_func(path, name))


def must(m, what):
    if not m:
        raise Untranslatable(what)
    return m


def container(path, cls, lst):
    """ast_fragments.<cls>: accessors over `lst`, index (idx, 0)"""
    t = src(path, cls)
    loops = re.findall(r"for idx, name in enumerate\(([\w.]+)\)", t)
    rets = re.findall(r"Return\(f'data\(\{(\w+)\}, (\{?\w+\}?)\)'\)", t)
    if len(loops) != 1 or LISTS.get(loops[0]) != lst:
        raise Untranslatable(f"ast_fragments.{cls}: accessor loop over {loops}")
    if len(rets) != 2 or any(r != ("idx", "0") for r in rets):
        raise Untranslatable(f"ast_fragments.{cls}: accessor index {rets}")
    if not re.search(r"FunctionDef\('double&', name, args=\[\], modifier='', body=\[Return", t) or \
            not re.search(r"FunctionDef\('double', name, args=\[\], modifier='const', body=\[Return", t):
        raise Untranslatable(f"ast_fragments.{cls}: accessor pair changed")
    return LISTS[loops[0]]


def options(path, fn, lst):
    t = src(path, fn)
    m = must(re.search(r"body=\[MemberDeclaration\('double', member, 0\.0\) for member in ([\w.]+)\]", t), f"ast_fragments.{fn}: fields")
    if LISTS.get(m.group(1)) != lst:
        raise Untranslatable(f"ast_fragments.{fn}: fields over {m.group(1)}")
    return LISTS[m.group(1)]


def ctor(path, fn, lst):
    t = src(path, fn)
    m = must(re.search(r"\('data', ', '\.join\(\(f'options\.\{name\}' for name in ([\w.]+)\)\)\)", t), f"ast_fragments.{fn}: initializer")
    if LISTS.get(m.group(1)) != lst:
        raise Untranslatable(f"ast_fragments.{fn}: initializer over {m.group(1)}")
    return LISTS[m.group(1)]


def main(repo, outdir):
    out = os.path.join(outdir, "CppGenParams.v")
    try:
        fr = os.path.join(repo, "py/formak/ast_fragments.py")
        cp = os.path.join(repo, "py/formak/cpp.py")
        L = []
        for cls, lst, optf, ctorf in (("State", "Gstate", "StateOptions", "StateOptionsConstructor"),
                                      ("Control", "Gctl", "ControlOptions", "ControlConstructor"),
                                      ("Calibration", "Gcal", "CalibrationOptions", "CalibrationConstructor")):
            a = container(fr, cls, lst)
            o = options(fr, optf, lst)
            c = ctor(fr, ctorf, lst)
            L.append(f"Definition cpp_{cls.lower()}_lists : list group := [{a}; {o}; {c}].  (* accessors, Options fields, constructor *)")
        # Covariance: diagonal accessor
        t = src(fr, "Covariance")
        if re.findall(r"for idx, name in enumerate\(([\w.]+)\)", t) != ["generator.arglist_state"] or \
                re.findall(r"Return\(f'data\(\{(\w+)\}, (\{?\w+\}?)\)'\)", t) != [("idx", "{idx}")] * 2 or "DataT::Identity()" not in t:
            raise Untranslatable("ast_fragments.Covariance changed")
        L.append("Definition cpp_covariance_accessor (idx : nat) : nat * nat := (idx, idx).")
        if "MemberDeclaration('DataT', 'data', 'DataT::Zero()')" not in src(fr, "State"):
            raise Untranslatable("State default is not zero")
        # Readings
        t = src(fr, "Reading")
        m = must(re.search(r"FunctionDef\('double', name, args=\[\], modifier='', body=\[Return\(f'data\(\{idx\}, 0\)'\)\]\) for idx, name in enumerate\((.*?)\)\]", t),
                 "ast_fragments.Reading: accessors")
        if m.group(1) != SORTED_READINGS:
            raise Untranslatable("ast_fragments.Reading: accessors are not over the sorted reading names")
        t = src(fr, "ReadingOptions")
        must(re.search(r"MemberDeclaration\('double', symbol, 0\.0\) for symbol in " + re.escape(SORTED_READINGS), t), "ast_fragments.ReadingOptions: fields not sorted")
        t = src(fr, "ReadingConstructor")
        must(re.search(r"f'options\.\{name\}' for name in " + re.escape(SORTED_READINGS), t), "ast_fragments.ReadingConstructor: not sorted")
        L.append("Definition cpp_reading_lists_sorted : bool := true.  (* accessors, Options fields, constructor: sorted reading names *)")
        # cpp.py: sorted layout lists (Model and ExtendedKalmanFilter)
        for cls in ("Model", "ExtendedKalmanFilter"):
            t = src(cp, cls + ".__init__")
            found = re.findall(r"self\.arglist_(state|calibration|control) = sorted\(list\((\w+)\.(state|calibration|control)\), key=lambda x: x\.name\)", t)
            if sorted(a for a, _, b in found if a == b) != ["calibration", "control", "state"]:
                raise Untranslatable(f"cpp.{cls}.__init__: layout lists are not sorted(list(...), key=lambda x: x.name): {found}")
        L.append("Definition cpp_layout_sorted_by_name : bool := true.")
        # sensorlist sorted
        t = src(cp, "ExtendedKalmanFilter.__init__")
        must(re.search(r"self\.sensorlist = sorted\(\[\(k, v, sensor_noises\[k\]\) for k, v in sensor_models\.items\(\)\]\)", t), "cpp: sensorlist not sorted")
        # process model statements and return
        t = src(cp, "ExtendedKalmanFilter._translate_process_model")
        must(re.search(r"for a in self\.arglist_state:\n\s+expr_before = symbolic_model\.state_model\[a\]\n\s+expr_after = expr_before\.subs\(subs_set\)\n\s+yield \(f'double \{a\.name\}', expr_after\)", t),
             "cpp._translate_process_model changed")
        t = src(cp, "ExtendedKalmanFilter._translate_return")
        must(re.search(r"', '\.join\(\('\.\{name\}=\{name\}'\.format\(name=name\) for name in self\.arglist_state\)\)", t), "cpp._translate_return changed")
        # substitution sets: every symbol -> accessor of its own name in its own container
        for fn, want in (("_translate_process_model", 3), ("_translate_process_jacobian", 3), ("_translate_control_jacobian", 3),
                         ("_translate_sensor_model", 2), ("_translate_sensor_jacobian_impl", 2)):
            t = src(cp, "ExtendedKalmanFilter." + fn)
            subs = re.findall(r"\[\(member, Symbol\('([\w.]+)\.\{\}\(\)'\.format\(member\)\)\) for member in self\.arglist_(\w+)\]", t)
            exp = [("state.state", "state"), ("calibration", "calibration"), ("control", "control")][:want]
            if subs != exp:
                raise Untranslatable(f"cpp.{fn}: substitution set {subs}")
        # the model-only generator (cpp.compile): same statement loop, same kind of substitution set, positional return in state order
        t = src(cp, "Model._translate_model")
        must(re.search(r"for a in self\.arglist_state:\n\s+expr_before = symbolic_model\.state_model\[a\]\n\s+expr_after = expr_before\.subs\(subs_set\)\n\s+yield \(f'double \{a\.name\}', expr_after\)", t),
             "cpp.Model._translate_model changed")
        subs = re.findall(r"\[\(member, Symbol\('([\w.]+)\.\{\}\(\)'\.format\(member\)\)\) for member in self\.arglist_(\w+)\]", t)
        if subs != [("state", "state"), ("calibration", "calibration"), ("control", "control")] or t.count("subs_set =") != 1:
            raise Untranslatable(f"cpp.Model._translate_model: substitution set {subs}")
        t = src(cp, "Model._translate_return")
        must(re.search(r"content = ', '\.join\(\(str\(symbol\) for symbol in self\.arglist_state\)\)\n\s+return 'State\(\{' \+ content \+ '\}\)'", t), "cpp.Model._translate_return changed")
        # jacobians
        t = src(cp, "ExtendedKalmanFilter._translate_process_jacobian")
        must(re.search(r"for idx, symbol in enumerate\(self\.arglist_state\):\n\s+model = symbolic_model\.state_model\[symbol\]\n\s+for state_idx, state in enumerate\(self\.arglist_state\):\n"
                       r"\s+assignment = f'jacobian\(\{idx\}, \{state_idx\}\)'\n\s+expr_before = diff\(model, state\)", t), "cpp._translate_process_jacobian changed")
        L.append("Definition cpp_process_jac : (group * group) * (nat -> nat -> nat * nat) := ((Gstate, Gstate), fun idx state_idx => (idx, state_idx)).")
        t = src(cp, "ExtendedKalmanFilter._translate_control_jacobian")
        must(re.search(r"for idx, symbol in enumerate\(self\.arglist_state\):\n\s+model = symbolic_model\.state_model\[symbol\]\n\s+for control_idx, control in enumerate\(self\.arglist_control\):\n"
                       r"\s+assignment = f'jacobian\(\{idx\}, \{control_idx\}\)'\n\s+expr_before = diff\(model, control\)", t), "cpp._translate_control_jacobian changed")
        L.append("Definition cpp_control_jac : (group * group) * (nat -> nat -> nat * nat) := ((Gstate, Gctl), fun idx control_idx => (idx, control_idx)).")
        t = src(cp, "ExtendedKalmanFilter._translate_sensor_jacobian_impl")
        must(re.search(r"for reading_idx, \(_predicted_reading, model\) in enumerate\(sorted\(list\(sensor_model_mapping\.items\(\)\)\)\):\n\s+for state_idx, state in enumerate\(self\.arglist_state\):\n"
                       r"\s+assignment = f'jacobian\(\{reading_idx\}, \{state_idx\}\)'\n\s+expr_before = diff\(model, state\)", t), "cpp._translate_sensor_jacobian_impl changed")
        L.append("Definition cpp_sensor_jac_rows_sorted_readings : bool := true.")
        L.append("Definition cpp_sensor_jac : group * (nat -> nat -> nat * nat) := (Gstate, fun reading_idx state_idx => (reading_idx, state_idx)).")
        t = src(cp, "ExtendedKalmanFilter._translate_sensor_model")
        must(re.search(r"for predicted_reading, model in sorted\(list\(sensor_model_mapping\.items\(\)\)\):\n\s+expr_before = model\n\s+expr_after = expr_before\.subs\(subs_set\)\n\s+yield \(f'double \{predicted_reading\}', expr_after\)", t),
             "cpp._translate_sensor_model changed")
        t = src(cp, "ExtendedKalmanFilter.reading_types")
        must(re.search(r"return_ = Return\('\{\}Options\{\{'\.format\(typename\) \+ ', '\.join\(\(str\(reading\) for reading in sorted\(list\(sensor_model_mapping\.keys\(\)\)\)\)\) \+ '\}'\)", t),
             "cpp.reading_types: positional Options return is not over the sorted reading names")
        must(re.search(r"arglist_sensor = sorted\(list\(sensor_model_mapping\.keys\(\)\)\)", t), "cpp.reading_types: arglist_sensor")
        must(re.search(r"SensorCovariance = common\.named_covariance\(f'\{name\}Covariance', arglist_sensor\)", t), "cpp.reading_types: sensor covariance container")
        must(re.search(r"self\._translate_sensor_covariance\(typename, SensorCovariance\.from_dict\(sensor_noise\)\)", t), "cpp.reading_types: sensor noise")
        # noise covariances
        t = src(cp, "ExtendedKalmanFilter._translate_sensor_covariance_impl")
        must(re.search(r"rows, cols = covariance\.shape\n\s+for i in range\(rows\):\n\s+for j in range\(cols\):\n\s+yield \(f'covariance\(\{i\}, \{j\}\)', covariance\.data\[i, j\]\)", t),
             "cpp._translate_sensor_covariance_impl changed")
        t = src(cp, "ExtendedKalmanFilter._translate_control_covariance")
        want = ("for i, iKey in enumerate(self.arglist_control):\n        for j, jKey in enumerate(self.arglist_control):\n"
                "            if (iKey, jKey) in covariance:\n                value = covariance[iKey, jKey]\n"
                "            elif (jKey, iKey) in covariance:\n                value = covariance[jKey, iKey]\n"
                "            elif i == j and iKey in covariance:\n                value = covariance[iKey]\n"
                "            else:\n                value = 0.0\n"
                "            yield (f'covariance({i}, {j})', value)\n            if i != j:\n                yield (f'covariance({j}, {i})', value)")
        if re.sub(r"\s+", " ", want) not in re.sub(r"\s+", " ", t):
            raise Untranslatable("cpp._translate_control_covariance changed")
        # CSE emission order: prefix declarations first, then targets zipped with the post-CSE body
        t = src(cp, "BasicBlock.compile")
        want = ("prefix = [] body = self._exprs if self._config.common_subexpression_elimination: prefix, body = cse(body, symbols=(Symbol(f'_t{i}') for i in count())) "
                "for target, expr in prefix: assert isinstance(target, Symbol) if self._config.common_subexpression_elimination: expr = simplify(expr) "
                "cc_expr = _ccode(expr) yield MemberDeclaration('double', target, cc_expr) "
                "for target, expr in zip(self._targets, body): if self._config.common_subexpression_elimination: expr = simplify(expr) "
                "cc_expr = _ccode(expr) yield MemberDeclaration('', target, cc_expr)")
        if re.sub(r"\s+", " ", want) not in re.sub(r"\s+", " ", t):
            raise Untranslatable("cpp.BasicBlock.compile changed:\n" + t)
        # the printer: value-preserving rewriting of sech / csch / coth as reciprocals, then sympy's ccode
        t = src(cp, "_ccode")
        want = ("expr = sympify(expr) expr = expr.replace(sech, lambda arg: 1 / cosh(arg)) expr = expr.replace(csch, lambda arg: 1 / sinh(arg)) "
                "expr = expr.replace(coth, lambda arg: 1 / tanh(arg)) return ccode(expr)")
        if re.sub(r"\s+", " ", want) not in re.sub(r"\s+", " ", t):
            raise Untranslatable("cpp._ccode changed:\n" + t)
        L.append("Definition cpp_cse_prefix_first : bool := true.")
        # ---------------- call signatures of the generated filter (C12)
        def yields(fn):
            """ordered list of (condition, C++ type) of the Arg(...)s a generator function yields"""
            f = get_source_func(fr, fn)
            out = []

            def walk(stmts, cond):
                for st in stmts:
                    if isinstance(st, ast.Expr) and isinstance(st.value, ast.Yield):
                        v = st.value.value
                        if not (isinstance(v, ast.Call) and ast.unparse(v.func) == "Arg" and len(v.args) == 2):
                            raise Untranslatable(f"{fn}: yield of a non-Arg")
                        out.append((cond, ast.unparse(v.args[0]), ast.unparse(v.args[1])))
                    elif isinstance(st, ast.If):
                        c = ast.unparse(st.test)
                        walk(st.body, cond + [c])
                        walk(st.orelse, cond + ["not " + c])
                    elif isinstance(st, ast.Expr) and isinstance(st.value, ast.Constant):
                        continue
                    else:
                        raise Untranslatable(f"{fn}: statement {ast.unparse(st)[:60]}")
            walk(f.body, [])
            return out

        KIND = {"'double'": "Adt", "'const StateAndVariance&'": "Astate", "'const State&'": "Astate", "'const Calibration&'": "Acal",
                "'const Control&'": "Actl", "'const ExtendedKalmanFilter&'": "Aimpl", "'const ReadingT&'": "Areading"}

        def sig(fn, name, params):
            items = []
            for cond, ty, nm in yields(fn):
                cond = [c for c in cond if c not in ("generator.enable_EKF", "reading_type is None")]
                if any(c.startswith("not ") for c in cond):
                    continue  # the non-EKF / concrete-reading alternatives
                if ty.startswith("f'const {reading_type.typename}&'"):
                    continue
                if ty not in KIND:
                    raise Untranslatable(f"{fn}: argument type {ty}")
                guard = {"generator.enable_calibration()": "cal", "generator.enable_control()": "ctl"}
                g = [guard[c] for c in cond if c in guard]
                if len(g) != len(cond):
                    raise Untranslatable(f"{fn}: condition {cond}")
                items.append(f"(if {' && '.join(g)} then [{KIND[ty]}] else [])" if g else f"[{KIND[ty]}]")
            return f"Definition {name} ({params} : bool) : list akind := " + " ++ ".join(items) + "."
        L.append("Inductive akind := Adt | Astate | Acal | Actl | Areading | Aimpl.")
        L.append(sig("standard_process_args", "gen_process_sig", "ctl cal"))
        L.append(sig("standard_reading_args", "gen_reading_sig", "ctl cal"))
        L.append(sig("_StampedReadingBase_args", "gen_stamped_sig", "ctl cal"))
        L.append(sig("_Reading_sensor_model_args", "gen_reading_override_sig", "ctl cal"))
        t = src(fr, "_Reading_sensor_model_body")
        if "if generator.enable_calibration():\n        yield Return('impl.sensor_model(state, calibration, *this)')\n    else:\n        yield Return('impl.sensor_model(state, *this)')" not in t:
            raise Untranslatable("ast_fragments._Reading_sensor_model_body changed")
        t = src(fr, "_EKF_Tag_body")
        for a, b in (("CalibrationT", "Calibration"), ("ControlT", "Control")):
            en = "generator.enable_calibration()" if b == "Calibration" else "generator.enable_control()"
            if f"if {en}:\n        yield UsingDeclaration('{a}', '{b}')\n    else:\n        yield UsingDeclaration('{a}', 'std::false_type')" not in t:
                raise Untranslatable(f"ast_fragments._EKF_Tag_body: {a}")
        if "yield MemberDeclaration('static constexpr double', 'max_dt_sec', 'cpp::Config::max_dt_sec')" not in t or \
                "UsingDeclaration('StateAndVarianceT', 'StateAndVariance')" not in t or "UsingDeclaration('StampedReadingBaseT', 'StampedReadingBase')" not in t:
            raise Untranslatable("ast_fragments._EKF_Tag_body changed")
        L.append("Definition gen_tag_false_type_when_absent : bool := true.")
        txt = ("(* GENERATED on every run from py/formak/ast_fragments.py and cpp.py by tools/translate/gen_cppgen.py. *)\n"
               "From Coq Require Import List Arith.\nFrom FV Require Import Base.Expr Model.Layout.\nImport ListNotations.\n\n" + "\n".join(L) + "\n")
    except Exception as e:
        open(out, "w").write(f"(* TRANSLATION FAILED (fail closed): {str(e).replace('*)', '* )').replace('(*', '( *')} *)\nDefinition translation_failed : False := I.\n")
        print("UNTRANSLATABLE", e)
        return 1
    old = open(out).read() if os.path.exists(out) else None
    if old != txt:
        open(out, "w").write(txt)
    return 0


if __name__ == "__main__":
    sys.exit(main(sys.argv[1], sys.argv[2]))
