"""gen_workflow: the design workflow's transition graph (by introspection of the imported classes: state_id(),
available_transitions(), return annotations - exactly what StateMachineState.search reads), the constants of
FitModelState and the pinned source of search / history construction -> gen/WorkflowGraph.v."""
import ast
import inspect
import os
import sys

sys.path.insert(0, os.path.dirname(os.path.abspath(__file__)))
from py2v import Untranslatable, get_source_func

SEARCH = '''if not isinstance(end_state, StateId):
    raise ValueError(f'Could not match state of type {type(end_state)}, expected StateId')
frontier = [SearchState(self, [])]
if debug:
    print('Initial State\\n', frontier)
for i in range(max_iter):
    if len(frontier) <= 0:
        break
    current_state, transitions = frontier[0]
    frontier = frontier[1:]
    if current_state.state_id() == end_state:
        return transitions
    for transition_name in current_state.available_transitions():
        transition_callable = getattr(current_state, transition_name)
        end_state_type = inspect.signature(transition_callable).return_annotation
        frontier.append(SearchState(end_state_type, transitions + [transition_name]))
        if debug:
            print(i, 'Adding', frontier[-1])
    if debug:
        print('State After', i, '\\n', frontier)
raise ValueError(f"Could not find a path from state {self.state_id()} to desired state '{end_state}' in {i} iterations")'''


def main(repo, outdir):
    out = os.path.join(outdir, "WorkflowGraph.v")
    try:
        sys.path.insert(0, os.path.join(repo, "py"))
        from formak import ui_state_machine as sm
        path = os.path.join(repo, "py/formak/ui_state_machine.py")
        f = get_source_func(path, "StateMachineState.search")
        body = [s for s in f.body if not (isinstance(s, ast.Expr) and isinstance(s.value, ast.Constant))]
        got = "\n".join(ast.unparse(s) for s in body)
        if got != SEARCH:
            import difflib
            raise Untranslatable("StateMachineState.search changed:\n" + "\n".join(difflib.unified_diff(SEARCH.splitlines(), got.splitlines(), lineterm="")))
        dflt = {a.arg: ast.literal_eval(d) for a, d in zip(f.args.kwonlyargs, f.args.kw_defaults)}
        classes = [sm.DesignManager, sm.SymbolicModelState, sm.FitModelState]
        ids = {c: c.state_id() for c in classes}
        names = {sm.StateId.Start: "WStart", sm.StateId.Symbolic_Model: "WSymbolic", sm.StateId.Fit_Model: "WFit"}
        if sorted(names[i] for i in ids.values()) != ["WFit", "WStart", "WSymbolic"] or len(list(sm.StateId)) != 3:
            raise Untranslatable("state ids changed")
        rows = []
        for c in classes:
            tr = []
            for t in c.available_transitions():
                ann = inspect.signature(getattr(c, t)).return_annotation
                if ann not in ids:
                    raise Untranslatable(f"transition {c.__name__}.{t} returns {ann}")
                tr.append(f'("{t}"%string, {names[ids[ann]]})')
            rows.append(f"  | {names[ids[c]]} => [{'; '.join(tr)}]")
        # history: every state constructor appends its own id to the history it is given; DesignManager starts it
        for cls, want in (("FitModelState.__init__", "super().__init__(name=name, history=history + [self.state_id()])"),
                          ("SymbolicModelState.__init__", "super().__init__(name=name, history=history + [self.state_id()])"),
                          ("DesignManager.__init__", "super().__init__(name=name, history=[self.state_id()])")):
            src = ast.unparse(get_source_func(path, cls))
            if want not in src:
                raise Untranslatable(f"{cls}: history construction changed")
        for cls, want in (("SymbolicModelState.fit_model", "history=self.history()"), ("DesignManager.symbolic_model", "history=self.history()")):
            if want not in ast.unparse(get_source_func(path, cls)):
                raise Untranslatable(f"{cls}: history is not passed on")
        if "self._history = history" not in ast.unparse(get_source_func(path, "StateMachineState.__init__")) or \
                "return self._history" not in ast.unparse(get_source_func(path, "StateMachineState.history")):
            raise Untranslatable("StateMachineState history storage changed")
        fit = ast.unparse(get_source_func(path, "FitModelState._fit_model_impl"))
        import re
        m = re.search(r"MIN_SAMPLES = (\d+)\n\s*if n_samples < MIN_SAMPLES:\n\s*raise ModelFitError", fit)
        if not m:
            raise Untranslatable("FitModelState: minimum-sample guard changed")
        for want in ("n_samples = len(X)", "param_grid=self.parameter_space", "estimator=adapter", "self.fit_estimator = grid_search.best_estimator_",
                     "grid_search.fit(X=X, y=None)"):
            if want not in fit:
                raise Untranslatable(f"FitModelState._fit_model_impl: `{want}` not found")
        if "return self.fit_estimator.export_python()" not in ast.unparse(get_source_func(path, "FitModelState.export_python")):
            raise Untranslatable("FitModelState.export_python changed")
        txt = ("(* GENERATED on every run by tools/translate/gen_workflow.py (introspection of formak.ui_state_machine). *)\n"
               "From Coq Require Import String List.\nImport ListNotations.\n"
               "Inductive wstate := WStart | WSymbolic | WFit.\n"
               "Definition wf_trans (s : wstate) : list (string * wstate) :=\n  match s with\n" + "\n".join(rows) + "\n  end.\n"
               f"Definition wf_max_iter : nat := {dflt['max_iter']}.\n"
               f"Definition wf_min_samples : nat := {m.group(1)}.\n"
               "Definition wf_history_appends_own_id : bool := true.\n"
               "Definition wf_search_is_bfs : bool := true.\n")
    except Exception as e:
        open(out, "w").write(f"(* TRANSLATION FAILED (fail closed): {str(e).replace('*)', '* )').replace('(*', '( *')} *)\nDefinition translation_failed : False := I.\n")
        print("UNTRANSLATABLE", e)
        return 1
    old = open(out).read() if os.path.exists(out) else None
    if old != txt:
        open(out, "w").write(txt)
    return 0


if __name__ == "__main__":
    sys.exit(main(sys.argv[1], sys.argv[2]))
