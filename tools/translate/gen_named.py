"""gen_named: which generated named-value classes an operation accepts -> gen/NamedAccept.v.

common.named_vector / named_covariance give every generated class a `__subclasshook__`; the operations of python.py
guard their arguments with `assert isinstance(value, self.<Class>)`, and isinstance on an ABC consults that hook.
Translated structurally (fail closed on anything else): the hook's body is a single `return` of a conjunction whose
conjuncts are among
    Other.__name__ == name                 -> String.eqb n2 n1
    cls._arglist == Other._arglist         -> same_names a1 a2
    cls.shape == Other.shape               -> Nat.eqb (length a1) (length a2)
and the guarded operations still carry their isinstance assertions.  Proofs/NamedAccept.v proves from the generated
definition that an accepted value carries exactly the names of the expected class."""
import ast
import os
import sys

sys.path.insert(0, os.path.dirname(os.path.abspath(__file__)))
from py2v import Untranslatable, fail, get_source_func  # noqa: E402

CONJ = {
    "Other.__name__ == name": "String.eqb n2 n1",
    "name == Other.__name__": "String.eqb n2 n1",
    "cls._arglist == Other._arglist": "same_names a1 a2",
    "Other._arglist == cls._arglist": "same_names a1 a2",
    "cls.shape == Other.shape": "Nat.eqb (length a1) (length a2)",
    "Other.shape == cls.shape": "Nat.eqb (length a1) (length a2)",
}
GUARDS = {
    "Model.model": ["isinstance(state, self.State)", "isinstance(control, self.Control)"],
    "SensorModel.model": ["isinstance(state_vector, self.State)"],
    "ExtendedKalmanFilter.process_model": ["isinstance(state, self.State)", "isinstance(covariance, self.Covariance)", "isinstance(control, self.Control)"],
    "ExtendedKalmanFilter.sensor_model": ["isinstance(state, self.State)", "isinstance(covariance, self.Covariance)", "isinstance(sensor_reading, model_impl.Reading)"],
}


def hook(path, outer, inner):
    f = get_source_func(path, f"{outer}.{inner}.__subclasshook__")
    if [ast.unparse(d) for d in f.decorator_list] != ["classmethod"] or [a.arg for a in f.args.args] != ["cls", "Other"]:
        fail(f, "__subclasshook__ is not a classmethod (cls, Other)")
    body = [s for s in f.body if not (isinstance(s, ast.Expr) and isinstance(s.value, ast.Constant))]
    if len(body) != 1 or not isinstance(body[0], ast.Return) or body[0].value is None:
        fail(f, "__subclasshook__ body is not a single return")
    v = body[0].value
    parts = v.values if isinstance(v, ast.BoolOp) and isinstance(v.op, ast.And) else [v]
    out = []
    for p in parts:
        t = ast.unparse(p)
        if t not in CONJ:
            fail(p, "unknown conjunct in __subclasshook__")
        out.append(CONJ[t])
    return out


def main(repo, outdir):
    out = os.path.join(outdir, "NamedAccept.v")
    try:
        cpath = os.path.join(repo, "py/formak/common.py")
        ppath = os.path.join(repo, "py/formak/python.py")
        vec = hook(cpath, "named_vector", "_NamedVector")
        cov = hook(cpath, "named_covariance", "_NamedCovariance")
        # the generated classes are the ones the factories return, built on an ABC (so that isinstance consults the hook)
        for fn, cls in (("named_vector", "_NamedVector"), ("named_covariance", "_NamedCovariance")):
            f = get_source_func(cpath, fn)
            rets = [ast.unparse(s.value) for s in ast.walk(f) if isinstance(s, ast.Return) and s.value is not None and "new_class" in ast.unparse(s.value)]
            if rets != [f"types.new_class(name, bases=({cls},))"]:
                raise Untranslatable(f"{fn}: does not return types.new_class(name, bases=({cls},))")
            c = get_source_func(cpath, f"{fn}.{cls}")
            if [ast.unparse(b) for b in c.bases] != ["_NamedArrayBase"]:
                raise Untranslatable(f"{cls}: base class changed")
        base = [n for n in ast.parse(open(cpath).read()).body if isinstance(n, ast.ClassDef) and n.name == "_NamedArrayBase"]
        if len(base) != 1 or [ast.unparse(b) for b in base[0].bases] != ["abc.ABC"]:
            raise Untranslatable("_NamedArrayBase is not an abc.ABC")
        for qual, want in GUARDS.items():
            f = get_source_func(ppath, qual)
            asserts = [ast.unparse(s.test) for s in ast.walk(f) if isinstance(s, ast.Assert)]
            for w in want:
                if w not in asserts:
                    raise Untranslatable(f"{qual}: guard `assert {w}` is gone")

        def conj(cs):
            return " && ".join(f"({c})" for c in cs) if cs else "true"
        txt = ("(* GENERATED on every run from py/formak/common.py (__subclasshook__ of the generated classes) by tools/translate/gen_named.py. Do not edit. *)\n"
               "From Coq Require Import String List Bool Arith.\nFrom FV Require Import Base.Expr Model.Named.\nImport ListNotations.\n\n"
               "(* class (n1, a1) is expected; a value of class (n2, a2) is offered *)\n"
               f"Definition vector_accepts (n1 : string) (a1 : list name) (n2 : string) (a2 : list name) : bool := {conj(vec)}.\n"
               f"Definition covariance_accepts (n1 : string) (a1 : list name) (n2 : string) (a2 : list name) : bool := {conj(cov)}.\n")
    except Exception as e:
        open(out, "w").write(f"(* TRANSLATION FAILED (fail closed): {str(e).replace('*)', '* )').replace('(*', '( *')} *)\n"
                             "Definition translation_failed : False := I.\n")
        print("UNTRANSLATABLE", e)
        return 1
    old = open(out).read() if os.path.exists(out) else None
    if old != txt:
        open(out, "w").write(txt)
    return 0


if __name__ == "__main__":
    sys.exit(main(sys.argv[1], sys.argv[2]))
