"""gen_noise: the process-noise double loop of python.ExtendedKalmanFilter._construct_process -> gen/NoisePy.v.

Translated structurally (fail closed on anything else):
    M = np.eye(<control size>)
    for iIdx, iSymbol in enumerate(self.arglist_control):
        for jIdx, jSymbol in enumerate(self.arglist_control):
            if/elif/else chain assigning `value` from membership tests / lookups in `process_noise`
            M[a, b] = value          (any number of stores, in order)
    self.process_noise = M
Membership `(x, y) in d` / `x in d`, lookups `d[(x, y)]` / `d[x]`, `x == y`, `and`, `or`, `not`, float constants.
Proofs/NoisePy.v proves the generated loop equal to the closed form Model.Named.py_noise_matrix for all inputs."""
import ast
import os
import sys
from fractions import Fraction

sys.path.insert(0, os.path.dirname(os.path.abspath(__file__)))
from py2v import Untranslatable, fail, get_source_func, path_of  # noqa: E402


def key_of(node, names):
    """(x, y) -> K2 x y ; x -> K1 x, for loop symbols only"""
    if isinstance(node, ast.Tuple) and len(node.elts) == 2 and all(isinstance(e, ast.Name) and e.id in names for e in node.elts):
        return f"(K2 {node.elts[0].id} {node.elts[1].id})"
    if isinstance(node, ast.Name) and node.id in names:
        return f"(K1 {node.id})"
    fail(node, "dictionary key is not a loop symbol or a pair of loop symbols")


def cond(node, names, dct):
    if isinstance(node, ast.BoolOp):
        op = " && " if isinstance(node.op, ast.And) else " || "
        return "(" + op.join(cond(v, names, dct) for v in node.values) + ")"
    if isinstance(node, ast.UnaryOp) and isinstance(node.op, ast.Not):
        return f"(negb {cond(node.operand, names, dct)})"
    if isinstance(node, ast.Compare) and len(node.ops) == 1:
        l, r, op = node.left, node.comparators[0], node.ops[0]
        if isinstance(op, ast.In) and path_of(r) == dct:
            return f"(nmem {key_of(l, names)} {dct})"
        if isinstance(op, ast.NotIn) and path_of(r) == dct:
            return f"(negb (nmem {key_of(l, names)} {dct}))"
        if isinstance(op, (ast.Eq, ast.NotEq)) and isinstance(l, ast.Name) and isinstance(r, ast.Name) and l.id in names and r.id in names:
            e = f"(String.eqb {l.id} {r.id})"
            return e if isinstance(op, ast.Eq) else f"(negb {e})"
    fail(node, "condition")


def value(node, names, dct):
    if isinstance(node, ast.Subscript) and path_of(node.value) == dct:
        return f"(nget {key_of(node.slice, names)} {dct})"
    if isinstance(node, ast.Constant) and isinstance(node.value, (int, float)) and not isinstance(node.value, bool):
        f = Fraction(node.value)
        return f"({f.numerator} # {f.denominator})%Q"
    fail(node, "value")


def chain(stmt, names, dct, var):
    """if/elif/else chain in which every branch is the single statement `var = <value>`"""
    def branch(body):
        if len(body) == 1 and isinstance(body[0], ast.Assign) and path_of(body[0].targets[0]) == var:
            return value(body[0].value, names, dct)
        if len(body) == 1 and isinstance(body[0], ast.If):
            return chain(body[0], names, dct, var)
        fail(body[0], f"branch is not `{var} = ...`")
    if not stmt.orelse:
        fail(stmt, "if without else leaves the value undefined")
    return f"(if {cond(stmt.test, names, dct)} then {branch(stmt.body)}\n         else {branch(stmt.orelse)})"


def enum_loop(node, over):
    if not (isinstance(node, ast.For) and not node.orelse and isinstance(node.iter, ast.Call) and path_of(node.iter.func) == "enumerate"
            and len(node.iter.args) == 1 and path_of(node.iter.args[0]) == over and isinstance(node.target, ast.Tuple)
            and len(node.target.elts) == 2 and all(isinstance(e, ast.Name) for e in node.target.elts)):
        fail(node, f"not `for idx, sym in enumerate({over})`")
    return node.target.elts[0].id, node.target.elts[1].id


def main(repo, outdir):
    out = os.path.join(outdir, "NoisePy.v")
    try:
        path = os.path.join(repo, "py/formak/python.py")
        cp = get_source_func(path, "ExtendedKalmanFilter._construct_process")
        params = [a.arg for a in cp.args.args + cp.args.kwonlyargs]
        dct = "process_noise"
        if dct not in params:
            raise Untranslatable("_construct_process has no process_noise parameter")
        body = cp.body
        init = [i for i, s in enumerate(body) if isinstance(s, ast.Assign) and isinstance(s.value, ast.Call) and path_of(s.value.func) == "np.eye"]
        if len(init) != 1:
            raise Untranslatable("_construct_process: expected exactly one np.eye(...) initialisation")
        i0 = init[0]
        M = path_of(body[i0].targets[0])
        size = ast.unparse(body[i0].value.args[0]) if len(body[i0].value.args) == 1 and not body[i0].value.keywords else None
        if size not in ("self._state_model.control_size", "self.control_size", "len(self.arglist_control)"):
            fail(body[i0], "np.eye argument is not the control size")
        # the sizes used are the number of declared controls, and arglist_control is those controls sorted
        einit = ast.unparse(get_source_func(path, "ExtendedKalmanFilter.__init__"))
        minit = ast.unparse(get_source_func(path, "Model.__init__"))
        for txt, want in ((einit, "self.control_size = len(state_model.control)"), (einit, "self.arglist_control = sorted(list(state_model.control), key=lambda x: x.name)"),
                          (minit, "self.control_size = len(symbolic_model.control)")):
            if want not in txt:
                raise Untranslatable(f"`{want}` not found")
        outer = body[i0 + 1]
        over = "self.arglist_control"
        iIdx, iSym = enum_loop(outer, over)
        if len(outer.body) != 1:
            fail(outer, "outer loop body is not a single inner loop")
        inner = outer.body[0]
        jIdx, jSym = enum_loop(inner, over)
        if len({iIdx, iSym, jIdx, jSym}) != 4:
            fail(inner, "loop variables clash")
        names = {iSym, jSym}
        idxs = {iIdx, jIdx}
        stmts = inner.body
        if not (stmts and isinstance(stmts[0], ast.If)):
            fail(inner, "inner body does not start with the value chain")
        var = None
        for n in ast.walk(stmts[0]):
            if isinstance(n, ast.Assign):
                var = path_of(n.targets[0])
                break
        val = chain(stmts[0], names, dct, var)
        stores = []
        for s in stmts[1:]:
            if not (isinstance(s, ast.Assign) and len(s.targets) == 1 and isinstance(s.targets[0], ast.Subscript) and path_of(s.targets[0].value) == M
                    and isinstance(s.targets[0].slice, ast.Tuple) and len(s.targets[0].slice.elts) == 2
                    and all(isinstance(e, ast.Name) and e.id in idxs for e in s.targets[0].slice.elts) and path_of(s.value) == var):
                fail(s, f"not a store `{M}[idx, idx] = {var}`")
            a, b = (e.id for e in s.targets[0].slice.elts)
            stores.append((a, b))
        if not stores:
            fail(inner, "no store")
        # nothing else may touch M before it is published
        rest = body[i0 + 2:]
        pub = [k for k, s in enumerate(rest) if isinstance(s, ast.Assign) and path_of(s.targets[0]) == "self.process_noise"]
        if not pub or ast.unparse(rest[pub[0]].value) != M:
            raise Untranslatable(f"self.process_noise = {M} not found")
        for s in rest[:pub[0]]:
            if any(isinstance(n, ast.Name) and n.id == M for n in ast.walk(s)):
                fail(s, f"{M} modified between the loop and its publication")
        later = [s for s in body[i0 + 2 + pub[0] + 1:] + body[:i0] if any(isinstance(n, ast.Attribute) and path_of(n) == "self.process_noise" and isinstance(n.ctx, ast.Store) for n in ast.walk(s))]
        if later:
            fail(later[0], "self.process_noise stored elsewhere")
        L = ["(* GENERATED on every run by tools/translate/gen_noise.py from python.ExtendedKalmanFilter._construct_process. *)",
             "From Coq Require Import String List Bool Arith QArith.",
             "From FV Require Import Base.Names Base.Expr Base.ListMat Base.Store Model.Named.",
             "Import ListNotations.",
             f"Definition py_noise_loop (arglist_control : list name) ({dct} : list (nkey * Q)) : lmat :=",
             f"  fold_left (fun {M} '({iIdx}, {iSym}) =>",
             f"    fold_left (fun {M} '({jIdx}, {jSym}) =>",
             f"      let {var} :=\n        {val} in"]
        for a, b in stores:
            L.append(f"      let {M} := lstore {M} {a} {b} {var} in")
        L += [f"      {M}) (enumerate arglist_control) {M})",
              "    (enumerate arglist_control) (lid (length arglist_control)).", ""]
        open(out, "w").write("\n".join(L))
        print(f"gen_noise: wrote {out} ({len(stores)} stores per iteration)")
        return 0
    except Untranslatable as e:
        open(out, "w").write("(* gen_noise FAILED CLOSED: " + str(e).replace("*)", "* )").replace("(*", "( *") + " *)\nDefinition translation_failed : False := I.\n")
        print("gen_noise: UNTRANSLATABLE:", e)
        return 1


if __name__ == "__main__":
    sys.exit(main(sys.argv[1], sys.argv[2]))
