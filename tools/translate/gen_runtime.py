"""gen_runtime: /repo/py/formak/runtime.py (ManagedFilter._process_model, ManagedFilter.tick) -> gen/RuntimePy.v"""
import sys, os
sys.path.insert(0, os.path.dirname(os.path.abspath(__file__)))
from py2v import *

HEADER = '''(* GENERATED on every run from py/formak/runtime.py by tools/translate/gen_runtime.py. Do not edit. *)
From Coq Require Import ZArith QArith List Bool PrimFloat.
From FV Require Import Base.Num.
Import ListNotations.

Section RuntimePy.
Variable N : Num.
Variables St Cov Ctl Rd RdData KW Key : Type.
Variable impl_process_model : N -> St -> Cov -> option Ctl -> (St * Cov).
Variable impl_sensor_model : St -> Cov -> Key -> RdData -> (St * Cov).
Variable impl_make_reading : Key -> KW -> RdData.
Variable impl_control_size : Z.
Variable cfg_max_dt_sec : N.
Variable rd_ts : Rd -> N.
Variable rd_key : Rd -> Key.
Variable rd_data : Rd -> option RdData.
Variable rd_kwargs : Rd -> KW.
'''


def main(repo, outdir):
    out = os.path.join(outdir, "RuntimePy.v")
    try:
        path = os.path.join(repo, "py/formak/runtime.py")
        # ---- _process_model
        f = get_source_func(path, "ManagedFilter._process_model")
        argn = [a.arg for a in f.args.args]
        if argn != ["self", "output_time", "control"]:
            raise Untranslatable(f"_process_model signature changed: {argn}")
        spec = Spec(
            names={
                "self._impl.config.max_dt_sec": ("cfg_max_dt_sec", "num"),
                "self.current_time": ("self_current_time", "num"),
                "self.state": ("self_state", "opq"),
                "self.covariance": ("self_covariance", "opq"),
                "output_time": ("output_time", "num"),
                "control": ("control", "opt:opq"),
            },
            calls={
                "self._impl.process_model": {"g": "impl_process_model", "kind": "tuple:opq,opq"},
                "StateAndVariance": {"g": "pair", "kind": "opq"},
            },
        )
        tr = FuncTranslator(spec)
        body1 = tr.body(f.body)
        d1 = ("Definition py_process_model (self_current_time : N) (self_state : St) (self_covariance : Cov)\n"
              "  (output_time : N) (control : option Ctl) : option (N * (St * Cov)) :=\n" + indent(body1) + ".\n")
        # ---- tick
        f = get_source_func(path, "ManagedFilter.tick")
        argn = [a.arg for a in f.args.args] + ["*"] + [a.arg for a in f.args.kwonlyargs]
        if argn != ["self", "output_time", "*", "control", "readings"]:
            raise Untranslatable(f"tick signature changed: {argn}")
        spec = Spec(
            names={
                "self.current_time": ("self_current_time", "num"),
                "self.state": ("self_state", "opq"),
                "self.covariance": ("self_covariance", "opq"),
                "self._impl.control_size": ("impl_control_size", "int"),
                "output_time": ("output_time", "num"),
                "control": ("control", "opt:opq"),
                "readings": ("readings", "opt:list:rd"),
                "sensor_reading.timestamp": ("(rd_ts sensor_reading)", "num"),
                "sensor_reading.sensor_key": ("(rd_key sensor_reading)", "opq"),
                "sensor_reading._data": ("(rd_data sensor_reading)", "opt:opq"),
                "sensor_reading.kwargs": ("(rd_kwargs sensor_reading)", "opq"),
            },
            calls={
                "self._process_model": {"g": "py_process_model", "kind": "tuple:num,(opq,opq)", "monadic": True,
                                        "prefix": ["self.current_time", "self.state", "self.covariance"],
                                        "kw": ["output_time", "control"]},
                "self._impl.sensor_model": {"g": "impl_sensor_model", "kind": "tuple:opq,opq",
                                            "kw": ["state", "covariance", "sensor_key", "sensor_reading"]},
                "self._impl.make_reading": {"g": "impl_make_reading", "kind": "opq", "splat": True},
            },
        )
        tr2 = FuncTranslator(spec)
        tr2.kinds["self.current_time"] = "num"
        tr2.kinds["self.state"] = "opq"
        tr2.kinds["self.covariance"] = "opq"
        tr2.final_fields = ["self.current_time", "self.state", "self.covariance"]
        body2 = tr2.body(f.body)
        d2 = ("Definition py_tick (self_current_time : N) (self_state : St) (self_covariance : Cov)\n"
              "  (output_time : N) (control : option Ctl) (readings : option (list Rd))\n"
              "  : option ((St * Cov) * (N * St * Cov)) :=\n" + indent(body2) + ".\n")
        txt = HEADER + "\n" + d1 + "\n" + d2 + "\nEnd RuntimePy.\n"
        txt += "\n(* skipped (non-functional) statements: " + "; ".join(tr.skipped + tr2.skipped).replace("*)", "* )") + " *)\n"
    except Exception as e:
        open(out, "w").write(f"(* TRANSLATION FAILED (fail closed): {str(e).replace('*)', '* )')} *)\n"
                             "Definition translation_failed : False := I.\n")
        print("UNTRANSLATABLE", e)
        return 1
    old = open(out).read() if os.path.exists(out) else None
    if old != txt:
        open(out, "w").write(txt)
    return 0


if __name__ == "__main__":
    sys.exit(main(sys.argv[1], sys.argv[2]))
