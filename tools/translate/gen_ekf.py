"""gen_ekf: the EKF algebra as written in the source -> Gallina, three renderings from one IR.

Sources: python.py (ExtendedKalmanFilter.process_model / sensor_model / remove_innovation,
assert_valid_covariance), templates/process_model.cpp, templates/sensor_model.hpp,
cpp/include/formak/innovation_filtering.h, cpp.Config.ccode (how the threshold is emitted).

Renderings:  A  MathComp terms over a real field (theorems);  B  list-of-lists over Q (in-Coq
evaluation against the implementation);  F  PrimFloat for the scalar threshold decision.
Fail closed on anything outside the recognised forms."""
import ast
import os
import re
import sys

sys.path.insert(0, os.path.dirname(os.path.abspath(__file__)))
from py2v import Untranslatable, fail, get_source_func, path_of


# ------------------------------------------------------------------------------------------ IR printers
def pa(e):
    """MathComp"""
    t = e[0]
    if t == "var":
        return e[1]
    if t == "mul":
        return f"({pa(e[1])} *m {pa(e[2])})"
    if t == "tr":
        return f"({pa(e[1])})^T"
    if t == "add":
        return f"({pa(e[1])} + {pa(e[2])})"
    if t == "sub":
        return f"({pa(e[1])} - {pa(e[2])})"
    if t == "inv":
        return f"(invmx {pa(e[1])})"
    if t == "emul":
        raise Untranslatable("elementwise `*` between arrays (numpy broadcasting) is not a matrix product")
    if t == "half":
        return f"(2%:R^-1 *: {pa(e[1])})"
    if t == "idx00":
        return f"(({pa(e[1])}) 0 0)"
    raise Untranslatable(f"IR {t}")


def pb(e):
    """list of lists over Q"""
    t = e[0]
    if t == "var":
        return e[1]
    if t == "mul":
        return f"(lmul {pb(e[1])} {pb(e[2])})"
    if t == "tr":
        return f"(ltr {pb(e[1])})"
    if t == "add":
        return f"(ladd {pb(e[1])} {pb(e[2])})"
    if t == "sub":
        return f"(lsub {pb(e[1])} {pb(e[2])})"
    if t == "inv":
        return f"(linv {pb(e[1])})"
    if t == "emul":
        raise Untranslatable("elementwise `*` between arrays (numpy broadcasting) is not a matrix product")
    if t == "half":
        return f"(lscale (1 # 2)%Q {pb(e[1])})"
    if t == "idx00":
        return f"(l00 {pb(e[1])})"
    raise Untranslatable(f"IR {t}")


# ------------------------------------------------------------------------------------------ Python matrix expressions
def pymat(e, names):
    p = path_of(e)
    if p is not None:
        if p in names:
            return ("var", names[p])
        if p.endswith(".T") and p[:-2] in names:
            return ("tr", ("var", names[p[:-2]]))
        fail(e, "unknown matrix name")
    if isinstance(e, ast.Call):
        f = path_of(e.func)
        if f in ("np.matmul", "np.dot", "numpy.matmul") and len(e.args) == 2 and not e.keywords:
            return ("mul", pymat(e.args[0], names), pymat(e.args[1], names))
        if f == "np.linalg.inv" and len(e.args) == 1:
            return ("inv", pymat(e.args[0], names))
        if f in ("np.transpose",) and len(e.args) == 1:
            return ("tr", pymat(e.args[0], names))
        if isinstance(e.func, ast.Attribute) and e.func.attr == "transpose" and not e.args:
            return ("tr", pymat(e.func.value, names))
        fail(e, "call in matrix expression")
    if isinstance(e, ast.BinOp) and isinstance(e.op, ast.Div) and isinstance(e.right, ast.Constant) and e.right.value in (2, 2.0):
        return ("half", pymat(e.left, names))
    if isinstance(e, ast.BinOp):
        a, b = pymat(e.left, names), pymat(e.right, names)
        if isinstance(e.op, ast.MatMult):
            return ("mul", a, b)
        if isinstance(e.op, ast.Add):
            return ("add", a, b)
        if isinstance(e.op, ast.Sub):
            return ("sub", a, b)
        if isinstance(e.op, ast.Mult):
            return ("emul", a, b)
        fail(e, "operator in matrix expression")
    if isinstance(e, ast.Subscript) and isinstance(e.slice, ast.Tuple) and [ast.unparse(x) for x in e.slice.elts] == ["0", "0"]:
        return ("idx00", pymat(e.value, names))
    fail(e, "matrix expression form")


SKIP_CALLS = {"assert_valid_covariance", "print"}


def walk_straight(func, names, opaque_calls, on_return, on_if):
    """Straight-line walker: returns (lets, gates).  lets: list of (var, IR or ('input', gallina))."""
    lets, gates = [], []
    for s in func.body:
        if isinstance(s, ast.Expr) and isinstance(s.value, ast.Constant):
            continue
        if isinstance(s, ast.Expr) and isinstance(s.value, ast.Call) and path_of(s.value.func) in SKIP_CALLS:
            gates.append((len(lets), ast.unparse(s.value)))
            continue
        if isinstance(s, ast.Assert):
            continue
        if isinstance(s, ast.Try) and all(isinstance(b, ast.Assert) for b in s.body):
            continue
        if isinstance(s, ast.If):
            r = on_if(s, names, lets)
            if r == "skip":
                continue
            if r is not None:
                lets.append(r)
                continue
            fail(s, "conditional")
        if isinstance(s, ast.Return):
            lets.append(("return", on_return(s, names)))
            continue
        if isinstance(s, ast.Assign):
            v = s.value
            tnames = []
            for t in s.targets:
                p = path_of(t)
                if p is None and isinstance(t, ast.Subscript):
                    p = path_of(t.value) + "[]"
                if p is None:
                    fail(s, "assignment target")
                tnames.append(p)
            if isinstance(v, ast.Call) and path_of(v.func) in opaque_calls:
                g = opaque_calls[path_of(v.func)]
                if g is None:
                    for p in tnames:
                        names[p] = None
                    continue
                for p in tnames:
                    names[p] = g
                    names[p + ".data"] = g
                continue
            if isinstance(v, ast.Subscript) and path_of(v.value) in ("self.sensor_models", "self.sensor_noises"):
                g = {"self.sensor_models": None, "self.sensor_noises": "Q"}[path_of(v.value)]
                for p in tnames:
                    names[p] = g
                    if g:
                        names[p + ".data"] = g
                continue
            if isinstance(v, ast.Call) and path_of(v.func) == "len":
                continue
            ir = pymat(v, names)
            var = None
            for p in tnames:
                if p.endswith("[]"):
                    lets.append(("record", p[:-2], ir if var is None else ("var", var)))
                else:
                    g = p.replace(".", "_")
                    if var is None:
                        lets.append(("let", g, ir))
                        var = g
                    else:
                        lets.append(("let", g, ("var", var)))
                    names[p] = g
            # re-point records to the variable
            lets[:] = [(("record", l[1], ("var", var)) if (l[0] == "record" and var and l[2] == ir) else l) for l in lets]
            continue
        fail(s, "statement form")
    return lets, gates


def render_lets(lets, pr):
    out = ""
    for l in lets:
        if l[0] == "let":
            out += f"  let {l[1]} := {pr(l[2])} in\n"
    return out


# ------------------------------------------------------------------------------------------ C++ expressions (Eigen)
TOK = re.compile(r"\s*(?:(\d+\.\d*|\d+)|([A-Za-z_][A-Za-z0-9_:]*)|(\.[A-Za-z_]+\(\))|(\.[A-Za-z_]+)|(.))")


def ctokens(s):
    out = []
    pos = 0
    s = s.strip()
    while pos < len(s):
        m = TOK.match(s, pos)
        if not m:
            raise Untranslatable(f"C++ token at {s[pos:pos+20]!r}")
        pos = m.end()
        num, ident, meth, fld, ch = m.groups()
        if num:
            out.append(("num", num))
        elif ident:
            out.append(("id", ident))
        elif meth:
            out.append(("meth", meth[1:-2]))
        elif fld:
            out.append(("fld", fld[1:]))
        elif ch.strip():
            out.append(("op", ch))
    return out


class CParser:
    def __init__(self, toks, names):
        self.t, self.i, self.names = toks, 0, names

    def peek(self):
        return self.t[self.i] if self.i < len(self.t) else ("end", "")

    def eat(self, kind=None, val=None):
        k = self.peek()
        if (kind and k[0] != kind) or (val and k[1] != val):
            raise Untranslatable(f"C++ parse: expected {kind} {val}, got {k}")
        self.i += 1
        return k

    def expr(self):
        a = self.term()
        while self.peek() in (("op", "+"), ("op", "-")):
            op = self.eat()[1]
            b = self.term()
            a = ("add" if op == "+" else "sub", a, b)
        return a

    def term(self):
        a = self.postfix()
        while self.peek() in (("op", "*"), ("op", "/")):
            op = self.eat()[1]
            if op == "/":
                k = self.eat()
                if k not in (("num", "2.0"), ("num", "2"), ("num", "2.")):
                    raise Untranslatable(f"C++ parse: division by {k}")
                a = ("half", a)
                continue
            b = self.postfix()
            a = ("mul", a, b)   # left associative, as C++
        return a

    def postfix(self):
        k = self.peek()
        if k == ("op", "("):
            self.eat()
            a = self.expr()
            self.eat("op", ")")
        elif k[0] == "id":
            self.eat()
            name = k[1]
            while self.peek()[0] == "fld":
                name += "." + self.eat()[1]
            if name not in self.names:
                raise Untranslatable(f"C++ parse: unknown name {name}")
            a = ("var", self.names[name])
        else:
            raise Untranslatable(f"C++ parse: unexpected {k}")
        while True:
            k = self.peek()
            if k == ("meth", "transpose"):
                self.eat()
                a = ("tr", a)
            elif k == ("meth", "inverse"):
                self.eat()
                a = ("inv", a)
            elif k == ("op", "(") and self.t[self.i + 1:self.i + 5] == [("num", "0"), ("op", ","), ("num", "0"), ("op", ")")]:
                self.i += 5
                a = ("idx00", a)
            else:
                return a


def cexpr(text, names):
    p = CParser(ctokens(text), names)
    e = p.expr()
    if p.peek()[0] != "end":
        raise Untranslatable(f"C++ parse: trailing tokens in {text!r}")
    return e


def cpp_statements(path):
    src = open(path).read()
    src = re.sub(r"\{%.*?%\}", "", src)
    src = re.sub(r"//[^\n]*", "", src)
    return src


def split_statements(src):
    """top-level statements separated by ';' (braces tracked)"""
    out, depth, cur = [], 0, ""
    for ch in src:
        if ch == "{":
            depth += 1
        if ch == "}":
            depth -= 1
            cur += ch
            if depth == 0 and cur.strip().startswith("if"):
                out.append(cur.strip())
                cur = ""
            continue
        if ch == ";" and depth == 0:
            out.append(cur.strip())
            cur = ""
        else:
            cur += ch
    if cur.strip():
        out.append(cur.strip())
    return [re.sub(r"\s+", " ", s) for s in out if s.strip()]


CALL_RE = re.compile(r"^(?:const )?(?:typename )?([A-Za-z_:]+(?:<[^>]*>)?&?) ([A-Za-z_]+) = ([A-Za-z_:]+)\((.*)\)$")
DECL_RE = re.compile(r"^(?:const )?(?:typename )?([A-Za-z_:]+)&? ([A-Za-z_]+) = (.*)$")


def args_norm(a):
    return [x.strip() for x in a.split(",") if x.strip()]


def main(repo, outdir):
    outA, outB = os.path.join(outdir, "EkfA.v"), os.path.join(outdir, "EkfB.v")
    try:
        path = os.path.join(repo, "py/formak/python.py")
        # ============================================================ python: process_model
        f = get_source_func(path, "ExtendedKalmanFilter.process_model")
        if [a.arg for a in f.args.args] != ["self", "dt", "state", "covariance", "control"]:
            raise Untranslatable("process_model signature changed")
        names = {"covariance.data": "P", "self.process_noise": "M"}
        opaque = {"self.process_jacobian": "G", "self.control_jacobian": "V", "self._state_model.model": "fx"}
        for k, args in (("self.process_jacobian", "dt, state, control"), ("self.control_jacobian", "dt, state, control"),
                        ("self._state_model.model", "dt, state, control")):
            calls = [n for n in ast.walk(f) if isinstance(n, ast.Call) and path_of(n.func) == k]
            if len(calls) != 1 or ", ".join(ast.unparse(a) for a in calls[0].args) != args or calls[0].keywords:
                raise Untranslatable(f"process_model: call of {k} changed")

        def on_if_pm(s, names, lets):
            if ast.unparse(s) == "if control is None:\n    control = self.Control()":
                return "skip"
            return None

        def on_ret_pm(s, names):
            want = "StateAndCovariance(next_state, self.Covariance.from_data(next_covariance))"
            if ast.unparse(s.value) != want:
                fail(s, "process_model return value")
            return (names["next_state"], names["next_covariance"])
        lets, gates_pm = walk_straight(f, names, opaque, on_ret_pm, on_if_pm)
        ret = [l for l in lets if l[0] == "return"][-1][1]
        if ret[0] != "fx":
            raise Untranslatable("process_model: returned state is not the model-propagated state")
        pm_A = ("Definition py_process_model_cov (G : 'M[F]_n) (V : 'M[F]_(n, c)) (P : 'M[F]_n) (M : 'M[F]_c) : 'M[F]_n :=\n"
                + render_lets(lets, pa) + f"  {ret[1]}.\n")
        pm_B = ("Definition py_process_model_cov_l (G V P M : lmat) : lmat :=\n" + render_lets(lets, pb) + f"  {ret[1]}.\n")
        # purity: no store into a parameter
        for n in ast.walk(f):
            if isinstance(n, (ast.Assign, ast.AugAssign)):
                for t in (n.targets if isinstance(n, ast.Assign) else [n.target]):
                    root = t
                    while isinstance(root, (ast.Attribute, ast.Subscript)):
                        root = root.value
                    if isinstance(root, ast.Name) and root.id in ("state", "covariance", "dt") or \
                            (isinstance(root, ast.Name) and root.id == "self"):
                        fail(n, "process_model stores into an input or into the filter")
            if isinstance(n, ast.AugAssign):
                fail(n, "augmented assignment in process_model")

        # ============================================================ python: sensor_model
        f = get_source_func(path, "ExtendedKalmanFilter.sensor_model")
        if [a.arg for a in f.args.args] + [a.arg for a in f.args.kwonlyargs] != ["self", "state", "covariance", "sensor_key", "sensor_reading"]:
            raise Untranslatable("sensor_model signature changed")
        names = {"covariance.data": "P", "state.data": "x", "sensor_reading.data": "z"}
        opaque = {"model_impl.model": "hx", "self.sensor_jacobian": "H"}
        for k, args in (("model_impl.model", "state"), ("self.sensor_jacobian", "sensor_key, state")):
            calls = [n for n in ast.walk(f) if isinstance(n, ast.Call) and path_of(n.func) == k]
            if len(calls) != 1 or ", ".join(ast.unparse(a) for a in calls[0].args) != args:
                raise Untranslatable(f"sensor_model: call of {k} changed")
        if ast.unparse(f.body[1] if not isinstance(f.body[0], ast.Expr) else f.body[1]).find("model_impl = self.sensor_models[sensor_key]") < 0 \
                and not any(ast.unparse(s) == "model_impl = self.sensor_models[sensor_key]" for s in f.body):
            raise Untranslatable("sensor_model: model_impl lookup changed")
        reject = {}

        def on_if_sm(s, names, lets):
            if ast.unparse(s.test) == "self.remove_innovation(innovation, S_inv)" and not s.orelse and len(s.body) == 1 \
                    and isinstance(s.body[0], ast.Return):
                if ast.unparse(s.body[0].value) != "StateAndCovariance(state, covariance)":
                    fail(s, "rejected branch does not return the unchanged (state, covariance)")
                reject["at"] = len(lets)
                reject["args"] = (names.get("innovation"), names.get("S_inv"))
                return ("reject",)
            return None

        def on_ret_sm(s, names):
            if ast.unparse(s.value) != "StateAndCovariance(self.State.from_data(next_state), self.Covariance.from_data(next_covariance))":
                fail(s, "sensor_model return value")
            return (names["next_state"], names["next_covariance"])
        lets, gates_sm = walk_straight(f, names, opaque, on_ret_sm, on_if_sm)
        if "at" not in reject:
            raise Untranslatable("sensor_model: innovation filtering test not found")
        recs = {l[1]: l[2] for l in lets if l[0] == "record"}
        if set(recs) != {"self.sensor_prediction_uncertainty", "self.innovations"}:
            raise Untranslatable(f"sensor_model: recorded quantities changed: {sorted(recs)}")
        rec_pos = {l[1]: i for i, l in enumerate(lets) if l[0] == "record"}
        if max(rec_pos.values()) > [i for i, l in enumerate(lets) if l[0] == "reject"][0]:
            raise Untranslatable("sensor_model: innovation / innovation covariance are recorded after the rejection test")
        ret = [l for l in lets if l[0] == "return"][-1][1]
        ri = [i for i, l in enumerate(lets) if l[0] == "reject"][0]
        pre, post = lets[:ri], lets[ri + 1:]
        rec_txt = lambda pr: f"({pr(recs['self.innovations'])}, {pr(recs['self.sensor_prediction_uncertainty'])})"
        sm_A = ("Definition py_sensor_model (rm : 'cV[F]_m -> 'M[F]_m -> bool) (x : 'cV[F]_n) (P : 'M[F]_n) (z hx : 'cV[F]_m)\n"
                "    (H : 'M[F]_(m, n)) (Q : 'M[F]_m) : ('cV[F]_n * 'M[F]_n) * ('cV[F]_m * 'M[F]_m) :=\n"
                + render_lets(pre, pa) + f"  if rm {reject['args'][0]} {reject['args'][1]} then ((x, P), {rec_txt(pa)}) else\n"
                + render_lets(post, pa) + f"  (({ret[0]}, {ret[1]}), {rec_txt(pa)}).\n")
        sm_B = ("Definition py_sensor_model_l (rm : lmat -> lmat -> bool) (x P z hx H Q : lmat) : (lmat * lmat) * (lmat * lmat) :=\n"
                + render_lets(pre, pb) + f"  if rm {reject['args'][0]} {reject['args'][1]} then ((x, P), {rec_txt(pb)}) else\n"
                + render_lets(post, pb) + f"  (({ret[0]}, {ret[1]}), {rec_txt(pb)}).\n")

        # ============================================================ python: remove_innovation
        f = get_source_func(path, "ExtendedKalmanFilter.remove_innovation")
        body = [s for s in f.body if not (isinstance(s, ast.Expr) and isinstance(s.value, ast.Constant))]
        if ast.unparse(body[0]) != "if self.config.innovation_filtering is None:\n    return False":
            raise Untranslatable("remove_innovation: disabled setting is not `is None -> False`")
        if ast.unparse(body[1]).replace(": float", "") != "editing_threshold = self.config.innovation_filtering":
            raise Untranslatable("remove_innovation: threshold source changed")
        nis = None
        thr = None
        shape_ok = False
        for s in body[2:-1]:
            if isinstance(s, ast.Assign) and path_of(s.targets[0]) == "normalized_innovation":
                nis = pymat(s.value, {"innovation": "innovation", "S_inv": "S_inv"})
            elif isinstance(s, ast.Assign) and ast.unparse(s) == "sensor_size, _ = innovation.shape":
                shape_ok = True
            elif isinstance(s, ast.Assign) and path_of(s.targets[0]) == "expected_innovation":
                thr = s.value
            else:
                fail(s, "remove_innovation statement")
        if nis is None or thr is None or not shape_ok:
            raise Untranslatable("remove_innovation: NIS / threshold / reading dimension not found")

        def scal(e, mode):
            """scalar threshold expression; mode 'A' (rcf) or 'F' (PrimFloat).  returns (text, is_int)"""
            if isinstance(e, ast.Constant) and isinstance(e.value, int):
                return (f"{e.value}%:R" if mode == "A" else f"{e.value}%Z"), True
            p = path_of(e)
            if p == "sensor_size":
                return ("m%:R" if mode == "A" else "m"), True
            if p == "editing_threshold":
                return "k", False
            if isinstance(e, ast.Call) and path_of(e.func) in ("sqrt", "math.sqrt", "np.sqrt") and len(e.args) == 1:
                a, isint = scal(e.args[0], mode)
                if mode == "A":
                    return f"(Num.sqrt {a})", False
                return f"(PrimFloat.sqrt {f'(f_ofZ {a})' if isint else a})", False
            if isinstance(e, ast.BinOp) and isinstance(e.op, (ast.Add, ast.Mult)):
                a, ai = scal(e.left, mode)
                b, bi = scal(e.right, mode)
                if mode == "A":
                    return f"({a} {'+' if isinstance(e.op, ast.Add) else '*'} {b})", False
                if ai and bi:
                    return f"({a} {'+' if isinstance(e.op, ast.Add) else '*'} {b})%Z", True
                a = f"(f_ofZ {a})" if ai else a
                b = f"(f_ofZ {b})" if bi else b
                return f"(PrimFloat.{'add' if isinstance(e.op, ast.Add) else 'mul'} {a} {b})", False
            fail(e, "threshold expression")
        last = body[-1]
        if not (isinstance(last, ast.Return) and isinstance(last.value, ast.Compare) and len(last.value.ops) == 1):
            raise Untranslatable("remove_innovation: final comparison not found")
        l, r = path_of(last.value.left), path_of(last.value.comparators[0])
        op = type(last.value.ops[0])
        if (l, r) == ("normalized_innovation", "expected_innovation"):
            cmpA = {ast.Gt: "expected_innovation < normalized_innovation", ast.GtE: "expected_innovation <= normalized_innovation"}.get(op)
            cmpF = {ast.Gt: "PrimFloat.ltb expected_innovation nis", ast.GtE: "PrimFloat.leb expected_innovation nis"}.get(op)
        elif (l, r) == ("expected_innovation", "normalized_innovation"):
            cmpA = {ast.Lt: "expected_innovation < normalized_innovation", ast.LtE: "expected_innovation <= normalized_innovation"}.get(op)
            cmpF = {ast.Lt: "PrimFloat.ltb expected_innovation nis", ast.LtE: "PrimFloat.leb expected_innovation nis"}.get(op)
        else:
            cmpA = cmpF = None
        if cmpA is None:
            fail(last, "remove_innovation comparison")
        thrA, _ = scal(thr, "A")
        thrF, isint = scal(thr, "F")
        rm_A = ("Definition py_remove_innovation (k : option R) (innovation : 'cV[R]_m) (S_inv : 'M[R]_m) : bool :=\n"
                "  match k with None => false | Some k =>\n"
                f"  let normalized_innovation := {pa(nis)} in\n  let expected_innovation := {thrA} in\n  {cmpA} end.\n")
        rm_F = ("Definition py_threshold_f (k : float) (m : Z) : float := " + thrF + ".\n"
                "Definition py_remove_f (k : option float) (m : Z) (nis : float) : bool :=\n"
                "  match k with None => false | Some k => let expected_innovation := py_threshold_f k m in " + cmpF + " end.\n")
        nis_B = f"Definition py_nis_l (innovation S_inv : lmat) : Q := {pb(nis)}.\n"

        # ============================================================ python: validity gate
        g = get_source_func(path, "assert_valid_covariance")
        dflt = {a.arg: d for a, d in zip(g.args.kwonlyargs, g.args.kw_defaults)}
        tol = ast.literal_eval(dflt["negative_tol"])
        gsrc = "\n".join(ast.unparse(s) for s in g.body if not (isinstance(s, ast.Expr) and isinstance(s.value, ast.Constant)))
        want_gate = ("assert isinstance(covariance, np.ndarray)\nassert np.allclose(covariance, covariance.T)\n"
                     "covariance_eigenvalues = np.linalg.eig(covariance)[0]\n"
                     "scale = max(1, len(covariance_eigenvalues)) * max(1.0, float(np.max(np.abs(covariance_eigenvalues), initial=0.0)))\n"
                     "if np.any(np.real(covariance_eigenvalues) < negative_tol * scale):\n")
        if not gsrc.startswith(want_gate):
            raise Untranslatable("assert_valid_covariance changed:\n" + gsrc[:400])
        from fractions import Fraction
        tq = Fraction(float(tol))  # the binary64 value of the literal
        gate_A = ("(* validity gate: refuse iff some eigenvalue lam < negative_tol * scale, scale = max(1, n) * max(1, max |lam|) *)\n"
                  f"Definition gate_negative_tol : Q := ({tq.numerator} # {tq.denominator})%Q.\n"
                  "Definition gate_refuses (n : nat) (eigs : list Q) : bool :=\n"
                  "  let scale := (inject_Z (Z.of_nat (Nat.max 1 n)) * qmaxl (1 :: map Qabs eigs))%Q in\n"
                  "  existsb (fun lam => negb (Qle_bool (gate_negative_tol * scale) lam)) eigs.\n")
        gates_txt = ("(* positions of assert_valid_covariance calls: process_model " + "; ".join(g_[1] for g_ in gates_pm)
                     + " | sensor_model " + "; ".join(g_[1] for g_ in gates_sm) + " *)\n").replace("(*", "(*").replace("*)", "*)")

        # ============================================================ C++ templates
        tdir = os.path.join(repo, "py/formak/templates")
        st = split_statements(cpp_statements(os.path.join(tdir, "process_model.cpp")))
        cn = {"Sigma.data": "P"}
        clets, cret = [], None
        expect_calls = {"G": "ExtendedKalmanFilter::ProcessModel::process_jacobian", "V": "ExtendedKalmanFilter::ProcessModel::control_jacobian",
                        "M": "ExtendedKalmanFilter::ProcessModel::covariance", "next_state": "ExtendedKalmanFilter::ProcessModel::model"}
        for s in st:
            if s == "const Covariance& Sigma = state.covariance":
                continue
            m = CALL_RE.match(s)
            if m and m.group(3) in expect_calls.values():
                var, fn, args = m.group(2), m.group(3), args_norm(m.group(4))
                if expect_calls.get(var) != fn or args[:2] != ["dt", "state"] or any(a not in ("dt", "state", "calibration", "control") for a in args):
                    raise Untranslatable(f"process_model.cpp: call {s}")
                cn[var] = {"G": "G", "V": "V", "M": "M", "next_state": "fx"}[var]
                continue
            if s == "Covariance next_covariance":
                continue
            m = re.match(r"^next_covariance\.data = (.*)$", s)
            if m:
                clets.append(("let", "next_covariance_data", cexpr(m.group(1), cn)))
                cn["next_covariance.data"] = "next_covariance_data"
                continue
            if s == "return {.state = next_state, .covariance = next_covariance}":
                cret = ("fx", "next_covariance_data")
                continue
            raise Untranslatable(f"process_model.cpp: statement {s!r}")
        if cret is None or set(expect_calls) - set(cn):
            raise Untranslatable("process_model.cpp: incomplete")
        cpm_A = ("Definition cpp_process_model_cov (G : 'M[F]_n) (V : 'M[F]_(n, c)) (P : 'M[F]_n) (M : 'M[F]_c) : 'M[F]_n :=\n"
                 + render_lets(clets, pa) + f"  {cret[1]}.\n")
        cpm_B = "Definition cpp_process_model_cov_l (G V P M : lmat) : lmat :=\n" + render_lets(clets, pb) + f"  {cret[1]}.\n"

        st = split_statements(cpp_statements(os.path.join(tdir, "sensor_model.hpp")))
        cn = {"Sigma.data": "P", "mu.data": "x", "reading.data": "z"}
        pre, post, crec, cret, crej = [], [], None, None, None
        cur = pre
        sm_calls = {"reading_est": ("ReadingT::SensorModel::model", "hx"), "H": ("ReadingT::SensorModel::jacobian", "H")}
        for s in st:
            if s in ("const State& mu = state.state", "const Covariance& Sigma = state.covariance", "State next_state", "Covariance next_covariance"):
                continue
            m = CALL_RE.match(s)
            if m and m.group(2) in sm_calls and m.group(3) == sm_calls[m.group(2)][0]:
                args = args_norm(m.group(4))
                if args[0] != "state" or args[-1] != "reading" or any(a not in ("state", "calibration", "reading") for a in args):
                    raise Untranslatable(f"sensor_model.hpp: call {s}")
                g = sm_calls[m.group(2)][1]
                cn[m.group(2)] = g
                cn[m.group(2) + ".data"] = g
                continue
            m = DECL_RE.match(s)
            if m and m.group(2) in ("sensor_estimate_covariance", "S_inv", "kalman_gain", "innovation"):
                text = m.group(3)
                # the sensor noise call inside S
                text2 = re.sub(r"ReadingT::SensorModel::covariance\(([^)]*)\)", lambda mm: "Qcall", text)
                if "Qcall" in text2:
                    a = args_norm(re.search(r"ReadingT::SensorModel::covariance\(([^)]*)\)", text).group(1))
                    if a[0] != "state" or a[-1] != "reading":
                        raise Untranslatable("sensor_model.hpp: covariance call arguments")
                    cn["Qcall"] = "Q"
                cur.append(("let", m.group(2), cexpr(text2, cn)))
                cn[m.group(2)] = m.group(2)
                continue
            if s == "_innovations[ReadingT::Identifier] = innovation":
                crec = len(pre) if cur is pre else None
                continue
            if s.startswith("if constexpr"):
                want = ("if constexpr (cpp::Config::innovation_filtering > 0.0) { if (formak::innovation_filtering::edit::removeInnovation( "
                        "cpp::Config::innovation_filtering, innovation, S_inv)) { return state; } }")
                if re.sub(r"\s+", "", s) != re.sub(r"\s+", "", want):
                    raise Untranslatable(f"sensor_model.hpp: innovation filtering block changed: {s}")
                crej = True
                cur = post
                continue
            m = re.match(r"^(next_state|next_covariance)\.data = (.*)$", s)
            if m:
                cur.append(("let", m.group(1) + "_data", cexpr(m.group(2), cn)))
                cn[m.group(1) + ".data"] = m.group(1) + "_data"
                continue
            if s == "return StateAndVariance{.state = next_state, .covariance = next_covariance}":
                cret = ("next_state_data", "next_covariance_data")
                continue
            raise Untranslatable(f"sensor_model.hpp: statement {s!r}")
        if not (crej and cret and crec is not None):
            raise Untranslatable("sensor_model.hpp: incomplete (rejection test / return / innovation recorded before the test)")
        # K is computed before the test in C++; that is fine (pure). Everything before the test:
        csm_A = ("Definition cpp_sensor_model (rm : 'cV[F]_m -> 'M[F]_m -> bool) (x : 'cV[F]_n) (P : 'M[F]_n) (z hx : 'cV[F]_m)\n"
                 "    (H : 'M[F]_(m, n)) (Q : 'M[F]_m) : ('cV[F]_n * 'M[F]_n) * 'cV[F]_m :=\n"
                 + render_lets(pre, pa) + "  if rm innovation S_inv then ((x, P), innovation) else\n"
                 + render_lets(post, pa) + f"  (({cret[0]}, {cret[1]}), innovation).\n")
        csm_B = ("Definition cpp_sensor_model_l (rm : lmat -> lmat -> bool) (x P z hx H Q : lmat) : (lmat * lmat) * lmat :=\n"
                 + render_lets(pre, pb) + "  if rm innovation S_inv then ((x, P), innovation) else\n"
                 + render_lets(post, pb) + f"  (({cret[0]}, {cret[1]}), innovation).\n")

        # ============================================================ C++ helper removeInnovation
        h = open(os.path.join(repo, "cpp/include/formak/innovation_filtering.h")).read()
        h = re.sub(r"//[^\n]*", "", h)
        m = re.search(r"bool removeInnovation\((.*?)\)\s*\{(.*?)\n\}", h, re.S)
        if not m:
            raise Untranslatable("innovation_filtering.h: removeInnovation not found")
        params = re.sub(r"\s+", " ", m.group(1))
        if not re.match(r"double editing_threshold, const Eigen::Matrix<double, reading_size, 1>& innovation, const Eigen::Matrix<double, reading_size, reading_size>& sensor_estimate_covariance_inverse", params):
            raise Untranslatable("removeInnovation: parameters changed: " + params)
        hst = split_statements(m.group(2))
        hn = {"innovation": "innovation", "sensor_estimate_covariance_inverse": "S_inv"}
        c_nis = c_thr = c_cmp = None
        for s in hst:
            mm = re.match(r"^double normalizedInnovation = (.*)$", s)
            if mm:
                c_nis = cexpr(mm.group(1), hn)
                continue
            mm = re.match(r"^double innovationExpectation = (.*)$", s)
            if mm:
                c_thr = mm.group(1).strip()
                continue
            mm = re.match(r"^return (normalizedInnovation|innovationExpectation) (>|>=|<|<=) (normalizedInnovation|innovationExpectation)$", s)
            if mm:
                c_cmp = mm.groups()
                continue
            raise Untranslatable(f"removeInnovation: statement {s!r}")
        if c_nis is None or c_thr is None or c_cmp is None:
            raise Untranslatable("removeInnovation: incomplete")
        # threshold: editing_threshold * std::sqrt(2 * reading_size) + reading_size  (ints converted as in C++)
        tt = re.sub(r"\s+", " ", c_thr)
        py_like = tt.replace("std::sqrt", "sqrt").replace("reading_size", "sensor_size")
        try:
            cthr_ast = ast.parse(py_like, mode="eval").body
        except SyntaxError:
            raise Untranslatable("removeInnovation: threshold expression " + tt)
        cthrA, _ = scal(cthr_ast, "A")
        cthrF, _ = scal(cthr_ast, "F")
        a, op, b = c_cmp
        strict = op in (">", "<")
        greater = (a == "normalizedInnovation") == (op in (">", ">="))
        if not greater:
            raise Untranslatable("removeInnovation: comparison direction")
        ccmpA = "expected_innovation < normalized_innovation" if strict else "expected_innovation <= normalized_innovation"
        ccmpF = ("PrimFloat.ltb" if strict else "PrimFloat.leb") + " expected_innovation nis"
        crm_A = ("Definition cpp_remove_innovation (k : R) (innovation : 'cV[R]_m) (S_inv : 'M[R]_m) : bool :=\n"
                 f"  let normalized_innovation := {pa(c_nis)} in\n  let expected_innovation := {cthrA} in\n  {ccmpA}.\n"
                 "(* the generated filter calls it only `if constexpr (innovation_filtering > 0.0)` *)\n"
                 "Definition cpp_filter_remove (k : R) (innovation : 'cV[R]_m) (S_inv : 'M[R]_m) : bool :=\n"
                 "  if 0 < k then cpp_remove_innovation k innovation S_inv else false.\n")
        crm_F = ("Definition cpp_threshold_f (k : float) (m : Z) : float := " + cthrF + ".\n"
                 "Definition cpp_remove_f (k : float) (m : Z) (nis : float) : bool :=\n"
                 "  let expected_innovation := cpp_threshold_f k m in " + ccmpF + ".\n"
                 "Definition cpp_filter_remove_f (k : float) (m : Z) (nis : float) : bool :=\n"
                 "  if PrimFloat.ltb 0 k then cpp_remove_f k m nis else false.\n")
        cnis_B = f"Definition cpp_nis_l (innovation S_inv : lmat) : Q := {pb(c_nis)}.\n"
        # how the Python generator emits the threshold constant: innovation_filtering if truthy else 0.0
        cfg = get_source_func(os.path.join(repo, "py/formak/cpp.py"), "Config.ccode")
        csrc = ast.unparse(cfg)
        if "MemberDeclaration('static constexpr double', 'innovation_filtering', self.innovation_filtering if self.innovation_filtering else 0.0)" not in csrc:
            raise Untranslatable("cpp.Config.ccode: emission of innovation_filtering changed")
        if "MemberDeclaration('static constexpr double', 'max_dt_sec', self.max_dt_sec)" not in csrc:
            raise Untranslatable("cpp.Config.ccode: emission of max_dt_sec changed")

        A = ("(* GENERATED on every run by tools/translate/gen_ekf.py from python.py, templates/*.cpp|hpp, innovation_filtering.h. *)\n"
             "From mathcomp Require Import all_ssreflect all_algebra.\n"
             "Set Implicit Arguments. Unset Strict Implicit. Unset Printing Implicit Defensive.\n"
             "Import Order.Theory GRing.Theory Num.Theory.\nLocal Open Scope ring_scope.\n\n"
             "Section Field.\nVariable F : realFieldType.\nVariables n c m : nat.\n\n"
             + pm_A + "\n" + cpm_A + "\n" + sm_A + "\n" + csm_A + "\nEnd Field.\n\n"
             "Section Rcf.\nVariable R : rcfType.\nVariable m : nat.\n" + rm_A + "\n" + crm_A + "End Rcf.\n" + gates_txt)
        B = ("(* GENERATED on every run by tools/translate/gen_ekf.py (executable renderings). *)\n"
             "From Coq Require Import List ZArith QArith Qabs PrimFloat Bool.\nFrom FV Require Import Base.Num Base.ListMat.\nImport ListNotations.\n\n"
             + pm_B + "\n" + cpm_B + "\n" + sm_B + "\n" + csm_B + "\n" + nis_B + cnis_B + "\n" + rm_F + "\n" + crm_F + "\n" + gate_A)
    except Exception as e:
        msg = f"(* TRANSLATION FAILED (fail closed): {str(e).replace('*)', '* )').replace('(*', '( *')} *)\nDefinition translation_failed : False := I.\n"
        open(outA, "w").write(msg)
        open(outB, "w").write(msg)
        print("UNTRANSLATABLE", e)
        return 1
    for out, txt in ((outA, A), (outB, B)):
        old = open(out).read() if os.path.exists(out) else None
        if old != txt:
            open(out, "w").write(txt)
    return 0


if __name__ == "__main__":
    sys.exit(main(sys.argv[1], sys.argv[2]))
