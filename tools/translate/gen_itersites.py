"""gen_itersites: audit of every iteration site of the code generators (cpp.py, ast_fragments.py) and of the
layout-building parts of python.py -> gen/IterSites.v.  A site is ORDERED if it iterates a sorted(...) expression,
a list that was built sorted (self.arglist_*, generator.arglist_*, readings, sensorlist), range/enumerate/zip of
such, or a local sequence; it is UNORDERED if it iterates a set / dict / .items() / .keys() / .values() directly.
Unordered sites are allowed only where the iteration order cannot reach generated text or the layout (listed below
with the reason).  Fail closed on new unordered sites."""
import ast
import os
import sys

sys.path.insert(0, os.path.dirname(os.path.abspath(__file__)))
from py2v import Untranslatable

ORDERED_ROOTS = ("self.arglist", "generator.arglist", "self._state_model.arglist", "self.readings", "sensor_model.readings",
                 "self.sensorlist", "generator.sensorlist", "self._arglist", "arglist", "temporaries", "prefix", "body",
                 "self._prefix", "self._body", "self._targets", "self._exprs", "statements", "generator.reading_types()",
                 "self.reading_types()", "symbolic_process_jacobian", "symbolic_control_jacobian", "symbolic_sensor_jacobian")
# (file, function, iterated expression) -> reason the order cannot matter
BENIGN = {
    ("python.py", "ExtendedKalmanFilter._construct_sensors", "sensor_models.items()"): "builds a dict keyed by sensor; only looked up by key",
    ("python.py", "ExtendedKalmanFilter._construct_sensors", "self.sensor_models.items()"): "builds dicts keyed by sensor; only looked up by key",
    ("python.py", "nearest_positive_definite.nearest_positive_definite_impl", "covariance.items()"): "rebuilds a dict with the same keys",
    ("cpp.py", "ExtendedKalmanFilter.__init__", "process_noise.items()"): "validation only (raises or not)",
    ("cpp.py", "ExtendedKalmanFilter.__init__", "sensor_models.items()"): "validation / sorted afterwards",
    ("cpp.py", "ExtendedKalmanFilter.__init__", "sensor_noises[key].keys()"): "set comparison only",
    ("cpp.py", "ExtendedKalmanFilter.__init__", "sensor_model.keys()"): "set comparison only",
    ("cpp.py", "ExtendedKalmanFilter.__init__", "process_noise"): "validation only",
}
SKIP_FUNCS = ("SklearnEKFAdapter", "print", "render_diff", "_compile_argparse")


def classify(it):
    t = ast.unparse(it)
    if isinstance(it, ast.Call):
        f = ast.unparse(it.func)
        if f == "sorted":
            return "sorted"
        if f in ("range", "count"):
            return "ordered"
        if f in ("enumerate", "zip", "list", "reversed"):
            cs = [classify(a) for a in it.args]
            return "unordered" if "unordered" in cs else ("sorted" if "sorted" in cs else "ordered")
        if isinstance(it.func, ast.Attribute) and it.func.attr in ("items", "keys", "values"):
            return "unordered"
        if f in ("self._model.compile", "self._process_model.compile", "body.compile", "component.compile", "self._impl.execute",
                 "impl_sensor_jacobian.execute", "self._impl_process_jacobian.execute", "self._impl_control_jacobian.execute",
                 "standard_process_args", "standard_reading_args", "_header_body", "_source_body", "generator.reading_types", "self.reading_types",
                 "chain.from_iterable", "product", "dataclasses.asdict", "inspect.signature"):
            return "ordered"
    if any(t == r or t.startswith(r) for r in ORDERED_ROOTS):
        return "ordered"
    if isinstance(it, (ast.List, ast.Tuple, ast.ListComp, ast.GeneratorExp)):
        return "ordered"
    if isinstance(it, ast.Name):
        return "local"
    if isinstance(it, ast.Attribute):
        return "attr"
    return "other"


def main(repo, outdir):
    out = os.path.join(outdir, "IterSites.v")
    try:
        rows = []
        for fn in ("cpp.py", "ast_fragments.py", "python.py", "ast_tools.py"):
            tree = ast.parse(open(os.path.join(repo, "py/formak", fn)).read())

            def walk(node, qual):
                for ch in ast.iter_child_nodes(node):
                    q = qual
                    if isinstance(ch, (ast.FunctionDef, ast.ClassDef)):
                        q = (qual + "." if qual else "") + ch.name
                    iters = []
                    if isinstance(ch, ast.For):
                        iters.append(ch.iter)
                    if isinstance(ch, (ast.ListComp, ast.SetComp, ast.DictComp, ast.GeneratorExp)):
                        iters += [g.iter for g in ch.generators]
                    for it in iters:
                        if any(q.startswith(s) for s in SKIP_FUNCS):
                            continue
                        rows.append((fn, q, ast.unparse(it), classify(it), getattr(it, "lineno", 0)))
                    walk(ch, q)
            walk(tree, "")
        bad = []
        lines = []
        for fn, q, it, cl, ln in rows:
            if cl in ("sorted", "ordered"):
                v = "Ordered"
            elif (fn, q, it) in BENIGN:
                v = "Benign"
            elif cl in ("local", "attr", "other") and fn in ("ast_tools.py",):
                v = "Ordered"  # AST node children / explicit sequences
            elif cl in ("local", "attr", "other"):
                v = "Local"
            else:
                v = "Unordered"
                bad.append(f"{fn}:{ln} {q}: for ... in {it}")
            lines.append(f'  ("{fn}:{q}: {it[:60]}"%string, {v})')
        txt = ("(* GENERATED on every run by tools/translate/gen_itersites.py: every iteration site of the generators. *)\n"
               "From Coq Require Import String List.\nImport ListNotations.\n"
               "Inductive site_kind := Ordered | Benign | Local | Unordered.\n"
               "Definition iter_sites : list (string * site_kind) := [\n" + ";\n".join(lines) + "\n].\n"
               "Definition no_unordered_site : bool := forallb (fun s => match snd s with Unordered => false | _ => true end) iter_sites.\n")
        if bad:
            txt += "(* unordered sites: " + " | ".join(bad).replace("*)", "* )") + " *)\n"
    except Exception as e:
        open(out, "w").write(f"(* TRANSLATION FAILED (fail closed): {str(e).replace('*)', '* )').replace('(*', '( *')} *)\nDefinition translation_failed : False := I.\n")
        print("UNTRANSLATABLE", e)
        return 1
    old = open(out).read() if os.path.exists(out) else None
    if old != txt:
        open(out, "w").write(txt)
    return 0


if __name__ == "__main__":
    sys.exit(main(sys.argv[1], sys.argv[2]))
