"""gen_strapdown: the 16 update expressions of formak.reference_models.strapdown_imu (live sympy objects of the
imported module) -> gen/Strapdown.v as Coq functions over R.  Floats are exported as exact rationals."""
import os
import sys
from fractions import Fraction

import sympy

NAMES = {
    "dt": "dt", "g": "g",
    "oriw": "qw", "orix": "qx", "oriy": "qy", "oriz": "qz",
    "coriw": "cw", "corix": "cx", "coriy": "cy", "coriz": "cz",
    r"\omega_{1}": "w1", r"\omega_{2}": "w2", r"\omega_{3}": "w3",
    "f_{1}": "f1", "f_{2}": "f2", "f_{3}": "f3",
    "f_bias_{1}": "b1", "f_bias_{2}": "b2", "f_bias_{3}": "b3",
    "x_{A}_{1}": "p1", "x_{A}_{2}": "p2", "x_{A}_{3}": "p3",
    r"\dot{x}_{A}_{1}": "v1", r"\dot{x}_{A}_{2}": "v2", r"\dot{x}_{A}_{3}": "v3",
    r"\ddot{x}_{A}_{1}": "a1", r"\ddot{x}_{A}_{2}": "a2", r"\ddot{x}_{A}_{3}": "a3",
    r"\dot{\psi}": "yaw_rate", r"\dot{\theta}": "pitch_rate", r"\dot{\phi}": "roll_rate",
}
PARAMS = ["dt", "g", "qw", "qx", "qy", "qz", "cw", "cx", "cy", "cz", "w1", "w2", "w3", "f1", "f2", "f3", "b1", "b2", "b3",
          "p1", "p2", "p3", "v1", "v2", "v3", "a1", "a2", "a3", "yaw_rate", "pitch_rate", "roll_rate"]


class Bad(Exception):
    pass


def q(fr):
    if fr.denominator == 1:
        return f"{fr.numerator}" if fr.numerator >= 0 else f"(- {-fr.numerator})"
    n = f"{fr.numerator}" if fr.numerator >= 0 else f"(- {-fr.numerator})"
    return f"({n} / {fr.denominator})"


def coq(e):
    if isinstance(e, sympy.Integer):
        return q(Fraction(int(e)))
    if isinstance(e, sympy.Rational):
        return q(Fraction(int(e.p), int(e.q)))
    if isinstance(e, sympy.Float):
        return q(Fraction(float(e)))
    if isinstance(e, sympy.Symbol):
        if e.name not in NAMES:
            raise Bad(f"unknown symbol {e.name}")
        return NAMES[e.name]
    if isinstance(e, sympy.Add):
        return "(" + " + ".join(coq(a) for a in e.args) + ")"
    if isinstance(e, sympy.Mul):
        return "(" + " * ".join(coq(a) for a in e.args) + ")"
    if isinstance(e, sympy.Pow) and isinstance(e.args[1], sympy.Integer):
        b, n = coq(e.args[0]), int(e.args[1])
        return f"({b} ^ {n})" if n >= 0 else f"(/ ({b} ^ {-n}))"
    raise Bad(f"unsupported expression node {type(e).__name__}: {str(e)[:60]}")


def main(repo, outdir):
    out = os.path.join(outdir, "Strapdown.v")
    try:
        sys.path.insert(0, os.path.join(repo, "py"))
        from formak.reference_models import strapdown_imu as sd
        sm = sd.symbolic_model
        # what the module declares
        st = sorted(NAMES[s.name] for s in sm.state)
        ct = sorted(NAMES[s.name] for s in sm.control)
        ca = sorted(NAMES[s.name] for s in sm.calibration)
        if st != sorted(["qw", "qx", "qy", "qz", "yaw_rate", "pitch_rate", "roll_rate", "p1", "p2", "p3", "v1", "v2", "v3", "a1", "a2", "a3"]) \
                or ct != sorted(["w1", "w2", "w3", "f1", "f2", "f3"]) or ca != sorted(["g", "cw", "cx", "cy", "cz", "b1", "b2", "b3"]):
            raise Bad(f"declared symbols changed: state={st} control={ct} calibration={ca}")
        if NAMES[sm.dt.name] != "dt":
            raise Bad("dt symbol changed")
        binders = " ".join(PARAMS)
        L = ["(* GENERATED on every run by tools/translate/gen_strapdown.py from the imported module formak.reference_models.strapdown_imu. *)",
             "From Coq Require Import Reals.", "Local Open Scope R_scope.", ""]
        for k in sorted(sm.state_model, key=lambda s: NAMES[s.name]):
            L.append(f"Definition sd_{NAMES[k.name]} ({binders} : R) : R :=\n  {coq(sympy.sympify(sm.state_model[k]))}.")
        txt = "\n".join(L) + "\n"
    except Exception as e:
        open(out, "w").write(f"(* TRANSLATION FAILED (fail closed): {str(e).replace('*)', '* )').replace('(*', '( *')} *)\nDefinition translation_failed : False := I.\n")
        print("UNTRANSLATABLE", e)
        return 1
    old = open(out).read() if os.path.exists(out) else None
    if old != txt:
        open(out, "w").write(txt)
    return 0


if __name__ == "__main__":
    sys.exit(main(sys.argv[1], sys.argv[2]))
