"""gen_layout: layout / binding / un-flattening parameters of py/formak/python.py -> gen/LayoutParams.v

Everything FormaK's Python back end does with positions is extracted here from the source on every run:
argument-list concatenation orders, positional call orders, the scope of each CSE temporary, which list
results are zipped with, and the shape / loop ranges / index expression of every Jacobian un-flattening.
Fail closed: any construct outside the recognised shapes aborts the translation."""
import ast
import os
import sys

sys.path.insert(0, os.path.dirname(os.path.abspath(__file__)))
from py2v import Untranslatable, fail, get_source_func, path_of

GROUPS = {
    "symbolic_model.dt": "Gdt", "state_model.dt": "Gdt", "dt": "Gdt",
    "self.arglist_state": "Gstate", "self._state_model.arglist_state": "Gstate", "state": "Gstate", "state_vector": "Gstate",
    "self.arglist_calibration": "Gcal", "self.calibration_vector": "Gcal",
    "self.arglist_control": "Gctl", "control": "Gctl",
}


def flatten_add(e):
    if isinstance(e, ast.BinOp) and isinstance(e.op, ast.Add):
        return flatten_add(e.left) + flatten_add(e.right)
    return [e]


def group_of(e):
    """one summand of an arglist expression -> group tag"""
    if isinstance(e, ast.List) and len(e.elts) == 1:
        p = path_of(e.elts[0])
        if GROUPS.get(p) == "Gdt":
            return "Gdt"
        fail(e, "unexpected singleton in arglist")
    p = path_of(e)
    if p in GROUPS and GROUPS[p] != "Gdt":
        return GROUPS[p]
    fail(e, "unknown arglist component")


def order_of_arglist(e, aliases=None):
    out = []
    for part in flatten_add(e):
        p = path_of(part)
        if aliases and p in aliases:
            out += aliases[p]
        else:
            out.append(group_of(part))
    return out


def order_of_call(call):
    """positional call f(dt, *state, *self.calibration_vector, *control) -> group order"""
    if call.keywords:
        fail(call, "keyword arguments in an execute call")
    out = []
    for a in call.args:
        if isinstance(a, ast.Starred):
            p = path_of(a.value)
            if p not in GROUPS or GROUPS[p] == "Gdt":
                fail(a, "unknown starred argument")
            out.append(GROUPS[p])
        else:
            p = path_of(a)
            if GROUPS.get(p) != "Gdt":
                fail(a, "unknown positional argument")
            out.append("Gdt")
    return out


def find_assign(func, target):
    """the unique `target = value` (dotted path) in func; returns value node"""
    found = []
    for n in ast.walk(func):
        if isinstance(n, ast.Assign) and len(n.targets) == 1 and path_of(n.targets[0]) == target:
            found.append(n.value)
    if len(found) != 1:
        raise Untranslatable(f"{getattr(func, 'name', 'block')}: expected exactly one assignment to {target}, found {len(found)}")
    return found[0]


def find_calls(func, path):
    return [n for n in ast.walk(func) if isinstance(n, ast.Call) and path_of(n.func) == path]


def is_sorted_by_name(e, src_attr):
    """sorted(list(X.<src_attr>), key=lambda x: x.name)"""
    want = f"sorted(list({src_attr}), key=lambda x: x.name)"
    return ast.unparse(e) == want


def nat_expr(e, env):
    """index / shape expression over nat"""
    if isinstance(e, ast.Constant) and isinstance(e.value, int) and e.value >= 0:
        return str(e.value)
    p = path_of(e)
    if p is not None:
        if p in env:
            return env[p]
        fail(e, "unknown name in index expression")
    if isinstance(e, ast.BinOp):
        a, b = nat_expr(e.left, env), nat_expr(e.right, env)
        if isinstance(e.op, ast.Add):
            return f"({a} + {b})"
        if isinstance(e.op, ast.Mult):
            return f"({a} * {b})"
        if isinstance(e.op, ast.Sub):
            return f"({a} - {b})"
        if isinstance(e.op, ast.Pow) and isinstance(e.right, ast.Constant) and e.right.value == 2:
            return f"({a} * {a})"
    fail(e, "index expression form")


SIZE_ENV = {
    "self.state_size": "state_size", "self.control_size": "control_size",
    "self.calibration_size": "calibration_size", "sensor_size": "sensor_size",
    "row": "row", "col": "col",
}
SIZE_BINDERS = "(state_size control_size calibration_size sensor_size : nat)"


def jacobian_method(func, expect_exec_path):
    """extract call order, result shape, loop ranges and index expression of an un-flattening method"""
    calls = [n for n in ast.walk(func) if isinstance(n, ast.Call) and isinstance(n.func, ast.Attribute) and n.func.attr == "execute"]
    if len(calls) != 1:
        raise Untranslatable(f"{func.name}: expected one execute call")
    if path_of(calls[0].func.value) != expect_exec_path:
        fail(calls[0], f"execute is not called on {expect_exec_path}")
    order = order_of_call(calls[0])
    # result = np.zeros((R, C))
    zs = find_calls(func, "np.zeros")
    if len(zs) != 1 or len(zs[0].args) != 1 or not isinstance(zs[0].args[0], ast.Tuple) or len(zs[0].args[0].elts) != 2:
        raise Untranslatable(f"{func.name}: result allocation np.zeros((rows, cols)) not found")
    shape = [nat_expr(x, SIZE_ENV) for x in zs[0].args[0].elts]
    res_name = None
    for n in ast.walk(func):
        if isinstance(n, ast.Assign) and n.value is zs[0]:
            res_name = path_of(n.targets[0])
    # nested loops
    loops = [n for n in func.body if isinstance(n, ast.For)]
    if len(loops) != 1:
        raise Untranslatable(f"{func.name}: expected one top-level loop")
    outer = loops[0]
    if not (len(outer.body) == 1 and isinstance(outer.body[0], ast.For)):
        fail(outer, "outer loop body is not a single inner loop")
    inner = outer.body[0]

    def rng(loop, var):
        if not (isinstance(loop.target, ast.Name) and loop.target.id == var):
            fail(loop, f"loop variable is not {var}")
        it = loop.iter
        if not (isinstance(it, ast.Call) and path_of(it.func) == "range" and len(it.args) == 1):
            fail(loop, "loop is not over range(n)")
        return nat_expr(it.args[0], SIZE_ENV)
    rrange, crange = rng(outer, "row"), rng(inner, "col")
    # inner body: [tmp = computed[idx]; ] result[row, col] = computed[idx] | tmp
    idx = None
    stored = False
    tmp = {}
    for s in inner.body:
        if isinstance(s, ast.Assign) and len(s.targets) == 1:
            t = s.targets[0]
            v = s.value
            if isinstance(v, ast.Name) and v.id in tmp:
                v = tmp[v.id]
            if isinstance(t, ast.Name):
                tmp[t.id] = v
                continue
            if isinstance(t, ast.Subscript) and path_of(t.value) == res_name and isinstance(t.slice, ast.Tuple) \
                    and [path_of(x) for x in t.slice.elts] == ["row", "col"]:
                if not (isinstance(v, ast.Subscript) and path_of(v.value) == "computed_jacobian"):
                    fail(s, "stored value is not computed_jacobian[...]")
                idx = nat_expr(v.slice, SIZE_ENV)
                stored = True
                continue
        fail(s, "statement in un-flattening loop")
    if not stored:
        raise Untranslatable(f"{func.name}: no store result[row, col] = computed_jacobian[idx]")
    # computed_jacobian = list(execute(...))
    cj = find_assign(func, "computed_jacobian")
    if not (isinstance(cj, ast.Call) and path_of(cj.func) == "list" and cj.args[0] is calls[0]):
        fail(cj, "computed_jacobian is not list(execute(...))")
    ret = [n for n in func.body if isinstance(n, ast.Return)]
    if len(ret) != 1 or path_of(ret[0].value) != res_name:
        raise Untranslatable(f"{func.name}: does not return the un-flattened array")
    return order, shape, (rrange, crange), idx


def coq_list(xs):
    return "[" + "; ".join(xs) + "]"


def main(repo, outdir):
    out = os.path.join(outdir, "LayoutParams.v")
    try:
        path = os.path.join(repo, "py/formak/python.py")
        L = []
        # ---------------- BasicBlock
        comp = get_source_func(path, "BasicBlock._compile")
        lam = find_calls(comp, "lambdify")
        if len(lam) != 2:
            raise Untranslatable("BasicBlock._compile: expected two lambdify calls (prefix, body)")
        fors = [n for n in comp.body if isinstance(n, ast.For)]
        if len(fors) != 1:
            raise Untranslatable("BasicBlock._compile: expected one prefix loop")
        inloop = [n for n in ast.walk(fors[0]) if n in lam]
        if len(inloop) != 1:
            raise Untranslatable("BasicBlock._compile: expected one lambdify in the prefix loop")
        pre = inloop[0]
        bod = [n for n in lam if n is not pre][0]
        parts = flatten_add(pre.args[0])
        if len(parts) != 2 or path_of(parts[0]) != "self._arglist":
            fail(pre, "prefix lambdify parameter list")
        sl = parts[1]
        if isinstance(sl, ast.Subscript) and path_of(sl.value) == "temporaries" and isinstance(sl.slice, ast.Slice) \
                and sl.slice.lower is None and sl.slice.step is None:
            up = nat_expr(sl.slice.upper, {"i": "i"})
            scope = f"firstn {up} temps"
        elif path_of(sl) == "temporaries":
            scope = "temps"
        else:
            fail(sl, "temporaries scope")
        # the loop variable i must index prefix[i] and temporaries[i]
        fors = [n for n in comp.body if isinstance(n, ast.For)]
        if len(fors) != 1 or ast.unparse(fors[0].iter) != "range(len(prefix))" or path_of(fors[0].target) != "i":
            raise Untranslatable("BasicBlock._compile: prefix loop is not `for i in range(len(prefix))`")
        if ast.unparse(find_assign(comp, "temporaries")) != "[r[0] for r in prefix]":
            raise Untranslatable("BasicBlock._compile: temporaries is not [r[0] for r in prefix]")
        if ast.unparse(fors[0].body[0]) != "expr = prefix[i][1]":
            raise Untranslatable("BasicBlock._compile: prefix expression is not prefix[i][1]")
        app = [n for n in ast.walk(fors[0]) if isinstance(n, ast.Call) and path_of(n.func) == "self._prefix.append"]
        if len(app) != 1 or not isinstance(app[0].args[0], ast.Tuple) or ast.unparse(app[0].args[0].elts[0]) != "temporaries[i]" \
                or app[0].args[0].elts[1] is not pre:
            raise Untranslatable("BasicBlock._compile: self._prefix.append((temporaries[i], lambdify(...))) not found")
        bparts = flatten_add(bod.args[0])
        if [path_of(x) for x in bparts] != ["self._arglist", "temporaries"]:
            fail(bod, "body lambdify parameter list")
        L.append(f"Definition prefix_scope (i : nat) (temps : list name) : list name := {scope}.")
        ex = get_source_func(path, "BasicBlock.execute")
        body = [s for s in ex.body if not (isinstance(s, ast.Assign) and path_of(s.targets[0]) == "args")]
        want = ("temporary_values = {}\n"
                "for name, expr in self._prefix:\n    temporary_values[str(name)] = expr(*args, **kwargs, **temporary_values)\n"
                "for impl in self._body:\n    yield impl(*args, **kwargs, **temporary_values)")
        got = "\n".join(ast.unparse(s) for s in body if not (isinstance(s, ast.Expr) and isinstance(s.value, ast.Constant)))
        if got != want:
            raise Untranslatable("BasicBlock.execute changed:\n" + got)
        # the scalar conversion of args must be elementwise and order preserving
        conv = [s for s in ex.body if isinstance(s, ast.Assign) and path_of(s.targets[0]) == "args"]
        for c in conv:
            if ast.unparse(c.value) != "tuple((arg.flat[0] if isinstance(arg, np.ndarray) and arg.size == 1 else arg for arg in args))":
                fail(c, "argument conversion in execute")

        # ---------------- functions given an implementation of FormaK's own (everything else is printed by sympy's numpy printer):
        # exactly the reciprocal functions, each as the reciprocal of its numpy counterpart
        mods = [n.value for n in ast.parse(open(path).read()).body
                if isinstance(n, ast.Assign) and len(n.targets) == 1 and path_of(n.targets[0]) == "DEFAULT_MODULES"]
        want_mods = ("('scipy', 'numpy', 'math', {'sec': lambda v: 1.0 / np.cos(v), 'sech': lambda v: 1.0 / np.cosh(v), "
                     "'csch': lambda v: 1.0 / np.sinh(v), 'coth': lambda v: 1.0 / np.tanh(v)})")
        if len(mods) != 1 or ast.unparse(mods[0]) != want_mods:
            raise Untranslatable("DEFAULT_MODULES changed: " + (ast.unparse(mods[0]) if mods else "missing"))
        # ---------------- Model
        init = get_source_func(path, "Model.__init__")
        for attr, src in (("state", "symbolic_model.state"), ("calibration", "symbolic_model.calibration"), ("control", "symbolic_model.control")):
            if not is_sorted_by_name(find_assign(init, f"self.arglist_{attr}"), src):
                raise Untranslatable(f"Model.__init__: self.arglist_{attr} is not sorted(list({src}), key=lambda x: x.name)")
        model_arg = order_of_arglist(find_assign(init, "self.arglist"))
        L.append(f"Definition model_arglist_order : list group := {coq_list(model_arg)}.")
        for cls, al in (("State", "self.arglist_state"), ("Control", "self.arglist_control"), ("Calibration", "self.arglist_calibration")):
            v = find_assign(init, f"self.{cls}")
            if ast.unparse(v) != f"common.named_vector('{cls}', {al})":
                fail(v, f"container {cls}")
        cv = [n for n in ast.walk(init) if isinstance(n, ast.Assign) and path_of(n.targets[0]) == "self.calibration_vector"]
        if ast.unparse(cv[-1].value) != "np.array([[calibration_map[k] for k in self.arglist_calibration]], dtype=float).transpose()":
            fail(cv[-1], "calibration vector construction")
        bb = find_assign(init, "self._impl")
        if ast.unparse(bb) != "BasicBlock(arglist=self.arglist, statements=[symbolic_model.state_model[a] for a in self.arglist_state], config=config)":
            fail(bb, "Model BasicBlock construction")
        mod = get_source_func(path, "Model.model")
        ex_calls = find_calls(mod, "self._impl.execute")
        if len(ex_calls) != 1:
            raise Untranslatable("Model.model: expected one execute call")
        L.append(f"Definition model_call_order : list group := {coq_list(order_of_call(ex_calls[0]))}.")
        ns = find_assign(mod, "next_state")
        want = "self.State(**{str(state_id): result for state_id, result in zip(self.arglist_state, self._impl.execute(dt, *state, *self.calibration_vector, *control))})"
        got = ast.unparse(ns)
        # compare modulo the call order (already extracted): rebuild with the extracted call text
        got_norm = got.replace(ast.unparse(ex_calls[0]), "EXEC")
        if got_norm != "self.State(**{str(state_id): result for state_id, result in zip(self.arglist_state, EXEC)})":
            fail(ns, "Model.model result construction")
        # default control: `control = self.Control()` when None and control_size == 0
        # ---------------- SensorModel
        sinit = get_source_func(path, "SensorModel.__init__")
        if ast.unparse(find_assign(sinit, "self.readings")) != "sorted(list(sensor_model.keys()))":
            raise Untranslatable("SensorModel.readings is not sorted(list(sensor_model.keys()))")
        for attr, src in (("state", "state_model.state"), ("calibration", "state_model.calibration")):
            if not is_sorted_by_name(find_assign(sinit, f"self.arglist_{attr}"), src):
                raise Untranslatable(f"SensorModel.__init__: arglist_{attr} not sorted by name")
        L.append(f"Definition sensor_arglist_order : list group := {coq_list(order_of_arglist(find_assign(sinit, 'self.arglist')))}.")
        bb = find_assign(sinit, "self._impl")
        if ast.unparse(bb) != "BasicBlock(arglist=self.arglist, statements=[sensor_model[k] for k in self.readings], config=config)":
            fail(bb, "SensorModel BasicBlock construction")
        if ast.unparse(find_assign(sinit, "self.Reading")) != "common.named_vector('Reading', self.readings)":
            raise Untranslatable("SensorModel.Reading container changed")
        if ast.unparse(find_assign(sinit, "self.calibration_vector")) != "np.array([[calibration_map[k] for k in self.arglist_calibration]], dtype=float).transpose()":
            raise Untranslatable("SensorModel.calibration_vector changed")
        smod = get_source_func(path, "SensorModel.model")
        ex_calls = find_calls(smod, "self._impl.execute")
        if len(ex_calls) != 1:
            raise Untranslatable("SensorModel.model: expected one execute call")
        L.append(f"Definition sensor_call_order : list group := {coq_list(order_of_call(ex_calls[0]))}.")
        loop = [n for n in smod.body if isinstance(n, ast.For)]
        if len(loop) != 1 or ast.unparse(loop[0].target) != "(i, (reading_id, result))" or \
                ast.unparse(loop[0].iter).replace(ast.unparse(ex_calls[0]), "EXEC") != "enumerate(zip(self.readings, EXEC))":
            raise Untranslatable("SensorModel.model: result loop changed")
        st = [n for n in ast.walk(loop[0]) if isinstance(n, ast.Assign) and isinstance(n.targets[0], ast.Subscript)]
        if len(st) != 1 or ast.unparse(st[0]) != "reading[i, 0] = result":
            raise Untranslatable("SensorModel.model: store reading[i, 0] = result changed")
        if ast.unparse(smod.body[-1]) != "return self.Reading.from_data(reading)":
            raise Untranslatable("SensorModel.model: return changed")

        # ---------------- EKF: symbolic Jacobians and their blocks
        cp = get_source_func(path, "ExtendedKalmanFilter._construct_process")
        if ast.unparse(find_assign(cp, "process_matrix")) != "Matrix([state_model.state_model[a] for a in self._state_model.arglist_state])":
            raise Untranslatable("_construct_process: process_matrix changed")
        colmap = {"self._state_model.arglist_state": "state_size", "self.arglist_state": "state_size",
                  "self.arglist_control": "control_size", "self.arglist_sensor": "(state_size + calibration_size)"}
        pj = find_assign(cp, "symbolic_process_jacobian")
        if not (isinstance(pj, ast.Call) and path_of(pj.func) == "process_matrix.jacobian" and path_of(pj.args[0]) in ("self._state_model.arglist_state", "self.arglist_state")):
            fail(pj, "symbolic process jacobian")
        cjs = [n.value for n in ast.walk(cp) if isinstance(n, ast.Assign) and path_of(n.targets[0]) == "symbolic_control_jacobian" and isinstance(n.value, ast.Call)]
        if len(cjs) != 1 or path_of(cjs[0].func) != "process_matrix.jacobian" or path_of(cjs[0].args[0]) != "self.arglist_control":
            raise Untranslatable("_construct_process: symbolic control jacobian changed")
        for nm, sym in (("self._impl_process_jacobian", "symbolic_process_jacobian"), ("self._impl_control_jacobian", "symbolic_control_jacobian")):
            if ast.unparse(find_assign(cp, nm)) != f"BasicBlock(arglist=self._state_model.arglist, statements=[expr for expr in {sym}], config=config)":
                raise Untranslatable(f"_construct_process: {nm} block changed")
        einit = get_source_func(path, "ExtendedKalmanFilter.__init__")
        for attr, src in (("state", "state_model.state"), ("control", "state_model.control"), ("calibration", "state_model.calibration")):
            if not is_sorted_by_name(find_assign(einit, f"self.arglist_{attr}"), src):
                raise Untranslatable(f"ExtendedKalmanFilter.__init__: arglist_{attr} not sorted by name")
        cs = get_source_func(path, "ExtendedKalmanFilter._construct_sensors")
        L.append(f"Definition ekf_sensor_arglist_order : list group := {coq_list(order_of_arglist(find_assign(cs, 'self.arglist_sensor')))}.")
        if ast.unparse(find_assign(cs, "sensor_matrix")) != "Matrix([sensor_model.sensor_models[r] for r in sensor_model.readings])":
            raise Untranslatable("_construct_sensors: sensor_matrix changed")
        sj = find_assign(cs, "symbolic_sensor_jacobian")
        if ast.unparse(sj) != "sensor_matrix.jacobian(self.arglist_sensor)":
            fail(sj, "symbolic sensor jacobian")
        if ast.unparse(find_assign(cs, "impl_sensor_jacobian")) != "BasicBlock(arglist=self.arglist_sensor, statements=[expr for expr in symbolic_sensor_jacobian], config=config)":
            raise Untranslatable("_construct_sensors: sensor jacobian block changed")
        L.append("(* number of symbolic columns of each flattened Jacobian = length of the list passed to Matrix.jacobian *)")
        L.append(f"Definition process_jac_symcols {SIZE_BINDERS} : nat := state_size.")
        L.append(f"Definition control_jac_symcols {SIZE_BINDERS} : nat := control_size.")
        L.append(f"Definition sensor_jac_symcols {SIZE_BINDERS} : nat := (state_size + calibration_size).")
        for nm, meth, ex_path in (("process", "process_jacobian", "self._impl_process_jacobian"),
                                  ("control", "control_jacobian", "self._impl_control_jacobian"),
                                  ("sensor", "sensor_jacobian", "impl_sensor_jacobian")):
            f = get_source_func(path, "ExtendedKalmanFilter." + meth)
            order, shape, ranges, idx = jacobian_method(f, ex_path)
            L.append(f"Definition {nm}_jac_call_order : list group := {coq_list(order)}.")
            L.append(f"Definition {nm}_jac_rows {SIZE_BINDERS} : nat := {shape[0]}.")
            L.append(f"Definition {nm}_jac_cols {SIZE_BINDERS} : nat := {shape[1]}.")
            L.append(f"Definition {nm}_jac_row_range {SIZE_BINDERS} : nat := {ranges[0]}.")
            L.append(f"Definition {nm}_jac_col_range {SIZE_BINDERS} : nat := {ranges[1]}.")
            L.append(f"Definition {nm}_jac_idx {SIZE_BINDERS} (row col : nat) : nat := {idx}.")
        # sensor_size in sensor_jacobian must be the sensor's number of readings
        sjm = get_source_func(path, "ExtendedKalmanFilter.sensor_jacobian")
        if ast.unparse(find_assign(sjm, "sensor_size")) != "self.sensor_models[sensor_key].sensor_size":
            raise Untranslatable("sensor_jacobian: sensor_size changed")
        if ast.unparse(find_assign(sjm, "impl_sensor_jacobian")) != "self._impl_sensor_jacobians[sensor_key]":
            raise Untranslatable("sensor_jacobian: block lookup changed")
        if ast.unparse(find_assign(sinit, "self.sensor_size")) != "len(self.readings)":
            raise Untranslatable("SensorModel.sensor_size changed")
        txt = ("(* GENERATED on every run from py/formak/python.py by tools/translate/gen_layout.py. Do not edit. *)\n"
               "From Coq Require Import List Arith.\nFrom FV Require Import Base.Expr Model.Layout.\nImport ListNotations.\n\n"
               + "\n".join(L) + "\n")
    except Exception as e:
        open(out, "w").write(f"(* TRANSLATION FAILED (fail closed): {str(e).replace('*)', '* )').replace('(*', '( *')} *)\n"
                             "Definition translation_failed : False := I.\n")
        print("UNTRANSLATABLE", e)
        return 1
    old = open(out).read() if os.path.exists(out) else None
    if old != txt:
        open(out, "w").write(txt)
    return 0


if __name__ == "__main__":
    sys.exit(main(sys.argv[1], sys.argv[2]))
