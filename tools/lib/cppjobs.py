"""Job generation shared by the C++ checks: all four control x calibration combinations, both CSE settings,
0..n sensors of 1..m readings, thresholds on/off."""
from . import ekf, models as M


def make_jobs(ctx, n, n_points=2, ks=(None, 3.0, 1.0), min_sensors=0, max_sensors=2, max_states=4, rational_every=2, function_coverage=False, **kw):
    jobs = []
    if function_coverage:
        # fixed definitions first: every supported unary function, arguments with even powers of negative values
        for gi, d in enumerate(M.function_coverage_definitions()):
            pts = []
            for p in M.function_coverage_points(d):
                p = dict(p, P=ekf.spd(ctx.rng, len(d["state"])), readings={k: {r: M.rnd_point(ctx.rng) for r in rd} for k, rd in d["sensors"].items()})
                pts.append(p)
            for cse in (False, True):
                jobs.append({"defn": d, "cse": cse, "k": None, "max_dt": 0.1, "decl": {"container": "list", "perm_seed": gi}, "points": pts, "combo": (True, True)})
    for i in range(n):
        fc, fl = bool(i & 1), bool(i & 2)
        if i % 8 == 6:
            # deeply nested shared sub-expressions (both control and calibration present)
            d = M.gen_nested_definition(ctx.rng, depth=ctx.rng.choice([3, 4]))
            fc = fl = True
        else:
            d = M.gen_definition(ctx.rng, rational=(i % rational_every == 0), min_sensors=min_sensors, max_sensors=max_sensors,
                                 max_states=max_states, max_readings=3, force_control=fc, force_cal=fl,
                                 force_fold=(i % 4 == 1), **kw)
        decl = {"container": ctx.rng.choice(["set", "list"]), "perm_seed": ctx.rng.randint(0, 10**6)}
        jobs.append({"defn": d, "cse": (True if i % 8 == 6 else (bool((i >> 2) & 1) if i < 8 else bool(ctx.rng.getrandbits(1)))), "k": ks[i % len(ks)], "max_dt": 0.1,
                     "decl": decl, "points": ekf.make_points(ctx.rng, d, n_points), "combo": (fc, fl)})
    return jobs
