"""Shared machinery of ./check: Coq builds, case evaluation, evidence, violation protocol."""
from __future__ import annotations

import fcntl
import hashlib
import json
import os
import random
import re
import shutil
import subprocess
import sys
import time
from pathlib import Path

VERIF = Path(__file__).resolve().parents[2]
COQ = VERIF / "coq"
REPO = Path(os.environ.get("VERIF_REPO", "/repo"))
PY = "/venv/bin/python"
NPROC = os.cpu_count() or 4

FORBIDDEN = re.compile(
    r"\b(Admitted|admit|Axiom|Axioms|Parameter|Parameters|Conjecture|Admit Obligations|"
    r"Unset Guard Checking|bypass_check|native_compute|Unset Positivity Checking|Unset Universe Checking)\b"
)


def impl_env(extra=None):
    env = dict(os.environ)
    env["PYTHONPATH"] = str(REPO / "py")
    env["FORMAK_VERIF"] = "1"
    env.setdefault("PYTHONHASHSEED", "0")
    env["PYTHONDONTWRITEBYTECODE"] = "1"
    env["MPLBACKEND"] = "Agg"
    if extra:
        env.update(extra)
    return env


class Lock:
    """Serialises access to the shared coq/ build tree."""

    def __init__(self, path):
        self.path = path

    def __enter__(self):
        self.f = open(self.path, "w")
        fcntl.flock(self.f, fcntl.LOCK_EX)
        return self

    def __exit__(self, *a):
        fcntl.flock(self.f, fcntl.LOCK_UN)
        self.f.close()


class Ctx:
    def __init__(self, pid: str, tier: str, seed: int):
        self.pid = pid
        self.tier = tier
        self.seed = seed
        self.rng = random.Random(f"{pid}:{seed}")
        self.t0 = time.time()
        self.broken: list[dict] = []  # proof obligations / correspondences that no longer check
        self.violations: list[dict] = []  # concrete failing inputs
        self.known_hits: list[str] = []
        # stale replay files of an earlier run of this tier / seed would be mistaken for results of this one
        rd = VERIF / "replays" / pid
        if rd.exists():
            for f in rd.glob(f"{tier}_{seed}_*.json"):
                try:
                    f.unlink()
                except OSError:
                    pass
        self.obligations = 0
        self.discharged = 0
        self.assumptions_seen: list[str] = []
        self.checker_cmds: list[str] = []
        self.cov: dict = {"evaluations": 0, "distinct_nontrivial": 0, "samples": []}
        self._distinct: set = set()
        self.trusted: list[str] = []
        self.notes: list[str] = []
        self.assumptions: list[str] = []
        (VERIF / "evidence").mkdir(exist_ok=True)
        (VERIF / "replays" / pid).mkdir(parents=True, exist_ok=True)
        (COQ / "run").mkdir(exist_ok=True)
        (COQ / "gen").mkdir(exist_ok=True)

    # ------------------------------------------------------------------ logging
    def log(self, *a):
        print(f"[{self.pid} {time.time() - self.t0:6.1f}s]", *a, flush=True)

    # ------------------------------------------------------------------ scratch
    def scratch(self, tag="w") -> Path:
        d = Path("/var/tmp") / f"fv_{self.pid}_{tag}_{os.getpid()}"
        if d.exists():
            shutil.rmtree(d)
        d.mkdir(parents=True)
        return d

    # ------------------------------------------------------------------ translators
    def translate(self, name: str) -> bool:
        """Run translator tools/translate/<name>.py which (re)writes coq/gen/*.v from /repo.
        Fail-closed: on failure the generated file holds a statement that does not compile."""
        script = VERIF / "tools" / "translate" / f"{name}.py"
        with Lock(COQ / ".lock"):
            r = subprocess.run(
                [PY, str(script), str(REPO), str(COQ / "gen")],
                capture_output=True, text=True, env=impl_env(), cwd=str(REPO), timeout=900,
            )
        if r.returncode != 0:
            msg = (r.stdout + r.stderr).strip().splitlines()[-12:]
            self.log(f"translator {name} FAILED CLOSED:", *msg)
            self.broken.append({"kind": "translation", "name": name, "detail": "\n".join(msg)})
            return False
        for line in r.stdout.strip().splitlines():
            if line.startswith("NOTE"):
                self.notes.append(line)
        return True

    # ------------------------------------------------------------------ coq
    def ensure_makefile(self):
        mk = COQ / "Makefile"
        cp = COQ / "_CoqProject"
        if not mk.exists() or mk.stat().st_mtime < cp.stat().st_mtime:
            subprocess.run(["coq_makefile", "-f", "_CoqProject", "-o", "Makefile"], cwd=COQ, check=True,
                           capture_output=True)

    def make(self, targets: list[str], timeout=1500, jobs=None) -> tuple[bool, str]:
        with Lock(COQ / ".lock"):
            self.ensure_makefile()
            cmd = ["timeout", str(timeout), "make", "-k", f"-j{jobs or NPROC}"] + targets
            self.checker_cmds.append("cd coq && " + " ".join(cmd))
            r = subprocess.run(cmd, cwd=COQ, capture_output=True, text=True)
        return r.returncode == 0, r.stdout + r.stderr

    def prove(self, prop_file: str | None = None, extra_files: list[str] | None = None):
        """Recompile Props/<pid>.v (and what it depends on) from scratch for this run, count the
        theorems it states and record Print Assumptions output."""
        prop_file = prop_file or f"Props/{self.pid}.v"
        files = [prop_file] + (extra_files or [])
        for f in files:
            vo = COQ / (f[:-2] + ".vo")
            if vo.exists():
                vo.unlink()
        self.scan_forbidden()
        ok, out = self.make([f[:-2] + ".vo" for f in files])
        n_thm = 0
        for f in files:
            src = (COQ / f).read_text()
            n_thm += len(re.findall(r"^\s*(Theorem|Lemma|Corollary|Example|Fact|Proposition)\b", src, re.M))
        self.obligations += n_thm
        good = all((COQ / (f[:-2] + ".vo")).exists() for f in files)
        if ok and good:
            self.discharged += n_thm
        else:
            tail = "\n".join(out.strip().splitlines()[-25:])
            self.log("PROOF BUILD FAILED:\n" + tail)
            # identify the failing file / theorem
            m = re.findall(r'File "([^"]+)", line (\d+)', out)
            self.broken.append({"kind": "proof", "files": files, "where": m[-3:], "detail": tail})
        self._collect_assumptions(out)
        if ok and good and self.tier == "thorough":
            self.coqchk(files)
        return ok and good

    def coqchk(self, files):
        """thorough tier: re-check the compiled property files and everything they depend on with the independent
        checker; its axiom list (every axiom of every loaded library) goes into the evidence"""
        mods = ["FV." + f[:-2].replace("/", ".") for f in files]
        t0 = time.time()
        try:
            r = subprocess.run(["coqchk", "-silent", "-o", "-Q", ".", "FV"] + mods, cwd=COQ, capture_output=True, text=True, timeout=3000)
        except subprocess.TimeoutExpired:
            self.broken.append({"kind": "coqchk", "name": "coqchk timed out", "files": files})
            return False
        out = r.stdout + r.stderr
        self.checker_cmds.append("coqchk -silent -o -Q . FV " + " ".join(mods))
        axioms, sect = [], None
        flags = {}
        for line in out.splitlines():
            m = re.match(r"^\* (.*?):\s*(<none>)?\s*$", line.strip())
            if m:
                sect = m.group(1)
                flags[sect] = [] if not m.group(2) else None
                continue
            if sect and line.startswith("    ") and flags.get(sect) is not None:
                flags[sect].append(line.strip())
        axioms = flags.get("Axioms") or []
        self.cov["coqchk"] = {"modules": mods, "exit": r.returncode, "wall_s": round(time.time() - t0, 1), "axioms_of_all_loaded_libraries": len(axioms),
                              "axioms_outside_primitive_ints_floats": sorted(a for a in axioms if "Uint63" not in a and "PrimInt63" not in a and "PrimFloat" not in a and "Sint63" not in a and "FloatAxioms" not in a and "PArray" not in a and "FloatOps" not in a)[:60]}
        unsafe = {k: v for k, v in flags.items() if k != "Axioms" and v}
        if r.returncode != 0 or unsafe:
            self.broken.append({"kind": "coqchk", "name": "coqchk rejected the compiled files or reports unsafe flags", "detail": (out[-800:] if r.returncode else str(unsafe))})
            return False
        self.log(f"coqchk ok on {mods} in {time.time() - t0:.0f}s ({len(axioms)} library axioms listed)")
        return True

    def _collect_assumptions(self, out: str):
        # Print Assumptions output: "Closed under the global context" or "Axioms:\n name : type ..."
        closed = out.count("Closed under the global context")
        axioms = set()
        in_ax = False
        for line in out.splitlines():
            if line.strip() == "Axioms:":
                in_ax = True
                continue
            if in_ax:
                m = re.match(r"^([A-Za-z_][\w.']*)\s*(?::|$)", line)
                if m:
                    axioms.add(m.group(1))
                elif line.startswith(" ") or not line.strip():
                    continue
                else:
                    in_ax = False
        self.assumptions_seen.append(f"Print Assumptions: {closed} theorem(s) closed under the global context")
        for a in sorted(axioms):
            self.assumptions_seen.append(f"axiom (as reported by Print Assumptions): {a}")

    def scan_forbidden(self):
        bad = []
        for p in COQ.rglob("*.v"):
            if "/run/" in str(p):
                continue
            txt = re.sub(r"\(\*.*?\*\)", "", p.read_text(), flags=re.S)
            for m in FORBIDDEN.finditer(txt):
                bad.append(f"{p.relative_to(COQ)}: {m.group(0)}")
            # Variable / Hypothesis outside a Section
            depth = 0
            for line in txt.splitlines():
                s = line.strip()
                if re.match(r"^Section\b", s):
                    depth += 1
                elif re.match(r"^End\b", s) and depth > 0:
                    depth -= 1
                elif depth == 0 and re.match(r"^(Variables?|Hypothes[ie]s|Context)\b", s):
                    bad.append(f"{p.relative_to(COQ)}: {s[:40]} outside a Section")
        if bad:
            self.broken.append({"kind": "forbidden-construct", "detail": "\n".join(bad[:20])})
            self.log("forbidden constructs:", bad[:5])
        return not bad

    def coq_eval(self, tag: str, text: str, timeout=900) -> tuple[bool, str]:
        """Compile coq/run/<pid>_<tag>.v and return its stdout (results printed by Eval/Compute)."""
        name = f"{self.pid}_{tag}"
        path = COQ / "run" / f"{name}.v"
        path.write_text(text)
        cmd = ["timeout", str(timeout), "coqc", "-q", "-Q", ".", "FV", f"run/{name}.v"]
        r = subprocess.run(cmd, cwd=COQ, capture_output=True, text=True)
        for ext in (".vo", ".vok", ".vos", ".glob"):
            q = COQ / "run" / f"{name}{ext}"
            if q.exists():
                q.unlink()
        aux = COQ / "run" / f".{name}.aux"
        if aux.exists():
            aux.unlink()
        if r.returncode != 0:
            self.log(f"coq_eval {name} failed:", (r.stdout + r.stderr)[-1500:])
        return r.returncode == 0, r.stdout + r.stderr

    def coq_eval_many(self, items: list[tuple[str, str]], timeout=900) -> list[tuple[bool, str]]:
        from concurrent.futures import ThreadPoolExecutor
        t = time.time()
        with ThreadPoolExecutor(max_workers=NPROC) as ex:
            r = list(ex.map(lambda it: self.coq_eval(it[0], it[1], timeout), items))
        self.log(f"coq_eval_many: {len(items)} files in {time.time() - t:.1f}s")
        return r

    # ------------------------------------------------------------------ implementation runs
    def run_impl(self, script: str, payload, timeout=1800, env=None) -> dict:
        """Run tools/harness/<script> under /venv/bin/python against /repo; JSON in, JSON out."""
        timeout = 900 if self.tier == "quick" else 3600
        d = self.scratch("impl")
        try:
            inp = d / "in.json"
            outp = d / "out.json"
            inp.write_text(json.dumps(payload))
            try:
                r = subprocess.run(
                    [PY, str(VERIF / "tools" / "harness" / script), str(inp), str(outp)],
                    capture_output=True, text=True, env=impl_env(env), cwd=str(REPO), timeout=timeout,
                )
            except subprocess.TimeoutExpired:
                return {"_error": f"timeout: the implementation did not finish within {timeout} s"}
            if r.returncode != 0 or not outp.exists():
                return {"_error": (r.stdout + r.stderr)[-4000:]}
            return json.loads(outp.read_text())
        finally:
            shutil.rmtree(d, ignore_errors=True)

    def run_impl_jobs(self, script: str, jobs: list, key="jobs", timeout=None, env=None, shards=None) -> list:
        """Run a list of independent jobs through tools/harness/<script>, sharded over processes.
        Returns the per-job results in order ({"error":...} for a crashed shard).  A shard that does not finish
        (quick tier: 15 min, thorough: 60 min - two orders of magnitude above the normal run time) is killed and its
        jobs are reported as HarnessTimeout, which every check turns into a violation: an implementation that hangs is
        not silently waited for."""
        from concurrent.futures import ThreadPoolExecutor
        timeout = 900 if self.tier == "quick" else 3600
        n = max(1, min(shards or NPROC, len(jobs)))
        idx = [list(range(k, len(jobs), n)) for k in range(n)]

        def one(k):
            d = Path("/var/tmp") / f"fv_{self.pid}_job{k}_{os.getpid()}"
            shutil.rmtree(d, ignore_errors=True)
            d.mkdir(parents=True)
            try:
                (d / "in.json").write_text(json.dumps({key: [jobs[j] for j in idx[k]]}))
                r = subprocess.run([PY, str(VERIF / "tools" / "harness" / script), str(d / "in.json"), str(d / "out.json")],
                                   capture_output=True, text=True, env=impl_env(env), cwd=str(REPO), timeout=timeout)
                if r.returncode != 0 or not (d / "out.json").exists():
                    return [{"error": (r.stdout + r.stderr)[-2000:], "kind": "HarnessCrash"}] * len(idx[k])
                return json.loads((d / "out.json").read_text())["results"]
            except subprocess.TimeoutExpired:
                return [{"error": "timeout", "kind": "HarnessTimeout"}] * len(idx[k])
            finally:
                shutil.rmtree(d, ignore_errors=True)
        t = time.time()
        with ThreadPoolExecutor(max_workers=n) as ex:
            parts = list(ex.map(one, range(n)))
        self.log(f"run_impl_jobs {script}: {len(jobs)} jobs in {n} shards, {time.time() - t:.1f}s")
        out = [None] * len(jobs)
        for k in range(n):
            for j, r in zip(idx[k], parts[k]):
                out[j] = r
        slow = sum(1 for r in out if isinstance(r, dict) and r.get("kind") == "SlowCompile")
        if slow:
            self.cov["jobs_skipped_slow_sympy"] = self.cov.get("jobs_skipped_slow_sympy", 0) + slow
            self.notes.append(f"{script}: {slow} of {len(jobs)} job(s) exceeded the per-job time limit inside sympy (simplify / code generation) and were skipped")
            if slow * 4 > len(jobs):
                self.broken.append({"kind": "correspondence", "name": f"{script}: {slow} of {len(jobs)} jobs did not finish within the per-job time limit",
                                    "detail": "the implementation is too slow to be checked on this stream"})
        return out

    # ------------------------------------------------------------------ coverage accounting
    def count(self, key, nontrivial: bool, sample=None):
        self.cov["evaluations"] += 1
        if nontrivial:
            h = hashlib.sha1(json.dumps(key, sort_keys=True, default=str).encode()).hexdigest()
            if h not in self._distinct:
                self._distinct.add(h)
                self.cov["distinct_nontrivial"] += 1
        if sample is not None and len(self.cov["samples"]) < 4:
            self.cov["samples"].append(sample)

    # ------------------------------------------------------------------ violations
    def violation(self, what: str, replay: dict, key: str | None = None):
        """A concrete failing input was found on the implementation."""
        if "SlowCompile" in what or "SlowCompile" in json.dumps(replay, default=str)[:20000]:
            return      # a job skipped for its compile time (counted in run_impl_jobs) is not a failing input
        self.violations.append({"what": what, "replay": replay, "key": key or what})

    def finish(self, level_rule: str, extra_cov: dict | None = None) -> int:
        known = load_known()
        code = 0
        lines = []
        # 1. concrete violations
        unlisted = []
        for v in self.violations:
            k = match_known(known, self.pid, v)
            if k:
                lines.append(f"KNOWN-FINDING: property={self.pid} {k['what']}")
            else:
                unlisted.append(v)
        n = 0
        if unlisted:
            # one replay file per distinct key (cap 5)
            seen = set()
            for v in unlisted:
                if v["key"] in seen or len(seen) >= 5:
                    continue
                seen.add(v["key"])
                n += 1
                path = VERIF / "replays" / self.pid / f"{self.tier}_{self.seed}_{n}.json"
                path.write_text(json.dumps({"property": self.pid, "what": v["what"], **v["replay"],
                                            "broken_obligations": self.broken}, indent=1, default=str))
                lines.append(f"VIOLATION property={self.pid} replay={path}")
            code = 1
        elif self.broken:
            path = VERIF / "replays" / self.pid / f"{self.tier}_{self.seed}_unproved.json"
            path.write_text(json.dumps({"property": self.pid,
                                        "what": "a theorem / translation / correspondence no longer checks and the search found no failing input",
                                        "broken_obligations": self.broken}, indent=1, default=str))
            lines.append(f"VIOLATION property={self.pid} replay={path} no-failing-input-found")
            code = 1
        cov = dict(self.cov)
        cov.update({
            "obligations": self.obligations,
            "discharged": self.discharged,
            "checker_cmd": " ; ".join(dict.fromkeys(self.checker_cmds)) or "none",
            "trusted_base": list(dict.fromkeys(self.assumptions_seen + self.trusted)),
            "rule": level_rule,
            "broken_obligations": [b.get("kind", "") + ":" + str(b.get("name", b.get("files", ""))) for b in self.broken],
            "notes": self.notes[:20],
        })
        if extra_cov:
            cov.update(extra_cov)
        if not cov["samples"]:
            cov["samples"] = ["(no correspondence cases in this run)"]
        ev = {
            "property_id": self.pid,
            "tier": self.tier,
            "seed": self.seed,
            "level": "proof",
            "coverage": cov,
            "assumptions": list(dict.fromkeys(self.assumptions_seen + self.trusted + self.assumptions)),
            "wall_s": round(time.time() - self.t0, 2),
            "violations": len(unlisted) + (1 if (self.broken and not unlisted) else 0),
        }
        (VERIF / "evidence" / f"{self.pid}.json").write_text(json.dumps(ev, indent=1, default=str))
        for l in lines:
            print(l)
        print(f"[{self.pid}] tier={self.tier} seed={self.seed} obligations={self.obligations} discharged={self.discharged} "
              f"evaluations={cov['evaluations']} distinct_nontrivial={cov['distinct_nontrivial']} "
              f"broken={len(self.broken)} violations={len(unlisted)} wall={ev['wall_s']}s -> exit {code}", flush=True)
        return code


def load_known():
    p = VERIF / "known_findings.json"
    if not p.exists():
        return []
    return json.loads(p.read_text()).get("findings", [])


def match_known(known, pid, v):
    for k in known:
        if k.get("property") == pid and k.get("status") == "known" and k.get("key") == v.get("key"):
            return k
    return None
