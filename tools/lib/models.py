"""Random model definitions (JSON), shared by all glue / EKF / C++ checks.  Pure Python (no sympy):
expressions are small JSON trees  ["num", p, q] | ["var", x] | ["add", a, b] | ["mul", a, b] |
["pow", a, n] | ["fn", f, a]."""
from __future__ import annotations

from fractions import Fraction

NAME_POOL = [
    "x", "v", "a", "Zed", "_q", "a_1", "a_10", "a_2", "B2", "mass", "theta", "omega", "X", "x_dot",
    "pos", "vel", "acc", "k1", "K1", "zz", "Ab", "aB", "w_0", "w_00", "Y1", "y1", "_u", "__p", "r2d2", "alpha",
]
SENSOR_POOL = ["gps", "imu", "baro", "alt2", "cam", "lidar_1", "radar", "sonar"]
READING_POOL = ["r", "z", "range", "angle", "doppler", "p_1", "p_10", "p_2", "Hd", "hd", "_m", "bearing", "u0", "U0"]
# unary functions drawn for random definitions.  The hyperbolic / reciprocal ones (tanh ... coth) are exercised by the
# fixed function_coverage_definitions only: inside randomly nested expressions they make sympy's simplify (called by
# formak after common-subexpression elimination) take many minutes, which is compile time, not a property
FNS = ["sin", "cos", "exp"]


def num(p, q=1):
    fr = Fraction(p, q)
    return ["num", fr.numerator, fr.denominator]


def var(x):
    return ["var", x]


def add(a, b):
    return ["add", a, b]


def mul(a, b):
    return ["mul", a, b]


def powi(a, n):
    return ["pow", a, n]


def fn(f, a):
    return ["fn", f, a]


def rnd_const(rng):
    return num(rng.choice([1, 2, 3, -1, -2, 5, 7, 1, 3]), rng.choice([1, 1, 1, 2, 4, 8]))


def rnd_expr(rng, vars_, depth, rational=True, pool=None):
    """random expression; division only by 1 + e^2 (never singular)"""
    if pool and rng.random() < 0.25:
        return rng.choice(pool)
    if depth <= 0 or rng.random() < 0.2:
        return var(rng.choice(vars_)) if (vars_ and rng.random() < 0.8) else rnd_const(rng)
    k = rng.random()
    sub = lambda: rnd_expr(rng, vars_, depth - 1, rational, pool)
    if k < 0.3:
        return add(sub(), sub())
    if k < 0.6:
        return mul(sub(), sub())
    if k < 0.7:
        return mul(num(-1), sub())
    if k < 0.8:
        return powi(sub(), rng.choice([2, 2, 3]))
    if k < 0.9 or rational:
        return mul(sub(), powi(add(num(1), powi(sub(), 2)), -1))
    k2 = rng.random()
    if k2 < 0.25:
        return fn("sqrt", add(num(1), powi(sub(), 2)))
    if k2 < 0.45:
        # a function composed with its own inverse (angle folding and the like): only equal to the
        # argument inside the principal range
        f, g = rng.choice([("asin", "sin"), ("acos", "cos"), ("atan", "tan"), ("log", "exp")])
        return fn(f, fn(g, mul(num(rng.choice([1, 2, 3])), sub())))
    if k2 < 0.55:
        return fn("atan", sub())
    return fn(rng.choice(FNS), sub())


def gen_definition(rng, *, rational=True, max_states=5, max_controls=3, max_cal=3, max_sensors=3, max_readings=4,
                   min_sensors=0, force_control=None, force_cal=None, singular=False, int_cal=False, force_fold=False, force_bilinear=False, tiny_sensor_noise=False):
    names = rng.sample(NAME_POOL, len(NAME_POOL))
    ns = rng.randint(2 if force_bilinear else 1, max_states)
    if force_bilinear:
        force_control = True
    nu = rng.randint(0, max_controls) if force_control is None else (rng.randint(1, max(1, max_controls)) if force_control else 0)
    nc = rng.randint(0, max_cal) if force_cal is None else (rng.randint(1, max(1, max_cal)) if force_cal else 0)
    state, control, cal = names[:ns], names[ns:ns + nu], names[ns + nu:ns + nu + nc]
    allv = state + control + cal + ["dt"]
    pool = [rnd_expr(rng, allv, 2, rational) for _ in range(3)]
    sm = {}
    for s in state:
        if rng.random() < 0.6:
            sm[s] = add(var(s), mul(var("dt"), rnd_expr(rng, allv, 2, rational, pool)))
        else:
            sm[s] = rnd_expr(rng, allv, 3, rational, pool)
    bilinear = nu >= 1 and ns >= 2 and not singular and not force_fold and (force_bilinear or rng.random() < 0.15)
    if bilinear:
        # bilinear dynamics: the process Jacobian contains no state symbol but depends on the control (and dt), so it
        # must be re-evaluated when only the control changes between two steps of one filter
        for s in state:
            u, o = rng.choice(control), rng.choice(state)
            sm[s] = add(var(s), mul(var("dt"), mul(num(rng.choice([1, -1, 3]), rng.choice([2, 4])), mul(var(u), var(o)))))
    if not rational and (force_fold or rng.random() < 0.5):
        # an angle-folding style update: a function applied to its own inverse
        s_ = rng.choice(state)
        f, g = rng.choice([("asin", "sin"), ("acos", "cos"), ("atan", "tan"), ("log", "exp")])
        sm[s_] = fn(f, fn(g, add(var(s_), mul(var("dt"), rnd_expr(rng, allv, 1, True)))))
    if singular and ns >= 2:
        # exactly correlated states: one state copies another's update
        sm[state[1]] = sm[state[0]]
    sensors = {}
    keys = rng.sample(SENSOR_POOL, rng.randint(min_sensors, max_sensors))
    sv = state + cal
    spool = [rnd_expr(rng, sv, 2, rational) for _ in range(2)]
    for k in keys:
        rd = rng.sample(READING_POOL, rng.randint(1, max_readings))
        sensors[k] = {r: rnd_expr(rng, sv, 2, rational, spool) for r in rd}
    cmap = {c: rnd_point(rng) for c in cal}
    if int_cal and cal:
        # every calibration value a Python int (the calibration vector then has an integer dtype), some large
        cmap = {c: rng.choice([3, -7, 2**31, 2**32, 10**10, 2**32 + 1, 12]) for c in cal}
        for s_ in state[:2]:
            c = rng.choice(cal)
            sm[s_] = add(var(s_), mul(var("dt"), powi(var(c), rng.choice([2, 2, 3]))))
    d = {
        "dt": "dt", "state": state, "control": control, "calibration": cal,
        "state_model": sm, "sensors": sensors,
        "process_noise": {u: rng.choice([0.25, 0.5, 1.0, 2.0, 0.125, 2.5e-7, 4e-10, 1e-3, 0.0, 0]) for u in control},
        # tiny values only on request: they make the update ill-conditioned, which only the checks with a conditioning guard can use
        "sensor_noise": {k: {r: rng.choice([0.25, 0.5, 1.0, 2.0, 0.0625, 0.25, 1.0] + ([4e-12, 1e-10] if tiny_sensor_noise else [])) for r in rd} for k, rd in sensors.items()},
        "calibration_map": cmap,
        "rational": rational,
    }
    if bilinear:
        d["same_dt"] = rng.choice([0.25, 0.125])      # every point of this definition uses one dt, the controls differ
    return d


ALL_FNS = ["sin", "cos", "tan", "exp", "sinh", "cosh", "tanh", "sec", "csc", "cot", "sech", "csch", "coth", "atan", "asinh",
           "acot", "acsch"]


def function_coverage_definitions():
    """fixed definitions that run first: every supported unary function applied to an argument that contains an even
    power of a symbol evaluated at negative values (printers that rewrite a function may also rewrite the power), with
    a non-alphabetical declaration order"""
    out = []
    for grp in (ALL_FNS[:8], ALL_FNS[8:15], ALL_FNS[15:]):
        state = [f"w_{f}" for f in grp] + ["m"]
        sm = {f"w_{f}": fn(f, mul(add(var("u"), var(f"w_{f}")), powi(add(num(1), powi(var("m"), 2)), -1))) for f in reversed(grp)}
        sm["m"] = add(var("m"), mul(var("dt"), var("c")))
        # the inverse functions (third group) are also read by the sensor at arguments of either sign
        z_arg = powi(var("m"), 2) if grp[0] in ALL_FNS[:15] else add(var("m"), mul(num(-1, 4), var(f"w_{grp[1]}")))
        out.append({"dt": "dt", "state": state, "control": ["u"], "calibration": ["c"], "state_model": sm,
                    "sensors": {"gps": {"z": fn(grp[0], z_arg), "alt": add(var("m"), var(f"w_{grp[1]}"))}},
                    "process_noise": {"u": 0.25}, "sensor_noise": {"gps": {"z": 0.5, "alt": 1.0}},
                    "calibration_map": {"c": -0.75}, "rational": False})
    # numerically delicate but well-conditioned expressions (an algebraically "equal" rewrite such as expand() ruins them)
    # and a sign-dependent expression sqrt(v^2) evaluated at negative v (differentiating under a positivity assumption ruins it)
    sm = {"p6": add(var("x"), mul(var("dt"), mul(var("v"), powi(add(var("x"), mul(num(-1), var("y"))), 6)))),
          "g": add(var("y"), mul(var("dt"), fn("exp", mul(num(-1), powi(add(var("x"), mul(num(-1), var("y"))), 2))))),
          "sv": add(var("sv"), mul(var("dt"), mul(var("c"), mul(var("v"), fn("sqrt", powi(var("v"), 2)))))),
          "x": add(var("x"), mul(var("dt"), var("u"))), "y": var("y"), "v": var("v")}
    out.append({"dt": "dt", "state": ["p6", "g", "sv", "x", "y", "v"], "control": ["u"], "calibration": ["c"], "state_model": sm,
                "sensors": {"pitot": {"q": mul(var("c"), mul(var("v"), fn("sqrt", powi(var("v"), 2)))), "dx": add(var("x"), mul(num(-1), var("y")))}},
                "process_noise": {"u": 0.25}, "sensor_noise": {"pitot": {"q": 0.5, "dx": 1.0}},
                "calibration_map": {"c": 0.75}, "rational": False, "numerics": True})
    return out


def pole_at_zero_definition():
    """structurally valid definition whose sensor and model expressions have poles at the all-zero state (x / v, 1 / x,
    dt / v): a compile-time trial evaluation at the default state must not turn them into a refusal"""
    sm = {"x": add(var("x"), mul(var("dt"), var("v"))), "v": add(var("v"), mul(var("dt"), var("u"))),
          "tau": add(var("tau"), mul(var("dt"), powi(var("v"), -1)))}
    return {"dt": "dt", "state": ["x", "v", "tau"], "control": ["u"], "calibration": [], "state_model": sm,
            "sensors": {"rate": {"r": mul(var("x"), powi(var("v"), -1)), "inv": powi(var("x"), -1)}},
            "process_noise": {"u": 0.25}, "sensor_noise": {"rate": {"r": 0.5, "inv": 1.0}}, "calibration_map": {}, "rational": True}


def symbol_keyed_readings_definition(n_readings):
    """readings keyed by Symbol, the way the project's own examples and tests write them (always with one reading there)"""
    sm = {"x": add(var("x"), mul(var("dt"), var("v"))), "v": var("v")}
    rd = {"ra": var("x"), "rb": var("v")}
    rd = {k: rd[k] for k in list(rd)[:n_readings]}
    return {"dt": "dt", "state": ["x", "v"], "control": [], "calibration": [], "state_model": sm, "sensors": {"pair": rd},
            "process_noise": {}, "sensor_noise": {"pair": {k: 0.5 for k in rd}}, "calibration_map": {}, "rational": True}


def large_int_calibration_definition():
    """calibration values given as (large) Python integers: sqrt(1 + c^2) with c = 2^32 needs c^2 = 2^64"""
    sm = {"w": add(var("w"), mul(var("dt"), fn("sqrt", add(num(1), powi(var("c"), 2))))), "s": add(var("s"), mul(var("dt"), fn("sin", mul(var("k"), var("s")))))}
    return {"dt": "dt", "state": ["w", "s"], "control": [], "calibration": ["c", "k"], "state_model": sm,
            "sensors": {"gps": {"z": mul(num(1, 2), fn("sqrt", add(powi(var("c"), 2), num(4))))}}, "process_noise": {}, "sensor_noise": {"gps": {"z": 1.0}},
            "calibration_map": {"c": 2**32, "k": 3}, "rational": False}


def signed_zero_definition():
    """atan2 on its branch cut: the sign of a zero input selects +pi or -pi, so a compiled model must not reuse
    anything computed for +0.0 when it is called with -0.0 (and vice versa)"""
    sm = {"psi": ["fn2", "atan2", var("vy"), var("vx")],
          "acc": add(var("acc"), mul(var("dt"), mul(["fn2", "atan2", var("vy"), var("vx")], ["fn2", "atan2", var("vy"), var("vx")]))),
          "vx": var("vx"), "vy": add(var("vy"), mul(var("dt"), var("u")))}
    return {"dt": "dt", "state": ["psi", "acc", "vx", "vy"], "control": ["u"], "calibration": [], "state_model": sm,
            "sensors": {}, "process_noise": {"u": 0.25}, "sensor_noise": {}, "calibration_map": {}, "rational": False}


def signed_zero_points():
    base = {"psi": 0.0, "acc": 0.5, "vx": -1.0}
    seq = [(0.0, False), (-0.0, True), (0.0, True), (-0.0, True), (0.25, False), (-0.0, True)]
    return [{"dt": 0.125, "state": dict(base, vy=v), "control": {"u": 0.0}, "branch_cut": bc} for v, bc in seq]


def assumption_twin_definition():
    """r' = a sqrt(1 + (b / a)^2) (scaled hypotenuse): equal to sqrt(a^2 + b^2) only for positive a.  Kept minimal: further
    statements sharing a^2 or b^2 change what the common-subexpression pass hands to simplify."""
    r = mul(var("a"), fn("sqrt", add(num(1), powi(mul(var("b"), powi(var("a"), -1)), 2))))
    sm = {"r": r, "a": add(var("a"), mul(var("dt"), var("b"))), "b": var("b")}
    return {"dt": "dt", "state": ["r", "a", "b"], "control": [], "calibration": [], "state_model": sm,
            "sensors": {}, "process_noise": {}, "sensor_noise": {}, "calibration_map": {}, "rational": False}


def assumption_twin_points():
    return [{"dt": 0.125, "state": {"r": 0.0, "a": a, "b": b}, "control": {}} for a, b in ((-3.0, 4.0), (3.0, -4.0), (-0.75, -1.0), (1.5, 2.0))]


def function_coverage_points(d):
    if d.get("numerics"):
        base = {"p6": 0.5, "g": 0.25, "sv": 0.125}
        return [{"dt": 0.125, "state": dict(base, x=1000.001, y=1000.0, v=-2.0), "control": {"u": 0.0}},
                {"dt": 0.125, "state": dict(base, x=30.0, y=30.0, v=-0.5), "control": {"u": 0.0}},
                {"dt": 0.125, "state": dict(base, x=-3.25, y=-3.0, v=1.5), "control": {"u": 0.5}}]
    pts = []
    for mval, uval in ((-0.25, 0.5), (-1.5, -0.75), (0.75, 1.25)):
        st = {s: (mval if s == "m" else 0.3125) for s in d["state"]}
        pts.append({"dt": 0.125, "state": st, "control": {"u": uval}})
    return pts


def rnd_point(rng):
    """dyadic rational with <= 6 fractional bits in [-3, 3]"""
    return rng.randint(-192, 192) / 64.0


def rnd_inputs(rng, d):
    # mostly ordinary steps; the zero-length step and a backward step (the managed runtime rewinds) are legitimate too
    return {"dt": d["same_dt"] if d.get("same_dt") is not None else rng.choice([0.125, 0.25, 0.5, 0.0625, 1.0, 0.125, 0.25, 0.5, 0.0, -0.125]),
            "state": {s: rnd_point(rng) for s in d["state"]},
            "control": {u: rnd_point(rng) for u in d["control"]}}


# ------------------------------------------------------------------------------------------ Coq printing
def coq_str(s):
    return '"' + s.replace('"', '""') + '"%string'


def coq_expr(e):
    t = e[0]
    if t == "num":
        return f"(Num ({e[1]} # {e[2]})%Q)"
    if t == "var":
        return f"(Var {coq_str(e[1])})"
    if t == "add":
        return f"(Add {coq_expr(e[1])} {coq_expr(e[2])})"
    if t == "mul":
        return f"(Mul {coq_expr(e[1])} {coq_expr(e[2])})"
    if t == "pow":
        return f"(Pow {coq_expr(e[1])} ({e[2]})%Z)"
    if t == "fn":
        return f"(Fn {coq_str(e[1])} {coq_expr(e[2])})"
    raise ValueError(e)


def coq_q(x):
    fr = Fraction(x)
    return f"({fr.numerator} # {fr.denominator})%Q"


def coq_list(xs):
    return "[" + "; ".join(xs) + "]"


def coq_names(xs):
    return coq_list([coq_str(x) for x in xs])


def coq_assoc_q(m):
    return coq_list([f"({coq_str(k)}, {coq_q(v)})" for k, v in m.items()])


def coq_assoc_expr(m):
    return coq_list([f"({coq_str(k)}, {coq_expr(v)})" for k, v in m.items()])


def is_rational(e):
    t = e[0]
    if t in ("num", "var"):
        return True
    if t == "fn":
        return False
    if t == "pow":
        return is_rational(e[1])
    return is_rational(e[1]) and is_rational(e[2])


def size(e):
    t = e[0]
    if t in ("num", "var"):
        return 1
    if t in ("pow", "fn"):
        return 1 + size(e[1] if t == "pow" else e[2])
    return 1 + size(e[1]) + size(e[2])


def gen_linear_definition(rng, singular=False, n=None):
    """bounded linear(ish) dynamics for long histories: x' = x + dt * (small linear combination), optionally with
    exactly correlated states / constant states so that the process Jacobian is singular"""
    names = rng.sample(NAME_POOL, len(NAME_POOL))
    ns = n or rng.randint(2, 4)
    nu = rng.randint(0, 2)
    state, control = names[:ns], names[ns:ns + nu]
    sm = {}
    for s in state:
        terms = var(s)
        for o in rng.sample(state + control, min(2, len(state + control))):
            terms = add(terms, mul(var("dt"), mul(num(rng.choice([1, -1, 1]), rng.choice([4, 8])), var(o))))
        sm[s] = terms
    if singular:
        kind = rng.choice(["copy", "project", "zero"])
        if kind == "copy":
            sm[state[1]] = sm[state[0]]
        elif kind == "project":
            sm[state[-1]] = add(mul(num(-981, 100), var(state[0])), (var(control[0]) if control else num(1)))
        else:
            sm[state[-1]] = num(0)
    keys = rng.sample(SENSOR_POOL, rng.randint(1, 2))
    sensors = {}
    for k in keys:
        rd = rng.sample(READING_POOL, rng.randint(1, 2))
        sensors[k] = {r: add(var(rng.choice(state)), mul(num(1, 2), var(rng.choice(state)))) for r in rd}
    return {"dt": "dt", "state": state, "control": control, "calibration": [], "state_model": sm, "sensors": sensors,
            "process_noise": {u: rng.choice([0.25, 1.0, 0.0625]) for u in control},
            "sensor_noise": {k: {r: rng.choice([0.25, 1.0]) for r in rd} for k, rd in sensors.items()},
            "calibration_map": {}, "rational": True}


def mass_zva_definition():
    """the project's own example (featuretests/managed_filter): singular process Jacobian"""
    sm = {"mass": var("mass"), "z": add(var("z"), mul(var("dt"), var("v"))), "v": add(var("v"), mul(var("dt"), var("a"))),
          "a": add(mul(num(-981, 100), var("mass")), var("thrust"))}
    return {"dt": "dt", "state": ["mass", "z", "v", "a"], "control": ["thrust"], "calibration": [], "state_model": sm,
            "sensors": {"simple": {"alt": var("z")}}, "process_noise": {"thrust": 1.0}, "sensor_noise": {"simple": {"alt": 1.0}},
            "calibration_map": {}, "rational": True}


def mass_zva_pitot_definition():
    """the project's example with an additional non-linear sensor (dynamic pressure q = v^2): the sensor Jacobian
    depends on the estimate, so the posterior covariance depends on where the Jacobian is evaluated"""
    d = mass_zva_definition()
    d["sensors"] = {"simple": {"alt": var("z")}, "pitot": {"q": mul(var("v"), var("v"))}}
    d["sensor_noise"] = {"simple": {"alt": 1.0}, "pitot": {"q": 0.5}}
    return d


def gen_nested_definition(rng, depth=3, with_sensor=True):
    """deeply shared sub-expressions (the CSE feature's target): a chain e1 = f(states), e2 = g(e1, e1), e3 = h(e2, e2) ...
    where only the deepest levels appear in the outputs, so that middle temporaries are referenced only through
    other temporaries"""
    names = rng.sample(NAME_POOL, len(NAME_POOL))
    vx, vy, px, py = names[:4]
    ux, uy = names[4:6]
    c1, c2 = names[6:8]
    lvl = add(add(powi(var(vx), 2), powi(var(vy), 2)), num(1))
    for k in range(depth - 1):
        a, b = rng.choice([(c1, c2), (c2, c1)])
        lvl = mul(add(var(a), mul(var(b), lvl)), lvl) if k % 2 == 0 else add(mul(lvl, lvl), mul(var(a), lvl))
    den = powi(add(num(1), powi(lvl, 2)), -1)
    ax = add(mul(mul(num(-1), mul(lvl, var(vx))), den), var(ux))
    ay = add(mul(mul(num(-1), mul(lvl, var(vy))), den), var(uy))
    half_dt2 = mul(num(1, 2), powi(var("dt"), 2))
    sm = {vx: add(var(vx), mul(var("dt"), ax)), vy: add(var(vy), mul(var("dt"), ay)),
          px: add(add(var(px), mul(var("dt"), var(vx))), mul(half_dt2, ax)),
          py: add(add(var(py), mul(var("dt"), var(vy))), mul(half_dt2, ay))}
    sensors = {}
    if with_sensor:
        k = rng.choice(SENSOR_POOL)
        r1, r2 = rng.sample(READING_POOL, 2)
        sp = add(add(powi(var(vx), 2), powi(var(vy), 2)), num(1))
        sensors[k] = {r1: mul(mul(sp, sp), var(c1)), r2: add(mul(sp, var(px)), mul(mul(sp, sp), var(py)))}
    return {"dt": "dt", "state": [vx, vy, px, py], "control": [ux, uy], "calibration": [c1, c2], "state_model": sm, "sensors": sensors,
            "process_noise": {ux: 0.25, uy: 0.5}, "sensor_noise": {k: {r: 0.5 for r in rd} for k, rd in sensors.items()},
            "calibration_map": {c1: rng.choice([0.25, 0.5, -0.125]), c2: rng.choice([0.125, 0.0625])}, "rational": True}


def rename_expr(e, f):
    t = e[0]
    if t == "num":
        return e
    if t == "var":
        return ["var", f.get(e[1], e[1])]
    if t in ("add", "mul"):
        return [t, rename_expr(e[1], f), rename_expr(e[2], f)]
    if t == "pow":
        return ["pow", rename_expr(e[1], f), e[2]]
    return ["fn", e[1], rename_expr(e[2], f)]


def rename_definition(d, f, fr=None, fk=None):
    """consistently rename symbols (f), reading names (fr: per sensor dict) and sensor keys (fk)"""
    fr, fk = fr or {}, fk or {}
    g = lambda x: f.get(x, x)
    out = dict(d)
    out["state"] = [g(x) for x in d["state"]]
    out["control"] = [g(x) for x in d["control"]]
    out["calibration"] = [g(x) for x in d["calibration"]]
    out["state_model"] = {g(k): rename_expr(v, f) for k, v in d["state_model"].items()}
    out["sensors"] = {fk.get(k, k): {fr.get(k, {}).get(r, r): rename_expr(e, f) for r, e in rd.items()} for k, rd in d["sensors"].items()}
    out["process_noise"] = {g(k): v for k, v in d["process_noise"].items()}
    out["sensor_noise"] = {fk.get(k, k): {fr.get(k, {}).get(r, r): v for r, v in rd.items()} for k, rd in d["sensor_noise"].items()}
    out["calibration_map"] = {g(k): v for k, v in d["calibration_map"].items()}
    return out


def rename_point(p, f, fr=None, fk=None):
    fr, fk = fr or {}, fk or {}
    g = lambda x: f.get(x, x)
    q = dict(p)
    q["state"] = {g(k): v for k, v in p["state"].items()}
    q["control"] = {g(k): v for k, v in p["control"].items()}
    if "readings" in p:
        q["readings"] = {fk.get(k, k): {fr.get(k, {}).get(r, r): v for r, v in rd.items()} for k, rd in p["readings"].items()}
    if "P" in p:
        # the covariance is given in layout (name-sorted) order: keep every NAMED entry where it was
        old = sorted(p["state"])
        new = sorted(q["state"])
        idx = {g(n): i for i, n in enumerate(old)}
        q["P"] = [[p["P"][idx[a]][idx[b]] for b in new] for a in new]
    return q


def random_renaming(rng, d):
    used = [d["dt"]] + d["state"] + d["control"] + d["calibration"]
    pool = [n for n in NAME_POOL if n not in used]
    rng.shuffle(pool)
    names = d["state"] + d["control"] + d["calibration"]
    f = dict(zip(names, pool))
    fr = {}
    for k, rd in d["sensors"].items():
        rp = [n for n in READING_POOL if n not in rd]
        rng.shuffle(rp)
        fr[k] = dict(zip(rd, rp))
    kp = [n for n in SENSOR_POOL if n not in d["sensors"]]
    rng.shuffle(kp)
    fk = dict(zip(d["sensors"], kp))
    return f, fr, fk
