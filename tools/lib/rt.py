"""Shared by C10/C11/C12: history generation, running the Python and C++ runtimes with recording
filters, Coq case files for the regenerated Python model and the C++ hand model, property oracle."""
from __future__ import annotations

import json
import math
import re
import shutil
import subprocess
from fractions import Fraction
from pathlib import Path

from .ctx import REPO, VERIF, NPROC

MAXDTS = [0.01, 0.05, 0.1, 0.25, 1.0 / 3.0, 0.5, 1.0, 0.003, 2.5, 10.0, 64.0]


def ulp_shift(x: float, n: int) -> float:
    for _ in range(abs(n)):
        x = math.nextafter(x, math.inf if n > 0 else -math.inf)
    return x


def fl(x: float) -> str:
    """Coq float literal"""
    if x != x:
        return "nan"
    h = float(x).hex()
    return f"(-{h[1:]})%float" if h.startswith("-") else f"({h})%float"


# ------------------------------------------------------------------------------------------ generation
def gen_pairs(rng, n, max_steps=1500):
    """(max_dt, cur, out) triples: boundary stream + random stream."""
    out = []
    kinds = ["multiple", "multiple_ulp", "equal", "tiny", "random", "backward_multiple", "random_back", "near_eps"]
    for i in range(n):
        m = rng.choice(MAXDTS)
        mag = rng.choice([0.0, 1.0, 10.0, 1000.0, 1e5])
        cur = rng.choice([0.0, rng.uniform(-mag, mag), round(rng.uniform(-mag, mag), 2)])
        kind = kinds[i % len(kinds)] if i < 4 * len(kinds) else rng.choice(kinds)
        k = rng.randint(0, min(max_steps, 40 if rng.random() < 0.7 else max_steps))
        if kind == "multiple":
            o = cur + m * k
        elif kind == "multiple_ulp":
            o = ulp_shift(cur + m * k, rng.choice([-2, -1, 1, 2]))
        elif kind == "equal":
            o = cur
        elif kind == "tiny":
            o = cur + rng.choice([-1, 1]) * rng.choice([1e-9, 0.9e-9, 1.1e-9, 1e-10, 5e-9, 2e-9])
        elif kind == "backward_multiple":
            o = ulp_shift(cur - m * k, rng.choice([-1, 0, 0, 1]))
        elif kind == "random_back":
            o = cur - rng.uniform(0, m * min(k + 1, 60))
        elif kind == "near_eps":
            sc = rng.choice([1.0, max(1.0, m), m])
            o = cur + rng.choice([-1, 1]) * (m * k + sc * rng.choice([1e-9, 0.99e-9, 1.01e-9, -1e-9, -0.99e-9, 3e-10, -3e-10, -5e-10, -1.5e-9]))
        else:
            o = cur + rng.uniform(0, m * min(k + 1, 60))
        out.append((m, cur, o, kind))
    return out


def history_of_pair(m, cur, o, control_size=0):
    return {"max_dt": float(m).hex(), "control_size": control_size, "start": float(cur).hex(),
            "ticks": [{"out": float(o).hex(), "control": control_size > 0, "readings": None}]}


def large_clock_history(rng, cs):
    m = rng.choice([0.25, 0.5, 1.0])
    base = 2.0 ** 31 + rng.randint(0, 10**6) / 16.0
    t = base
    ticks = []
    for _ in range(rng.randint(1, 4)):
        out = t + rng.randint(1, 40) / 16.0
        rs = None
        if rng.random() < 0.6:
            rs = [[float(t + rng.randint(0, 24) / 16.0).hex(), rng.randint(0, 2)] for _ in range(rng.randint(1, 3))]
            t = float.fromhex(rs[-1][0])
        ticks.append({"out": float(out).hex(), "control": cs > 0, "readings": rs})
    return {"max_dt": float(m).hex(), "control_size": cs, "start": float(base).hex(), "ticks": ticks}


def gen_histories(rng, n, allow_missing_control=True):
    hs = []
    for i in range(n):
        m = rng.choice(MAXDTS)
        cs = rng.choice([0, 1])
        t = rng.choice([0.0, round(rng.uniform(-50, 50), 3), rng.uniform(-1000, 1000)])
        if i % 12 == 7:
            # clock values of the size of Unix-epoch seconds, on a dyadic grid so that every time and every difference
            # is exact in binary64: thresholds meant as absolute (1e-9 s) must not scale with the size of the clock
            hs.append(large_clock_history(rng, cs))
            continue
        start = t
        ticks = []
        for _ in range(rng.randint(1, 5)):
            span = m * rng.choice([1, 3, 10, 40])
            out = t + rng.uniform(-0.3 * span, span)
            if rng.random() < 0.1:
                out = t
            nr = rng.choice([None, 0, 1, 2, 3, 4])
            rs = None
            if nr is not None:
                rs = []
                for _ in range(nr):
                    ts = rng.choice([t + rng.uniform(-span, span), out, t, out + rng.uniform(0, span), t + m * rng.randint(0, 5)])
                    rs.append([float(ts).hex(), rng.randint(0, 2)])
                if rs and rng.random() < 0.5:
                    t = float.fromhex(rs[-1][0])
            ctl = cs > 0
            if allow_missing_control and cs > 0 and rng.random() < 0.08:
                ctl = False
            ticks.append({"out": float(out).hex(), "control": ctl, "readings": rs})
        hs.append({"max_dt": float(m).hex(), "control_size": cs, "start": float(start).hex(), "ticks": ticks})
    return hs


# ------------------------------------------------------------------------------------------ Coq case files
def coq_rle(r):
    return "[" + "; ".join(f"(({k}%Z, {fl(float.fromhex(v))}), {c}%Z)" for k, v, c in r) + "]"


def coq_obs(o):
    if o is None:
        return "None"
    ht = fl(float.fromhex(o["held_t"])) if o.get("held_t") is not None else "0%float"
    return f"Some ({coq_rle(o['ret'])}, {ht}, {coq_rle(o.get('held') or [])})"


def coq_case(h, obs):
    ticks = []
    for t in h["ticks"]:
        if t["readings"] is None:
            rs = "None"
        else:
            rs = "Some [" + "; ".join(f"({fl(float.fromhex(ts))}, {k}%Z)" for ts, k in t["readings"]) + "]"
        ticks.append(f"({fl(float.fromhex(t['out']))}, {'true' if t['control'] else 'false'}, {rs})")
    return (f"({fl(float.fromhex(h['max_dt']))}, {h['control_size']}%Z, {fl(float.fromhex(h['start']))}, "
            f"[{'; '.join(ticks)}], [{'; '.join(coq_obs(o) for o in obs)}])")


CASE_HEADER = """From Coq Require Import ZArith List PrimFloat.
From FV Require Import Base.Num Model.RuntimeExec.
Import ListNotations.
"""


def coq_compare(ctx, which, hs, observed, shard=150):
    """Evaluate the model (`py` = regenerated py_tick over PrimFloat, `cpp` = hand model) on the histories
    and compare with the observed results inside Coq.  Returns the list of mismatching history indices,
    or None if Coq could not evaluate (broken model)."""
    items = []
    for s in range(0, len(hs), shard):
        cases = ";\n ".join(coq_case(h, o) for h, o in zip(hs[s:s + shard], observed[s:s + shard]))
        txt = (CASE_HEADER + f"Definition cases : list case := [\n {cases}\n].\n"
               f"Eval vm_compute in ({which}_mismatches cases).\n")
        items.append((f"{which}_{s}", txt))
    res = ctx.coq_eval_many(items)
    bad = []
    for (tag, _), (ok, out), s in zip(items, res, range(0, len(hs), shard)):
        if not ok:
            return None
        m = re.search(r"=\s*\[(.*?)\]\s*:\s*list nat", out, re.S)
        if not m:
            ctx.log("unparsable Coq output", out[-300:])
            return None
        bad += [s + int(x.replace("%nat", "")) for x in re.findall(r"\d+(?:%nat)?", m.group(1))]
    return bad


# ------------------------------------------------------------------------------------------ C++ runtime
def build_cpp_driver(ctx, workdir: Path, maxdts):
    src = (VERIF / "tools" / "cpp" / "rt_driver.cpp.in").read_text()
    src = src.replace("@MAXDTS@", ", ".join(float(m).hex() for m in maxdts))
    cases = "\n".join(f"        case {i}: dispatch<{i}>(c, l, start, ticks); break;" for i in range(len(maxdts)))
    src = src.replace("@CASES@", cases)
    (workdir / "rt_driver.cpp").write_text(src)
    cmd = ["g++", "-std=c++20", "-O1", "-I", str(REPO / "cpp/runtime/include"), "-I", str(REPO / "cpp/include"),
           "-o", str(workdir / "rt_driver"), str(workdir / "rt_driver.cpp")]
    r = subprocess.run(cmd, capture_output=True, text=True, timeout=600)
    return r.returncode == 0, r.stderr[-3000:]


def run_cpp(ctx, hs_flags):
    """hs_flags: list of (history, has_ctl, has_cal).  Returns (ok, list of per-history observed results)."""
    maxdts = sorted({float.fromhex(h["max_dt"]) for h, _, _ in hs_flags})
    d = ctx.scratch("cpp")
    try:
        ok, err = build_cpp_driver(ctx, d, maxdts)
        if not ok:
            return False, err
        lines = []
        for h, c, l in hs_flags:
            lines.append(f"H {maxdts.index(float.fromhex(h['max_dt']))} {int(c)} {int(l)} {h['start']}")
            for t in h["ticks"]:
                if t["readings"] is None:
                    lines.append(f"T {t['out']} -1")
                else:
                    lines.append(f"T {t['out']} {len(t['readings'])} " + " ".join(f"{ts} {k}" for ts, k in t["readings"]))
            lines.append("E")
        r = subprocess.run([str(d / "rt_driver")], input="\n".join(lines) + "\n", capture_output=True, text=True, timeout=900)
        if r.returncode != 0:
            return False, f"driver exit {r.returncode}: {r.stderr[-500:]}"
        res, cur = [], None
        for line in r.stdout.splitlines():
            if line == "BEGIN":
                cur = []
            elif line == "END":
                res.append(cur)
            elif line.startswith("R"):
                body = line[2:].strip()
                rle = []
                if body:
                    for item in body.split(","):
                        k, v, c = item.split(":")
                        rle.append([int(k), float.fromhex(v).hex(), int(c)])
                cur.append({"ret": rle, "held_t": None, "held": None})
        return True, res
    finally:
        shutil.rmtree(d, ignore_errors=True)


# ------------------------------------------------------------------------------------------ property oracle (C10)
def expand(rle):
    out = []
    for k, v, c in rle:
        out += [(k, float.fromhex(v))] * c
    return out


def check_steps(max_dt: float, cur: float, out: float, dts: list[float]):
    """The C10 statement evaluated on a recorded list of prediction steps (exact rational arithmetic).
    Returns None if it holds, else a description."""
    F = Fraction
    diff = F(out) - F(cur)
    if diff == 0:
        return None if not dts else f"took {len(dts)} step(s) although the two times coincide"
    sgn = 1 if diff > 0 else -1
    slack = F(1, 10**9)
    for d in dts:
        if d == 0 or (d > 0) != (sgn > 0):
            return f"step {d!r} does not point in the direction of travel ({'forwards' if sgn > 0 else 'backwards'})"
        if abs(F(d)) > F(max_dt) + slack:
            return f"step {d!r} is longer than the configured maximum {max_dt!r}"
    tol = slack + 8 * F(math.ulp(max(abs(cur), abs(out), 1.0)))
    s = sum((F(d) for d in dts), F(0))
    if abs(s - diff) > tol:
        return f"steps sum to {float(s)!r} but the time difference is {float(diff)!r}"
    return None


def moves_of_history(h, obs):
    """Split the returned/held traces of a Python history into individual moves (cur, out, [dts]) so the
    C10 predicate can be applied to every move of every tick."""
    moves = []
    cur = float.fromhex(h["start"])
    held_len = 0
    for t, o in zip(h["ticks"], obs):
        if o is None:
            continue
        ret = expand(o["ret"])
        seg = ret[held_len:]
        # walk: for each reading: P* then S ; finally P* to out
        i = 0
        time = cur
        for ts, key in (t["readings"] or []):
            dts = []
            while i < len(seg) and seg[i][0] == 0:
                dts.append(seg[i][1]); i += 1
            moves.append((time, float.fromhex(ts), dts))
            if i < len(seg) and seg[i][0] == 1 + key:
                i += 1
            else:
                moves.append((time, float.fromhex(ts), None))  # malformed trace
            time = float.fromhex(ts)
        dts = [v for k, v in seg[i:]]
        if any(k != 0 for k, v in seg[i:]):
            moves.append((time, float.fromhex(t["out"]), None))
        else:
            moves.append((time, float.fromhex(t["out"]), dts))
        if o.get("held") is not None:
            held_len = len(expand(o["held"]))
            cur = float.fromhex(o["held_t"])
        else:
            # C++: held = state after the last reading
            held_len = held_len + i
            cur = time
    return moves
