"""Shared by C04/C05/C06/C09/C16: jobs for tools/harness/ekf_py.py, Coq case text for Model/EkfExec.v,
comparison with the exact oracle."""
from __future__ import annotations

from fractions import Fraction

from . import glue, models as M

HEADER = """From Coq Require Import String List ZArith QArith.
From FV Require Import Base.Expr Base.ListMat Model.Named Model.GlueExec Model.EkfExec.
Import ListNotations.
"""


def spd(rng, n):
    """symmetric positive-definite dyadic matrix L L^T + I/2 with |L_ij| <= 1 (exact in binary64)"""
    L = [[(Fraction(rng.randint(-4, 4), 4) if j < i else (Fraction(rng.randint(2, 6), 4) if j == i else Fraction(0)))
          for j in range(n)] for i in range(n)]
    P = [[sum(L[i][k] * L[j][k] for k in range(n)) + (Fraction(1, 2) if i == j else 0) for j in range(n)] for i in range(n)]
    return [[float(x) for x in row] for row in P]


def make_points(rng, d, n_points):
    pts = []
    for _ in range(n_points):
        p = M.rnd_inputs(rng, d)
        p["P"] = spd(rng, len(d["state"]))
        p["readings"] = {k: {r: M.rnd_point(rng) for r in rd} for k, rd in d["sensors"].items()}
        pts.append(p)
    return pts


def make_jobs(ctx, n_defs, n_points, ks=(None,), rational_every=2, function_coverage=False, **genkw):
    jobs = []
    fixed = [d for d in M.function_coverage_definitions() if not d.get("numerics")][2:] if function_coverage else []
    for i in range(n_defs):
        kw = dict(min_sensors=1, max_sensors=2, max_states=4, max_readings=3)
        kw.update(genkw)
        d = M.gen_definition(ctx.rng, rational=(i % rational_every == 0), force_bilinear=(i % 8 == 3), tiny_sensor_noise=True, **kw)
        decl = {"container": ctx.rng.choice(["set", "list"]), "perm_seed": ctx.rng.randint(0, 10**6)}
        jobs.append({"defn": d, "cse": bool(i % 3 != 1), "k": ks[i % len(ks)], "decl": decl, "points": make_points(ctx.rng, d, n_points)})
    # appended (the random stream above is unchanged): the inverse functions read by a sensor at arguments of either sign
    for gi, d in enumerate(fixed):
        for cse in (False, True):
            jobs.append({"defn": d, "cse": cse, "k": None, "decl": {"container": "list", "perm_seed": gi}, "points": make_points(ctx.rng, d, n_points)})
    return jobs


def qmat(m):
    return "(" + M.coq_list([M.coq_list([M.coq_q(x) for x in row]) for row in m]) + " : lmat)"


def qvec(v):
    return "(" + M.coq_list([M.coq_q(x) for x in v]) + " : list Q)"


def progtxt(pr):
    pre, body = glue.prog(pr)
    return f"(({pre} : list (name * expr)), ({body} : list expr))"


def filter_defs(j, d, r):
    """Coq definitions F<j> and S<j>_<si> from the exported programs; None if not exportable"""
    pg = r["programs"]
    need = [pg["model"], pg["process"]] + ([pg["control"]] if d["control"] else [])
    if not all(glue.exportable(x) for x in need):
        return None, {}
    empty = "(([] : list (name * expr)), ([] : list expr))"
    noise = M.coq_list([f"(K1 {M.coq_str(u)}, {M.coq_q(v)})" for u, v in d["process_noise"].items()])
    txt = (f"Definition F{j} := mkFilt {glue.pydef(d)} {progtxt(pg['model'])} {progtxt(pg['process'])} "
           f"{progtxt(pg['control']) if d['control'] else empty} ({noise} : list (nkey * Q)).\n")
    sens = {}
    for si, k in enumerate(sorted(d["sensors"])):
        if glue.exportable(pg["sensor_block"].get(k)) and glue.exportable(pg["sensor_jac"].get(k)):
            txt += (f"Definition S{j}_{si} := mkSens {M.coq_assoc_expr(d['sensors'][k])} {progtxt(pg['sensor_block'][k])} "
                    f"{progtxt(pg['sensor_jac'][k])} {M.coq_assoc_q(d['sensor_noise'][k])}.\n")
            sens[k] = f"S{j}_{si}"
    return txt, sens


def mat_close(a, b, tol=glue.TOL, scale=None):
    """entries compared relative to the largest entry of the expected matrix (errors of P - K H P and of
    G P G^T are relative to the magnitude of the matrices involved, not of each entry)"""
    if a is None or b is None or len(a) != len(b):
        return False
    sc = scale if scale is not None else max([1.0] + [abs(v) for row in b for v in row])
    return all(len(x) == len(y) and all(abs(u - v) <= tol * sc for u, v in zip(x, y)) for x, y in zip(a, b))


def dict_close(a, b, tol=glue.TOL, scale=None):
    if a is None or b is None or set(a) != set(b):
        return False
    sc = scale if scale is not None else max([1.0] + [abs(v) for v in b.values()])
    return all(abs(a[k] - b[k]) <= tol * sc for k in b)


def well_conditioned(ou, pcov):
    """conditioning guard of the numeric comparison: innovation covariance with cond <= 1e6 and
    covariance magnitude <= 1e8 (beyond that 1e-9 is not a meaningful tolerance for binary64)"""
    import numpy as np
    try:
        c = np.linalg.cond(np.array(ou["S"], dtype=float))
    except Exception:
        return False
    return c <= 1e6 and max(abs(v) for row in pcov for v in row) <= 1e8


def is_sym(m, tol=1e-12):
    sc = max([1.0] + [abs(v) for row in m for v in row])
    return all(abs(m[i][j] - m[j][i]) <= tol * sc for i in range(len(m)) for j in range(len(m)))


def coq_k(k):
    return "None" if k is None else f"(Some {M.coq_q(k)})"


def analyse(ctx, jobs, res, pid, do_predict=True, do_update=True):
    """Oracle comparisons (violations) + Coq cases (correspondence) for prediction and update results."""
    defs_text, checks, src = "", [], []
    dist = {"definitions": len(jobs), "points": 0, "updates": 0, "rejected": 0, "accepted": 0, "readings_per_sensor": {},
            "states": {}, "controls": {}, "coq_predict_cases": 0, "coq_update_cases": 0}
    for j, (job, r) in enumerate(zip(jobs, res)):
        d = job["defn"]
        if r.get("results_stable") is False:
            ctx.violation("a state / covariance returned by the filter changed when the filter was used again (results share storage)",
                          {"definition": d, "points": job["points"][:3]}, key="filter-result-unstable")
        if do_update and "error" not in r and r.get("Q"):
            # the per-sensor noise matrix the filter holds is exactly the configured diagonal, by reading name
            for key, rd in d["sensors"].items():
                Rn = sorted(rd)
                want = [[(float(d["sensor_noise"][key][a]) if a == b else 0.0) for b in Rn] for a in Rn]
                if r["Q"].get(key) != want:
                    ctx.violation(f"sensor {key!r}: the filter's noise matrix is {r['Q'].get(key)}, configured per reading (in name order {Rn}): {d['sensor_noise'][key]}",
                                  {"definition": d, "sensor": key, "observed": r["Q"].get(key), "expected": want}, key="sensor-noise-matrix")
                    break
        if "error" in r:
            ctx.violation(f"python.compile_ekf refused / crashed on a valid definition: {r['kind']}",
                          {"definition": d, "error": r["error"]}, key=f"compile-raises:{r['kind']}")
            continue
        S = sorted(d["state"])
        dist["states"][len(S)] = dist["states"].get(len(S), 0) + 1
        dist["controls"][len(d["control"])] = dist["controls"].get(len(d["control"]), 0) + 1
        if r["arglist_state"] != S:
            ctx.violation("state layout is not the name-sorted order", {"definition": d, "observed": r["arglist_state"]}, key="layout")
            continue
        # noise matrices exactly as supplied, by name
        U = sorted(d["control"])
        expM = [[(d["process_noise"][a] if a == b else 0.0) for b in U] for a in U]
        if do_predict and r["process_noise_matrix"] != expM:
            ctx.violation(f"process-noise matrix {r['process_noise_matrix']} is not the diagonal of the per-control noise supplied by name {d['process_noise']} (controls in name order {U})",
                          {"definition": d, "observed": r["process_noise_matrix"], "expected": expM}, key="process-noise-matrix")
        if do_update:
            for key, rd in d["sensors"].items():
                R = sorted(rd)
                expQ = [[(d["sensor_noise"][key][a] if a == b else 0.0) for b in R] for a in R]
                if r["sensor_noise_matrix"].get(key) != expQ:
                    ctx.violation(f"sensor noise of {key!r} is {r['sensor_noise_matrix'].get(key)}, expected the diagonal matrix of the per-reading noise by name",
                                  {"definition": d, "sensor": key, "observed": r["sensor_noise_matrix"].get(key), "expected": expQ}, key="sensor-noise-matrix")
        ftxt, sens = filter_defs(j, d, r) if d["rational"] else (None, {})
        if ftxt:
            defs_text += ftxt
        cal = d["calibration_map"]
        for pi, (p, pr) in enumerate(zip(job["points"], r["points"])):
            dist["points"] += 1
            orc = pr["oracle"]
            pred = pr["predict"]
            nontrivial = len(S) >= 2 and (len(d["control"]) >= 1)
            if do_predict:
                ctx.count([pid, "predict", d, job["cse"], p], nontrivial,
                          sample={"states": S, "controls": sorted(d["control"]), "dt": p["dt"], "P": p["P"], "predicted_cov": pred.get("cov")})
                if "_raised" in pred:
                    if "_failed" not in orc:
                        ctx.violation(f"process_model raised on a valid covariance: {pred['_raised']}",
                                      {"definition": d, "inputs": p, "cse": job["cse"]}, key="predict-raises")
                    continue
                if "_failed" not in orc:
                    if not dict_close(pred["state"], orc["state"]):
                        ctx.violation(f"prediction returns state {pred['state']} but f(x,u) = {orc['state']}",
                                      {"definition": d, "inputs": p, "observed": pred, "expected": orc}, key="predict-state")
                    elif not mat_close(pred["cov"], orc["cov"]):
                        ctx.violation("predicted covariance is not G P G^T + V M V^T (G, V by name; M from the per-control noise by name)",
                                      {"definition": d, "inputs": p, "observed": pred["cov"], "expected": orc["cov"], "state_order": S},
                                      key="predict-cov")
                if not pred["inputs_unchanged"]:
                    ctx.violation("process_model modified its inputs", {"definition": d, "inputs": p}, key="predict-mutates")
                if not pred["repeat_identical"]:
                    ctx.violation("repeating process_model gave a different result", {"definition": d, "inputs": p}, key="predict-not-repeatable")
                if ftxt:
                    checks.append(f"check_predict F{j} {M.coq_q(p['dt'])} {M.coq_assoc_q(p['state'])} {M.coq_assoc_q(p['control'])} "
                                  f"{M.coq_assoc_q(cal)} {qmat(p['P'])} {qvec([pred['state'][s] for s in S])} {qmat(pred['cov'])}")
                    src.append((j, pi, "predict"))
                    dist["coq_predict_cases"] += 1
            if not do_update:
                continue
            for key, rd in d["sensors"].items():
                u = pr["updates"].get(key)
                R = sorted(rd)
                dist["readings_per_sensor"][len(R)] = dist["readings_per_sensor"].get(len(R), 0) + 1
                dist["updates"] += 1
                ctx.count([pid, "update", d, job["cse"], job["k"], p, key], len(R) >= 2,
                          sample={"states": S, "readings": R, "k": job["k"], "reading": p["readings"][key],
                                  "posterior_state": (u or {}).get("state")})
                ou = orc.get("updates", {}).get(key) if "_failed" not in orc else None
                if u is None or "_raised" in u:
                    if ou is not None:
                        ctx.violation(f"sensor_model raised for a valid covariance and reading ({len(R)} readings): {(u or {}).get('_raised')}",
                                      {"definition": d, "inputs": p, "sensor": key, "k": job["k"]}, key=f"update-raises:m={min(len(R), 2)}")
                    continue
                dist["rejected" if u["same_objects"] else "accepted"] += 1
                if ou is not None and not well_conditioned(ou, p["P"]):
                    dist["ill_conditioned_skipped"] = dist.get("ill_conditioned_skipped", 0) + 1
                    ou = None
                if ou is not None:
                    near = ou["margin"] is not None and abs(ou["margin"]) < 1e-6
                    if not near and u["same_objects"] != ou["rejected"]:
                        ctx.violation(f"reading with NIS {ou['nis']!r} (m={len(R)}, k={job['k']!r}) was {'discarded' if u['unchanged'] else 'used'}; "
                                      f"NIS - (k*sqrt(2m)+m) = {ou['margin']!r}",
                                      {"definition": d, "inputs": p, "sensor": key, "k": job["k"], "observed": u, "expected": ou}, key="decision")
                    elif not near:
                        if not dict_close(u["state"], ou["state"]):
                            ctx.violation(f"update of sensor {key!r} returns state {u['state']}, the Kalman correction x + K(z - h) is {ou['state']}",
                                          {"definition": d, "inputs": p, "sensor": key, "k": job["k"], "observed": u, "expected": ou}, key="update-state")
                        elif not mat_close(u["cov"], ou["cov"]):
                            ctx.violation(f"posterior covariance of sensor {key!r} is not P - K H P",
                                          {"definition": d, "inputs": p, "sensor": key, "observed": u["cov"], "expected": ou["cov"]}, key="update-cov")
                        if u["innovation"] is None or not dict_close(u["innovation"], ou["innovation"]):
                            ctx.violation(f"recorded innovation of {key!r} is {u['innovation']}, z - h(x) = {ou['innovation']}",
                                          {"definition": d, "inputs": p, "sensor": key}, key="recorded-innovation")
                        if u["S"] is None or not mat_close(u["S"], ou["S"]):
                            ctx.violation(f"recorded innovation covariance of {key!r} is not H P H^T + Q (Q diagonal, by reading name)",
                                          {"definition": d, "inputs": p, "sensor": key, "observed": u["S"], "expected": ou["S"]}, key="recorded-S")
                own = pr.get("own_readings", {}).get(key)
                if own is not None and "_raised" not in own:
                    dist["own_reading_cases"] = dist.get("own_reading_cases", 0) + 1
                    if not own["alias_consistent"]:
                        ctx.violation(f"sensor {key!r}: a reading returned by the filter's own sensor model gives a different update when passed as the object "
                                      f"itself ({own['alias']['object']}) than as a copy of its values ({own['alias']['copy']})",
                                      {"definition": d, "inputs": p, "sensor": key, "observed": own["alias"]}, key="update-reading-aliased")
                    if ou is not None and not ou["rejected"] and not (ou["margin"] is not None and abs(ou["margin"]) < 1e-6):
                        # a reading equal to the prediction: state stays, the covariance is still P - K H P (it does not depend on the reading)
                        if not dict_close(own["state"], p["state"]):
                            ctx.violation(f"sensor {key!r}: a reading equal to the predicted reading moved the state to {own['state']}",
                                          {"definition": d, "inputs": p, "sensor": key, "reading": own["reading"]}, key="update-zero-innovation-state")
                        elif not mat_close(own["cov"], ou["cov"]):
                            ctx.violation(f"sensor {key!r}: with a reading equal to the predicted reading (innovation exactly zero) the posterior covariance is not P - K H P",
                                          {"definition": d, "inputs": p, "sensor": key, "reading": own["reading"], "observed": own["cov"], "expected": ou["cov"]},
                                          key="update-zero-innovation-cov")
                if ou is not None and not is_sym(u["cov"], 1e-9):     # (only where the update is well conditioned)
                    ctx.violation("posterior covariance is not symmetric", {"definition": d, "inputs": p, "sensor": key, "observed": u["cov"]}, key="update-asym")
                if not u["inputs_unchanged"]:
                    ctx.violation("sensor_model modified its inputs", {"definition": d, "inputs": p, "sensor": key}, key="update-mutates")
                if ftxt and key in sens and u["innovation"] is not None and u["S"] is not None and ou is not None:
                    checks.append(f"check_update F{j} {sens[key]} {coq_k(job['k'])} {M.coq_assoc_q(p['state'])} {M.coq_assoc_q(cal)} {qmat(p['P'])} "
                                  f"{M.coq_assoc_q(p['readings'][key])} {qvec([u['state'][s] for s in S])} {qmat(u['cov'])} "
                                  f"{qvec([u['innovation'][x] for x in R])} {qmat(u['S'])} {'true' if u['same_objects'] else 'false'}")
                    src.append((j, pi, "update:" + key))
                    dist["coq_update_cases"] += 1
    return defs_text, checks, src, dist


CODES = {2: "model undefined", 3: "state differs", 4: "covariance differs", 5: "recorded innovation differs",
         6: "recorded innovation covariance differs", 7: "accept/reject decision differs",
         8: "a premise of Proofs/Refine.refine_py_update (shapes, inverse certificate S * linv S = I) fails on this case",
         9: "a shape premise of Proofs/Refine.refine_py_predict fails on this case"}


def run_coq(ctx, jobs, res, defs_text, checks, src, what):
    if not checks:
        return
    from . import glue as G_
    items_bad = None
    bad = []
    # shard and evaluate
    out = []
    shard = 40
    items = []
    for s in range(0, len(checks), shard):
        body = ";\n  ".join(checks[s:s + shard])
        items.append((f"ekf_{s}", HEADER + defs_text + f"\nDefinition results : list nat := [\n  {body}\n].\nEval vm_compute in (nonzero_indexed results 0).\n"))
    rs = ctx.coq_eval_many(items)
    for (t, _), (ok, o), s in zip(items, rs, range(0, len(checks), shard)):
        if not ok:
            ctx.broken.append({"kind": "correspondence", "name": f"Coq filter model could not be evaluated ({what})", "detail": o[-800:]})
            return
        pairs = G_.parse_pairs(o)
        if pairs is None:
            ctx.broken.append({"kind": "correspondence", "name": f"unparsable Coq output ({what})", "detail": o[-300:]})
            return
        bad += [(s + i, c) for i, c in pairs]
    if bad:
        i0, c0 = bad[0]
        j, pi, tag = src[i0]
        ctx.broken.append({"kind": "correspondence",
                           "name": f"Coq filter model (glue + regenerated formulas, exact) vs python.ExtendedKalmanFilter [{tag}]: {CODES.get(c0, c0)}",
                           "detail": f"{len(bad)} of {len(checks)} cases; first: definition={jobs[j]['defn']} cse={jobs[j]['cse']} k={jobs[j]['k']} point={jobs[j]['points'][pi]}"})
