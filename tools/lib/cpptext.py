"""Parse the regular shapes of FormaK-generated C++ text back into tables (accessor indices, Options field
orders, constructor argument orders, per-function assignment lists).  Fail closed: unknown shapes raise."""
from __future__ import annotations

import re


class ParseError(Exception):
    pass


def structs(header: str):
    """name -> body text for every `struct|class Name [: bases] {` ... `};` at namespace level (brace matched)"""
    out = {}
    for m in re.finditer(r"\b(struct|class)\s+(\w+)\s*(?::[^{;]*)?\{", header):
        i = m.end()
        depth = 1
        while depth and i < len(header):
            depth += header[i] == "{"
            depth -= header[i] == "}"
            i += 1
        out[m.group(2)] = header[m.end():i - 1]
    return out


def accessors(body: str):
    """[(name, kind, row, col)] for `double& name() { return data(i, j); }` / `double name() const {...}` / `double name() {...}`"""
    acc = []
    for m in re.finditer(r"double(&?)\s+(\w+)\(\)\s*(const)?\s*\{\s*return data\((\d+), (\d+)\);\s*\}", body):
        acc.append((m.group(2), "ref" if m.group(1) else ("const" if m.group(3) else "val"), int(m.group(4)), int(m.group(5))))
    return acc


def option_fields(body: str):
    return re.findall(r"double (\w+) = 0\.0;", body)


def ctor_orders(source: str):
    """Class -> [field, ...] from `Class::Class(const ClassOptions& options) : data(options.a, options.b) {}`"""
    out = {}
    for m in re.finditer(r"(\w+)::\1\(const \w+Options& options\) : data\(([^)]*)\) \{\}", source):
        args = [a.strip() for a in m.group(2).split(",") if a.strip()]
        if not all(a.startswith("options.") for a in args):
            raise ParseError(f"constructor of {m.group(1)}: {m.group(2)}")
        out[m.group(1)] = [a[len("options."):] for a in args]
    return out


def functions(source: str):
    """qualified name -> list of statements (strings) of every `T Class::func(args) [const] { ... }` whose body is
    straight-line assignments (the model / jacobian / covariance functions)"""
    out = {}
    for m in re.finditer(r"\n  ([\w:<>, ]+?)\s+((?:\w+::)+\w+)\(([^)]*)\)\s*(const)?\s*\{\n(.*?)\n  \}", source, re.S):
        name = m.group(2)
        body = re.sub(r"//[^\n]*", "", m.group(5))
        stmts = [re.sub(r"\s+", " ", s).strip() for s in body.split(";")]
        out[name] = {"args": [a.strip() for a in m.group(3).split(",") if a.strip()], "stmts": [s for s in stmts if s], "ret": m.group(1).strip()}
    return out


IDENT = re.compile(r"(?<![\w.:])([A-Za-z_]\w*)(?!\s*\()(?![\w:])")


def classify(stmts):
    """-> list of (kind, target, expr): kind in temp | local | entry | decl | return"""
    out = []
    for s in stmts:
        m = re.match(r"^double (_t\d+) = (.*)$", s)
        if m:
            out.append(("temp", m.group(1), m.group(2)))
            continue
        m = re.match(r"^double (\w+) = (.*)$", s)
        if m:
            out.append(("local", m.group(1), m.group(2)))
            continue
        m = re.match(r"^(jacobian|covariance)\((\d+), (\d+)\) = (.*)$", s)
        if m:
            out.append(("entry", (m.group(1), int(m.group(2)), int(m.group(3))), m.group(4)))
            continue
        m = re.match(r"^return (.*)$", s)
        if m:
            out.append(("return", None, m.group(1)))
            continue
        m = re.match(r"^([\w:]+) (jacobian|covariance)$", s)
        if m:
            out.append(("decl", m.group(2), m.group(1)))
            continue
        raise ParseError(f"unrecognised generated statement: {s!r}")
    return out


def used_names(expr: str):
    """bare identifiers of a generated C expression: temporaries and locals (inputs are accessed as state.state.x() etc.)"""
    e = re.sub(r"\b(?:state\.state|state|calibration|control|reading)\.\w+\(\)", " ", expr)
    e = re.sub(r"\b\d+\.?\d*(?:[eE][-+]?\d+)?\b", " ", e)
    return [x for x in IDENT.findall(e) if x not in C_NOT_NAMES]


# C library functions and <cmath> constants that sympy's ccode emits (e.g. sqrt(2) -> M_SQRT2): not temporaries
C_NOT_NAMES = {"dt", "state", "calibration", "control", "reading",
               "pow", "sin", "cos", "tan", "exp", "log", "sqrt", "asin", "acos", "atan", "atan2", "sinh", "cosh", "tanh", "asinh", "acosh", "atanh",
               "fabs", "floor", "ceil", "fmin", "fmax", "exp2", "expm1", "log2", "log10", "log1p", "cbrt", "hypot", "erf", "erfc", "tgamma", "lgamma",
               "M_PI", "M_E", "M_SQRT2", "M_SQRT1_2", "M_LN2", "M_LN10", "M_LOG2E", "M_LOG10E", "M_PI_2", "M_PI_4", "M_1_PI", "M_2_PI", "M_2_SQRTPI",
               "HUGE_VAL", "NAN", "INFINITY"}
