"""Shared by C01/C03/C08/C13/C15: jobs for tools/harness/glue_py.py, Coq case files for Model/GlueExec.v,
by-name oracle comparison."""
from __future__ import annotations

import re
from . import models as M

TOL = 1e-9

HEADER = """From Coq Require Import String List ZArith QArith.
From FV Require Import Base.Expr Model.GlueExec.
Import ListNotations.
"""


def pydef(d):
    return (f"(mkPydef {M.coq_str(d['dt'])} {M.coq_names(d['state'])} {M.coq_names(d['control'])} "
            f"{M.coq_names(d['calibration'])} {M.coq_assoc_expr(d['state_model'])})")


def prog(pr):
    pre = M.coq_list([f"({M.coq_str(n)}, {M.coq_expr(e)})" for n, e in pr["prefix"]])
    body = M.coq_list([M.coq_expr(e) for e in pr["body"]])
    return pre, body


def close(a, b, tol=TOL):
    if a is None or b is None:
        return a is None and b is None
    return abs(a - b) <= tol * max(1.0, abs(b))


def parse_pairs(out):
    m = re.search(r"=\s*\[(.*?)\]\s*:\s*list \(nat \* nat\)", out, re.S)
    if not m:
        return None
    return [(int(a), int(b)) for a, b in re.findall(r"\((\d+)(?:%nat)?,\s*(\d+)(?:%nat)?\)", m.group(1))]


def exportable(pr):
    return pr is not None and pr.get("prefix") is not None and pr.get("body") is not None


def run_cases(ctx, tag, defs_text, checks, shard=120):
    """checks: list of Coq terms of type nat (check_* applications).  Returns list of (index, code) failures or None."""
    items = []
    for s in range(0, len(checks), shard):
        body = ";\n  ".join(checks[s:s + shard])
        txt = HEADER + defs_text + f"\nDefinition results : list nat := [\n  {body}\n].\nEval vm_compute in (nonzero_indexed results 0).\n"
        items.append((f"{tag}_{s}", txt))
    res = ctx.coq_eval_many(items)
    bad = []
    for (t, _), (ok, out), s in zip(items, res, range(0, len(checks), shard)):
        if not ok:
            return None
        pairs = parse_pairs(out)
        if pairs is None:
            ctx.log("unparsable Coq output:", out[-400:])
            return None
        bad += [(s + i, c) for i, c in pairs]
    return bad
