"""Shared by C02/C07/C12/C13: compare the values computed by compiled generated C++ (tools/harness/cpp_gen.py)
with the exact oracle (by name) and with the Python filter."""
from __future__ import annotations

import math

from . import ekf as E, glue


def _mat(run, label, r, c):
    return [[run.get(f"{label}/{i}/{j}") for j in range(c)] for i in range(r)]


def _vec(run, label, n):
    return [run.get(f"{label}/{i}/0") for i in range(n)]


def has_nan(x):
    return any(v is None or (isinstance(v, float) and v != v) for row in x for v in (row if isinstance(row, list) else [row]))


def compare_with_oracle(ctx, job, cres, pres, pid):
    """C02: every generated function returns the symbolic value / derivative / noise entry in the slot named for it."""
    d = job["defn"]
    S, U, C = sorted(d["state"]), sorted(d["control"]), sorted(d["calibration"])
    n = len(S)
    rep = {"definition": d, "cse": job["cse"], "k": job.get("k")}
    if "error" in cres:
        ctx.violation(f"the C++ generator refused / crashed on a valid definition: {cres['kind']}", dict(rep, error=cres["error"]), key=f"cppgen-raises:{cres['kind']}")
        return False
    if not cres.get("compile_ok"):
        ctx.violation("generated C++ does not compile: " + cres.get("compile_err", "")[-600:].replace("\n", " | "),
                      dict(rep, compile_err=cres.get("compile_err"), header=cres.get("header"), source=cres.get("source")), key="cpp-does-not-compile")
        return False
    if not cres.get("run_ok"):
        ctx.violation("compiled generated filter crashed at run time", dict(rep, stdout=cres.get("stdout_tail")), key="cpp-crash")
        return False
    rr = cres.get("rerender")
    if rr is not None and not (rr.get("header_same") and rr.get("source_same")):
        ctx.violation("rendering header / source a second time from the same generator object gives a different text "
                      f"(header same: {rr.get('header_same')}, source same: {rr.get('source_same')}{', ' + rr['raised'] if rr.get('raised') else ''})",
                      dict(rep, rerender=rr), key="cpp-rerender-differs")
    for pi, (p, run) in enumerate(zip(job["points"], cres["runs"])):
        orc = pres["points"][pi]["oracle"] if pres and "points" in pres else {"_failed": "no oracle"}
        rp = dict(rep, inputs=p)

        def bad(what, observed, expected, key):
            ctx.violation(f"generated C++ ({'CSE' if job['cse'] else 'no CSE'}): {what}", dict(rp, observed=observed, expected=expected), key=key)
        # ---- named slots: Options constructor -> accessor / raw position
        for grp, names, vals in (("State", S, p["state"]), ("Control", U, p["control"]), ("Calibration", C, d["calibration_map"])):
            for i, nm in enumerate(names):
                if run.get(f"slot/{grp}/acc/{nm}") != vals[nm]:
                    bad(f"{grp} built from named options: accessor {nm}() returns {run.get(f'slot/{grp}/acc/{nm}')!r}, the value set under that name is {vals[nm]!r}",
                        run.get(f"slot/{grp}/acc/{nm}"), vals[nm], f"slot-{grp}")
                if run.get(f"slot/{grp}/raw/{i}") != vals[nm]:
                    bad(f"{grp} data({i},0) is {run.get(f'slot/{grp}/raw/{i}')!r}, the {i}-th name in order {nm!r} was set to {vals[nm]!r}",
                        run.get(f"slot/{grp}/raw/{i}"), vals[nm], f"slot-{grp}")
        for i, nm in enumerate(S):
            if run.get(f"slot/Covariance/acc/{nm}") != p["P"][i][i]:
                bad(f"Covariance accessor {nm}() returns {run.get(f'slot/Covariance/acc/{nm}')!r}, the variance of the {i}-th state is {p['P'][i][i]!r}",
                    run.get(f"slot/Covariance/acc/{nm}"), p["P"][i][i], "slot-Covariance")
        for i in range(n):
            if run.get(f"slot/StateDefault/{i}") != 0.0:
                bad("default State is not zero", run.get(f"slot/StateDefault/{i}"), 0.0, "default-state")
            for j in range(n):
                if run.get(f"slot/CovarianceDefault/{i}/{j}") != (1.0 if i == j else 0.0):
                    bad("default Covariance is not the identity", run.get(f"slot/CovarianceDefault/{i}/{j}"), float(i == j), "default-covariance")
        for key, rd in d["sensors"].items():
            for i, r in enumerate(sorted(rd)):
                v = p["readings"][key][r]
                if run.get(f"slot/{key}/acc/{r}") != v or run.get(f"slot/{key}/raw/{i}") != v:
                    bad(f"reading {key}.{r} built from named options is stored as acc={run.get(f'slot/{key}/acc/{r}')!r} raw[{i}]={run.get(f'slot/{key}/raw/{i}')!r}, set to {v!r}",
                        [run.get(f"slot/{key}/acc/{r}"), run.get(f"slot/{key}/raw/{i}")], v, "slot-Reading")
        if "_failed" in orc:
            continue
        # ---- functions
        def cmpv(label, vec, exp_by_name, names, what, key):
            if has_nan(vec):
                bad(f"{what}: an entry is never assigned / NaN: {vec}", vec, exp_by_name, key + "-unassigned")
                return
            for i, nm in enumerate(names):
                if not glue.close(vec[i], exp_by_name[nm], 1e-9) and abs(vec[i] - exp_by_name[nm]) > 1e-9 * max(1.0, max(abs(x) for x in exp_by_name.values())):
                    bad(f"{what}: slot {i} (named {nm!r}) holds {vec[i]!r}, the symbolic value is {exp_by_name[nm]!r}", vec, exp_by_name, key)
                    return

        def cmpm(label, mat, exp, rows, cols, what, key):
            if not rows or not cols:
                return
            if has_nan(mat):
                bad(f"{what}: an entry is never assigned / NaN", mat, exp, key + "-unassigned")
                return
            sc = max([1.0] + [abs(exp[r][c]) for r in rows for c in cols])
            for i, r in enumerate(rows):
                for j, c in enumerate(cols):
                    if abs(mat[i][j] - exp[r][c]) > 1e-9 * sc:
                        bad(f"{what}: entry ({i},{j}) = ({r!r},{c!r}) holds {mat[i][j]!r}, expected {exp[r][c]!r}", mat, exp, key)
                        return
        cmpv("model", _vec(run, "model", n), orc["state"], S, "ProcessModel::model", "cpp-model")
        cmpm("G", _mat(run, "G", n, n), orc["G"], S, S, "process_jacobian", "cpp-process-jacobian")
        cmpm("V", _mat(run, "V", n, len(U)), orc["V"], S, U, "control_jacobian", "cpp-control-jacobian")
        expM = {a: {b: (d["process_noise"][a] if a == b else 0.0) for b in U} for a in U}
        cmpm("M", _mat(run, "M", len(U), len(U)), expM, U, U, "process noise covariance()", "cpp-process-noise")
        cmpv("pm/state", _vec(run, "pm/state", n), orc["state"], S, "ExtendedKalmanFilter::process_model state", "cpp-predict-state")
        pc = _mat(run, "pm/cov", n, n)
        if has_nan(pc) or not E.mat_close(pc, orc["cov"]):
            bad("ExtendedKalmanFilter::process_model covariance is not G P G^T + V M V^T", pc, orc["cov"], "cpp-predict-cov")
        for key, rd in d["sensors"].items():
            R = sorted(rd)
            m = len(R)
            cmpv("h", _vec(run, f"h/{key}", m), orc["h"][key], R, f"{key} SensorModel::model", "cpp-sensor-model")
            cmpm("H", _mat(run, f"H/{key}", m, n), orc["H"][key], R, S, f"{key} SensorModel::jacobian", "cpp-sensor-jacobian")
            expQ = {a: {b: (d["sensor_noise"][key][a] if a == b else 0.0) for b in R} for a in R}
            cmpm("Q", _mat(run, f"Q/{key}", m, m), expQ, R, R, f"{key} SensorModel::covariance", "cpp-sensor-noise")
            ou = orc["updates"][key]
            if not E.well_conditioned(ou, p["P"]):
                continue
            near = ou["margin"] is not None and abs(ou["margin"]) < 1e-6
            if near:
                continue
            us = _vec(run, f"upd/{key}/state", n)
            uc = _mat(run, f"upd/{key}/cov", n, n)
            if has_nan(us) or not E.dict_close({s: us[i] for i, s in enumerate(S)}, ou["state"]):
                bad(f"sensor_model({key}) state is not the Kalman correction (or the unchanged state for a discarded reading)", us, ou["state"], "cpp-update-state")
            elif has_nan(uc) or not E.mat_close(uc, ou["cov"]):
                bad(f"sensor_model({key}) covariance is not P - K H P", uc, ou["cov"], "cpp-update-cov")
            if run.get(f"inn/{key}/before") != 0.0:
                bad("innovations<Reading>() has a value before any update", run.get(f"inn/{key}/before"), 0.0, "cpp-innovation-before")
            if run.get(f"inn/{key}/has") != 1.0:
                bad(f"stored innovation of {key} is missing after sensor_model (reading {'discarded' if ou['rejected'] else 'used'})", None, ou["innovation"], "cpp-innovation-missing")
            else:
                iv = _vec(run, f"inn/{key}", m)
                if has_nan(iv) or not E.dict_close({r: iv[i] for i, r in enumerate(R)}, ou["innovation"]):
                    bad(f"stored innovation of {key} is {iv}, z - h(x) = {ou['innovation']}", iv, ou["innovation"], "cpp-innovation")
    return True


def check_emitted_constants(ctx, job, cres):
    """the threshold and the maximum step the compiled filter uses are the configured binary64 values"""
    if "error" in cres:
        return
    for what, emitted, want in (("innovation_filtering", cres.get("emitted_k"), job.get("k") if job.get("k") is not None else 0.0),
                                ("max_dt_sec", cres.get("emitted_max_dt"), job.get("max_dt", 0.1))):
        try:
            val = float(emitted)
        except (TypeError, ValueError):
            ctx.violation(f"generated header does not define cpp::Config::{what} as a number: {emitted!r}", {"definition": job["defn"], what: want}, key=f"emitted-{what}")
            continue
        if val != float(want):
            ctx.violation(f"generated header defines cpp::Config::{what} = {emitted} but the configured value is {want!r} "
                          f"(difference {val - float(want):.3e}): the compiled filter decides with another constant than the Python filter",
                          {"definition": job["defn"], what: want, "emitted": emitted}, key=f"emitted-{what}")


def compare_with_python(ctx, job, cres, pres):
    """C07: the generated C++ filter and the Python filter agree step for step."""
    d = job["defn"]
    S = sorted(d["state"])
    n = len(S)
    check_emitted_constants(ctx, job, cres)
    if "error" in cres or not cres.get("compile_ok") or not cres.get("run_ok") or "error" in pres:
        return
    for pi, (p, run) in enumerate(zip(job["points"], cres["runs"])):
        py = pres["points"][pi]
        rp = {"definition": d, "cse": job["cse"], "k": job.get("k"), "inputs": p}
        pred = py["predict"]
        if "_raised" not in pred:
            cs = {s: run.get(f"pm/state/{i}/0") for i, s in enumerate(S)}
            cc = _mat(run, "pm/cov", n, n)
            if has_nan([list(cs.values())]) or not E.dict_close(cs, pred["state"]):
                ctx.violation(f"prediction: C++ state {cs} vs Python state {pred['state']} (same named inputs)", dict(rp, cpp=cs, python=pred["state"]), key="py-cpp-predict-state")
            elif has_nan(cc) or not E.mat_close(cc, pred["cov"]):
                ctx.violation("prediction: C++ and Python covariances differ", dict(rp, cpp=cc, python=pred["cov"]), key="py-cpp-predict-cov")
        for key, rd in d["sensors"].items():
            u = py["updates"].get(key)
            if u is None or "_raised" in u:
                continue
            orc = py["oracle"]
            ou = orc.get("updates", {}).get(key) if "_failed" not in orc else None
            if ou is None or not E.well_conditioned(ou, p["P"]) or (ou["margin"] is not None and abs(ou["margin"]) < 1e-6):
                continue
            R = sorted(rd)
            us = {s: run.get(f"upd/{key}/state/{i}/0") for i, s in enumerate(S)}
            uc = _mat(run, f"upd/{key}/cov", n, n)
            cpp_rej = all(us[s] == p["state"][s] for s in S) and uc == p["P"]
            if u["same_objects"] != cpp_rej and not (not u["same_objects"] and E.dict_close(us, u["state"]) and E.mat_close(uc, u["cov"])):
                ctx.violation(f"sensor {key}: Python {'discards' if u['same_objects'] else 'uses'} the reading, C++ {'discards' if cpp_rej else 'uses'} it (k={job.get('k')})",
                              dict(rp, sensor=key, cpp_state=us, python=u), key="py-cpp-decision")
                continue
            if has_nan([list(us.values())]) or not E.dict_close(us, u["state"]):
                ctx.violation(f"sensor {key}: C++ posterior state {us} vs Python {u['state']}", dict(rp, sensor=key, cpp=us, python=u["state"]), key="py-cpp-update-state")
            elif has_nan(uc) or not E.mat_close(uc, u["cov"]):
                ctx.violation(f"sensor {key}: C++ and Python posterior covariances differ", dict(rp, sensor=key, cpp=uc, python=u["cov"]), key="py-cpp-update-cov")
            if u["innovation"] is not None:
                if run.get(f"inn/{key}/has") != 1.0:
                    ctx.violation(f"sensor {key}: Python records the innovation, C++ has none stored", dict(rp, sensor=key), key="py-cpp-innovation-missing")
                else:
                    iv = {r: run.get(f"inn/{key}/{i}/0") for i, r in enumerate(R)}
                    if not E.dict_close(iv, u["innovation"]):
                        ctx.violation(f"sensor {key}: stored innovation C++ {iv} vs Python {u['innovation']}", dict(rp, sensor=key), key="py-cpp-innovation")


def template_cases(job, cres, pres):
    """C07 (T->C): rows for Model/CppEkfExec: the regenerated C++ template formulas evaluated exactly on the matrices the
    compiled generated functions returned, against what the compiled process_model / sensor_model returned."""
    d = job["defn"]
    S, U = sorted(d["state"]), sorted(d["control"])
    n, c = len(S), len(U)
    rows, src = [], []
    if "error" in cres or not cres.get("compile_ok") or not cres.get("run_ok") or "error" in pres:
        return rows, src
    q = E.qmat
    for pi, (p, run) in enumerate(zip(job["points"], cres["runs"])):
        G = _mat(run, "G", n, n)
        cov = _mat(run, "pm/cov", n, n)
        if c:
            V, Mm = _mat(run, "V", n, c), _mat(run, "M", c, c)
        else:
            V, Mm = [[0.0] for _ in range(n)], [[0.0]]      # zero column stands for the empty control block
        finite = lambda m: not has_nan(m) and all(abs(v) < 1e12 for row in m for v in row)  # noqa: E731
        if all(finite(m) for m in (G, V, Mm, cov, p["P"])):
            rows.append(f"check_cpp_predict {q(G)} {q(V)} {q(p['P'])} {q(Mm)} {q(cov)}")
            src.append((pi, "predict"))
        py = pres["points"][pi]
        orc = py["oracle"]
        for key, rd in d["sensors"].items():
            R = sorted(rd)
            m = len(R)
            ou = orc.get("updates", {}).get(key) if "_failed" not in orc else None
            if ou is None or not E.well_conditioned(ou, p["P"]):
                continue
            H, Qm = _mat(run, f"H/{key}", m, n), _mat(run, f"Q/{key}", m, m)
            hx = [[run.get(f"h/{key}/{i}/0")] for i in range(m)]
            z = [[p["readings"][key][r]] for r in R]
            x = [[p["state"][s]] for s in S]
            ux = [[run.get(f"upd/{key}/state/{i}/0")] for i in range(n)]
            uc = _mat(run, f"upd/{key}/cov", n, n)
            if run.get(f"inn/{key}/has") != 1.0:
                continue
            inn = [[run.get(f"inn/{key}/{i}/0")] for i in range(m)]
            if not all(finite(mm) for mm in (H, Qm, hx, ux, uc, inn)):
                continue
            rej = all(ux[i][0] == x[i][0] for i in range(n)) and uc == p["P"]
            rows.append(f"check_cpp_update {'true' if rej else 'false'} {q(x)} {q(p['P'])} {q(z)} {q(hx)} {q(H)} {q(Qm)} {q(ux)} {q(uc)} {q(inn)}")
            src.append((pi, "update:" + key))
    return rows, src


CPP_HEADER = """From Coq Require Import String List ZArith QArith.
From FV Require Import Base.ListMat Model.GlueExec Model.CppEkfExec.
Import ListNotations.
"""
CPP_CODES = {9: "a shape premise of the refinement theorem fails", 8: "a premise (shape / inverse certificate) of the refinement theorem fails",
             3: "posterior state differs", 4: "covariance differs", 5: "stored innovation differs"}


def run_template(ctx, jobs, cres_list, pres_list):
    rows, src = [], []
    for j, (job, c, p) in enumerate(zip(jobs, cres_list, pres_list)):
        r, s = template_cases(job, c, p)
        rows += r
        src += [(j,) + t for t in s]
    if not rows:
        return 0
    ctx.make(["Model/CppEkfExec.vo"])
    items, shard = [], 60
    for s0 in range(0, len(rows), shard):
        body = ";\n  ".join(rows[s0:s0 + shard])
        items.append((f"cpptpl_{s0}", CPP_HEADER + f"Definition results : list nat := [\n  {body}\n].\nEval vm_compute in (nonzero_indexed results 0).\n"))
    bad = []
    for (t, _), (ok, o), s0 in zip(items, ctx.coq_eval_many(items), range(0, len(rows), shard)):
        pairs = glue.parse_pairs(o) if ok else None
        if pairs is None:
            ctx.broken.append({"kind": "correspondence", "name": "C++ template model could not be evaluated", "detail": o[-600:]})
            return len(rows)
        bad += [(s0 + i, c) for i, c in pairs]
    if bad:
        i0, c0 = bad[0]
        j, pi, tag = src[i0]
        ctx.broken.append({"kind": "correspondence",
                           "name": f"regenerated C++ template formulas (exact, on the matrices the compiled functions returned) vs compiled process_model / sensor_model [{tag}]: {CPP_CODES.get(c0, c0)}",
                           "detail": f"{len(bad)} of {len(rows)} cases; first: definition={jobs[j]['defn']} cse={jobs[j]['cse']} point={jobs[j]['points'][pi]}"})
    return len(rows)


# ------------------------------------------------------------------------------------------ parse-back (structure)
def structure_cases(job, cres):
    """Coq boolean terms comparing Model/CppGen.v with the tables parsed from the generated text.
    Returns (list of (label, coq term)), raising cpptext.ParseError on unknown shapes."""
    from . import cpptext as T, models as M
    d = job["defn"]
    hs = T.structs(cres["header"])
    ct = T.ctor_orders(cres["source"])
    fns = T.functions(cres["source"])
    out = []

    def acc_table(body, kinds):
        a = [x for x in T.accessors(body) if x[1] in kinds]
        return a
    for cls, names in (("State", d["state"]), ("Control", d["control"]), ("Calibration", d["calibration"])):
        if not names:
            if cls in hs:
                out.append((f"{cls} emitted although the definition has none", "false"))
            continue
        if cls not in hs or f"{cls}Options" not in hs or cls not in ct:
            out.append((f"{cls} / {cls}Options / constructor missing from the generated code", "false"))
            continue
        acc = acc_table(hs[cls], ("ref",))
        accc = acc_table(hs[cls], ("const",))
        ok_cols = all(c == 0 for _, _, _, c in acc + accc) and [(n, r) for n, _, r, _ in acc] == [(n, r) for n, _, r, _ in accc]
        tab = M.coq_list([f"({M.coq_str(n)}, {r})" for n, _, r, _ in acc])
        out.append((f"{cls}: accessor table / Options fields / constructor order",
                    f"(check_container {M.coq_names(names)} {tab} {M.coq_names(T.option_fields(hs[cls + 'Options']))} {M.coq_names(ct[cls])} && {'true' if ok_cols else 'false'})"))
    # Covariance accessors on the diagonal
    cov = T.accessors(hs.get("Covariance", ""))
    S = sorted(d["state"])
    okc = [(n, r, c) for n, k, r, c in cov if k == "ref"] == [(s, i, i) for i, s in enumerate(S)]
    out.append(("Covariance: accessor of the i-th state name reads data(i, i)", "true" if okc else "false"))
    n, nu = len(d["state"]), len(d["control"])
    pm = "ExtendedKalmanFilterProcessModel::"

    def entries(fn):
        return [t for k, t, e in T.classify(fns[fn]["stmts"]) if k == "entry"]

    def ssa(fn):
        body = []
        for si, (k, t, e) in enumerate(T.classify(fns[fn]["stmts"])):
            if k in ("temp", "local"):
                body.append((t, T.used_names(e)))
            elif k == "entry":
                # matrix entries are not temporaries (the process-noise function stores symmetric entries twice):
                # only what they read is checked
                body.append((f"{t[0]}({t[1]},{t[2]})#{si}", T.used_names(e)))
        return M.coq_list([f"({M.coq_str(a)}, {M.coq_names(u)})" for a, u in body])
    for fn, (nr, nc), kind in ((pm + "process_jacobian", (n, n), "targets"), (pm + "control_jacobian", (n, nu), "targets"), (pm + "covariance", (nu, nu), "covers")):
        if fn not in fns:
            out.append((f"{fn} missing", "false"))
            continue
        tg = M.coq_list([f"({i}, {j})" for _, i, j in entries(fn)])
        out.append((f"{fn}: assignment targets", f"(check_{kind} {nr} {nc} {tg})"))
        out.append((f"{fn}: temporaries assigned once, before use", f"(check_ssa {ssa(fn)})"))
    fn = pm + "model"
    locs = [t for k, t, e in T.classify(fns[fn]["stmts"]) if k == "local"]
    ret = [e for k, t, e in T.classify(fns[fn]["stmts"]) if k == "return"]
    want_ret = "State({" + ", ".join(f".{s}={s}" for s in S) + "})"
    out.append((f"{fn}: one local per state in name order, returned by designated name",
                f"(check_locals {M.coq_names(d['state'])} {M.coq_names(locs)} && {'true' if ret and ret[0].rstrip(';').strip() == want_ret else 'false'})"))
    out.append((f"{fn}: temporaries assigned once, before use", f"(check_ssa {ssa(fn)})"))
    for key, rd in d["sensors"].items():
        Tn = key.title()
        R = sorted(rd)
        if Tn not in hs or Tn + "Options" not in hs or Tn not in ct:
            out.append((f"reading type {Tn} missing", "false"))
            continue
        acc = [(nm, r) for nm, k, r, c in T.accessors(hs[Tn]) if k == "val" and c == 0]
        tab = M.coq_list([f"({M.coq_str(a)}, {r})" for a, r in acc])
        out.append((f"{Tn}: accessor table / Options fields / constructor order",
                    f"(check_container {M.coq_names(list(rd))} {tab} {M.coq_names(T.option_fields(hs[Tn + 'Options']))} {M.coq_names(ct[Tn])})"))
        f1, f2, f3 = f"{Tn}SensorModel::model", f"{Tn}SensorModel::jacobian", f"{Tn}SensorModel::covariance"
        locs = [t for k, t, e in T.classify(fns[f1]["stmts"]) if k == "local"]
        ret = [e for k, t, e in T.classify(fns[f1]["stmts"]) if k == "return"]
        want_ret = f"{Tn}Options{{" + ", ".join(R) + "}"
        out.append((f"{f1}: one local per reading in name order, returned positionally in Options field order",
                    f"(check_locals {M.coq_names(list(rd))} {M.coq_names(locs)} && {'true' if ret and ret[0].strip() == want_ret else 'false'})"))
        out.append((f"{f1}: temporaries", f"(check_ssa {ssa(f1)})"))
        tg = M.coq_list([f"({i}, {j})" for _, i, j in entries(f2)])
        out.append((f"{f2}: assignment targets", f"(check_targets {len(R)} {n} {tg})"))
        out.append((f"{f2}: temporaries", f"(check_ssa {ssa(f2)})"))
        tg = M.coq_list([f"({i}, {j})" for _, i, j in entries(f3)])
        out.append((f"{f3}: assignment targets", f"(check_targets {len(R)} {len(R)} {tg})"))
    return out


STRUCT_HEADER = """From Coq Require Import String List Bool Arith.
From FV Require Import Base.Expr Model.CppGen Model.CppExec.
Import ListNotations.
Fixpoint falses (l : list bool) (i : nat) : list (nat * nat) := match l with [] => [] | b :: r => (if b then [] else [(i, 1)]) ++ falses r (S i) end.
"""


def run_structure(ctx, jobs, cres_list):
    from . import cpptext as T
    labels, terms = [], []
    for ji, (job, c) in enumerate(zip(jobs, cres_list)):
        if "error" in c or "header" not in c:
            continue
        try:
            for lab, term in structure_cases(job, c):
                labels.append((ji, lab))
                terms.append(term)
        except (T.ParseError, KeyError) as e:
            ctx.broken.append({"kind": "correspondence", "name": "generated C++ text has a shape the parser does not know", "detail": f"{type(e).__name__}: {e}; definition={job['defn']}"})
            return 0
    if not terms:
        return 0
    items = []
    shard = 150
    for s in range(0, len(terms), shard):
        items.append((f"struct_{s}", STRUCT_HEADER + "Definition rows : list bool := [\n " + ";\n ".join(terms[s:s + shard]) + "].\nEval vm_compute in (falses rows 0).\n"))
    rs = ctx.coq_eval_many(items)
    for (t, _), (ok, o), s in zip(items, rs, range(0, len(terms), shard)):
        pairs = glue.parse_pairs(o) if ok else None
        if pairs is None:
            ctx.broken.append({"kind": "correspondence", "name": "generator model could not be evaluated on the parsed tables", "detail": o[-600:]})
            return len(terms)
        for i, _ in pairs:
            ji, lab = labels[s + i]
            ctx.broken.append({"kind": "correspondence", "name": f"generator model (Model/CppGen.v) vs generated text: {lab}",
                               "detail": f"definition={jobs[ji]['defn']} cse={jobs[ji]['cse']}"})
    return len(terms)
