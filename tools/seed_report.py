"""Fold seeded/matrix.json into each seeded/<id>/meta.json ("caught_by", what the own-property check reported) and print
the cross-detection table (markdown) for DESIGN.md §7."""
import json
import os

VERIF = os.path.dirname(os.path.dirname(os.path.abspath(__file__)))
SEEDED = os.path.join(VERIF, "seeded")


def main():
    mx = json.load(open(os.path.join(SEEDED, "matrix.json")))
    rows = []
    missed = []
    for r in mx["results"]:
        sid = r["id"]
        own = sid[:3]
        caught = sorted(p for p, c in r.get("checks", {}).items() if c["exit"] != 0)
        mp = os.path.join(SEEDED, sid, "meta.json")
        meta = json.load(open(mp))
        oc = r.get("checks", {}).get(own, {})
        meta["checks"] = {"machinery_commit": mx.get("verif_head"), "repo_commit": mx.get("repo_head"), "how": "tools/seed_matrix.py: patch applied in a scratch worktree, every ./check <Cxx> --tier quick run against it",
                          "caught_by": caught, "own_property_check": {"exit": oc.get("exit"), "reports": oc.get("what", [])}}
        json.dump(meta, open(mp, "w"), indent=1)
        if own not in caught:
            missed.append(sid)
        concrete = bool(oc.get("what")) and not any("no-failing-input-found" in w for w in oc.get("what", [])[:1])
        rows.append((sid, own in caught, concrete, [p for p in caught if p != own], (oc.get("what") or [""])[0][:110]))
    print("| change | own check | concrete replay | also reported by | first report of the own check |")
    print("|---|---|---|---|---|")
    for sid, ok, concrete, others, what in rows:
        print(f"| {sid} | {'yes' if ok else '**NO**'} | {'yes' if concrete else 'no'} | {', '.join(others) or '-'} | {what.replace('|', '/')} |")
    print()
    print("missed by own check:", missed or "none")
    # false-alarm view: which checks fire on changes of OTHER properties (expected when the change really breaks them too)
    per = {}
    for r in mx["results"]:
        for p, c in r.get("checks", {}).items():
            if c["exit"] != 0 and p != r["id"][:3]:
                per.setdefault(p, []).append(r["id"])
    print("cross reports:", json.dumps(per, indent=1))


main()
