"""Cross-detection matrix: every seeded change x every property check (quick tier).

For each /verif/seeded/<id>/patch.diff a scratch worktree of /repo and a scratch copy of /verif are made under
/var/tmp/sm, the patch is applied to the worktree, all checks are run there with VERIF_REPO pointing at it, and both
are removed again.  Nothing is applied to /repo itself.  Result: /verif/seeded/matrix.json.

The machinery is copied once into a frozen snapshot first, so /verif can be edited while the matrix runs.

usage: seed_matrix.py [--jobs N] [--only ID,ID] [--props C01,C02]"""
import argparse
import json
import os
import shutil
import subprocess
import sys
import time
from concurrent.futures import ThreadPoolExecutor

VERIF = os.path.dirname(os.path.dirname(os.path.abspath(__file__)))
SEEDED = os.path.join(VERIF, "seeded")
ROOT = "/var/tmp/sm"
FROZEN = "/var/tmp/sm_frozen"
PROPS = [f"C{i:02d}" for i in range(1, 20)]


def sh(cmd, cwd=None, env=None, timeout=3600):
    r = subprocess.run(cmd, shell=True, cwd=cwd, env=env, capture_output=True, text=True, timeout=timeout)
    return r.returncode, r.stdout + r.stderr


def one(sid, props):
    base = os.path.join(ROOT, sid)
    wt, vf = os.path.join(base, "repo"), os.path.join(base, "verif")
    shutil.rmtree(base, ignore_errors=True)
    os.makedirs(base)
    out = {"id": sid, "checks": {}}
    try:
        rc, o = sh(f"git -C /repo worktree prune; git -C /repo worktree add -q --detach {wt} HEAD")
        if rc != 0:
            out["error"] = "worktree: " + o[-300:]
            return out
        rc, o = sh(f"git apply {SEEDED}/{sid}/patch.diff", cwd=wt)
        out["apply_exit"] = rc
        if rc != 0:
            out["error"] = "apply: " + o[-300:]
            return out
        sh(f"rsync -a {FROZEN}/ {vf}/")
        os.makedirs(os.path.join(vf, "replays"), exist_ok=True)
        env = dict(os.environ, VERIF_REPO=wt)
        for p in props:
            t0 = time.time()
            rc, o = sh(f"./check {p} --tier quick", cwd=vf, env=env)
            lines = [l for l in o.splitlines() if l.startswith("VIOLATION")]
            what = []
            for l in lines[:2]:
                try:
                    rp = l.split("replay=")[1].split()[0]
                    what.append(json.load(open(rp)).get("what", "")[:200] + (" [no-failing-input-found]" if l.rstrip().endswith("no-failing-input-found") else ""))
                except Exception:
                    what.append(l[:200])
            out["checks"][p] = {"exit": rc, "violation_lines": len(lines), "what": what, "wall_s": round(time.time() - t0, 1)}
    finally:
        sh(f"git -C /repo worktree remove --force {wt}")
        shutil.rmtree(base, ignore_errors=True)
    return out


def main():
    ap = argparse.ArgumentParser()
    ap.add_argument("--jobs", type=int, default=4)
    ap.add_argument("--only", default="")
    ap.add_argument("--props", default="")
    a = ap.parse_args()
    ids = sorted(d for d in os.listdir(SEEDED) if os.path.isfile(os.path.join(SEEDED, d, "patch.diff")))
    if a.only:
        ids = [i for i in ids if i in a.only.split(",")]
    props = a.props.split(",") if a.props else PROPS
    os.makedirs(ROOT, exist_ok=True)
    shutil.rmtree(FROZEN, ignore_errors=True)
    sh(f"rsync -a --exclude .git --exclude replays --exclude seeded {VERIF}/ {FROZEN}/")
    with ThreadPoolExecutor(max_workers=a.jobs) as ex:
        res = list(ex.map(lambda s: one(s, props), ids))
    path = os.path.join(SEEDED, "matrix.json")
    old = {}
    if os.path.exists(path) and (a.only or a.props):
        old = {r["id"]: r for r in json.load(open(path))["results"]}
    for r in res:
        if r["id"] in old and a.props:
            old[r["id"]]["checks"].update(r["checks"])
        else:
            old[r["id"]] = r
    json.dump({"verif_head": sh(f"git -C {VERIF} rev-parse --short HEAD")[1].strip(), "repo_head": sh("git -C /repo rev-parse --short HEAD")[1].strip(), "results": [old[k] for k in sorted(old)]}, open(path, "w"), indent=1)
    for r in res:
        caught = [p for p, c in r["checks"].items() if c["exit"] != 0]
        print(r["id"], "caught by", caught, r.get("error", ""))
    shutil.rmtree(ROOT, ignore_errors=True)
    shutil.rmtree(FROZEN, ignore_errors=True)


if __name__ == "__main__":
    sys.exit(main())
