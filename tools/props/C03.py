"""C03 — Python filter Jacobians are the true partial derivatives, laid out by name."""
from lib import glue, models as M
from lib.ctx import Ctx


def jac_cases(ctx, jobs, res, want_sensor_pred=True):
    """Coq cases (rational fragment) + oracle comparisons for G, V, H and sensor predictions.
    Returns (defs_text, checks, check_src)."""
    defs_text, checks, src = "", [], []
    for j, (job, r) in enumerate(zip(jobs, res)):
        d = job["defn"]
        if "error" in r:
            ctx.violation(f"python.compile_ekf refused / crashed on a valid definition: {r['kind']}",
                          {"definition": d, "cse": job["cse"], "error": r["error"]}, key=f"compile-raises:{r['kind']}")
            continue
        S = sorted(d["state"]); U = sorted(d["control"])
        for pi, (p, pr) in enumerate(zip(job["points"], r["points"])):
            rect = any(len(rd) >= 2 for rd in d["sensors"].values()) and len(d["calibration"]) >= 1
            ctx.count(["C03", d, job["cse"], p], rect,
                      sample={"state": S, "control": U, "calibration": sorted(d["calibration"]),
                              "sensors": {k: sorted(v) for k, v in d["sensors"].items()}, "cse": job["cse"], "H": pr.get("H")})

            def cmp(name, mat, oracle, rows, cols):
                if isinstance(mat, dict) and "_raised" in mat:
                    if all(oracle[rr][cc] is not None for rr in rows for cc in cols):
                        ctx.violation(f"{name} raised: {mat['_raised']}", {"definition": d, "cse": job["cse"], "inputs": p}, key=f"{name}-raises")
                    return
                if len(mat) != len(rows) or any(len(row) != len(cols) for row in mat):
                    ctx.violation(f"{name} has shape {len(mat)}x{len(mat[0]) if mat else 0}, expected {len(rows)}x{len(cols)}",
                                  {"definition": d, "inputs": p, "observed": mat}, key=f"{name}-shape")
                    return
                for ri, rr in enumerate(rows):
                    for ci, cc in enumerate(cols):
                        exp = oracle[rr][cc]
                        if exp is None:
                            continue
                        if not glue.close(mat[ri][ci], exp):
                            ctx.violation(f"{name}[{rr!r}, {cc!r}] = {mat[ri][ci]!r} but d({rr})/d({cc}) = {exp!r} (rows/cols in name order; cse={job['cse']})",
                                          {"definition": d, "cse": job["cse"], "inputs": p, "observed": mat, "expected_by_name": oracle,
                                           "row_names": rows, "col_names": cols}, key=f"{name}-entry")
                            return
            cmp("process_jacobian", pr["G"], pr["oracle_G"], S, S)
            if U:
                cmp("control_jacobian", pr["V"], pr["oracle_V"], S, U)
            for k in d["sensors"]:
                cmp(f"sensor_jacobian", pr["H"][k], pr["oracle_H"][k], sorted(d["sensors"][k]), S)
                if want_sensor_pred:
                    got, exp = pr["sensors"][k], pr["oracle_sensors"][k]
                    if "_raised" not in got:
                        for rd, e in exp.items():
                            if e is not None and not glue.close(got.get(rd), e):
                                ctx.violation(f"sensor {k!r} predicts {got.get(rd)!r} for reading {rd!r}, its expression evaluates to {e!r}",
                                              {"definition": d, "inputs": p, "observed": got, "expected": exp}, key="sensor-prediction")
        # ---- Coq
        if not d["rational"]:
            continue
        jp = r.get("jac_programs") or {}
        defs_text += f"Definition p{j} := {glue.pydef(d)}.\n"

        def dtab(t):
            return M.coq_list([f"({M.coq_str(rr)}, {M.coq_assoc_expr(row)})" for rr, row in t.items()])

        def add(which, tag, pr_, readings, dex, getm, st_only=False):
            if not glue.exportable(pr_) or any(e is None for row in dex.values() for e in row.values()):
                return
            nonlocal defs_text
            pre, body = glue.prog(pr_)
            defs_text += (f"Definition pre{j}{tag} : list (name * expr) := {pre}.\nDefinition body{j}{tag} : list expr := {body}.\n"
                          f"Definition dex{j}{tag} : list (name * list (name * expr)) := {dtab(dex)}.\n"
                          f"Definition rd{j}{tag} : list (name * expr) := {M.coq_assoc_expr(readings)}.\n")
            for pi, (p, pr) in enumerate(zip(job["points"], r["points"])):
                m = getm(pr)
                if isinstance(m, dict):
                    continue
                impl = M.coq_list([M.coq_list([M.coq_q(x) for x in row]) for row in m])
                if not m or not m[0]:
                    continue
                checks.append(f"check_jacobian {which} p{j} rd{j}{tag} pre{j}{tag} body{j}{tag} {M.coq_q(p['dt'])} "
                              f"{M.coq_assoc_q(p['state'])} {M.coq_assoc_q(p['control'])} {M.coq_assoc_q(d['calibration_map'])} "
                              f"({impl} : list (list Q)) dex{j}{tag}")
                src.append((j, pi, tag))
        if "D" in r:
            add(0, "g", jp.get("process"), {}, r["D"]["process"], lambda pr: pr["G"])
            if d["control"]:
                add(1, "v", jp.get("control"), {}, r["D"]["control"], lambda pr: pr["V"])
            for si, k in enumerate(sorted(d["sensors"])):
                add(2, f"h{si}", jp.get("sensor", {}).get(k), d["sensors"][k], r["D"]["sensor"][k], lambda pr, k=k: pr["H"][k])
                sp = r["sensor_programs"].get(k)
                if want_sensor_pred and glue.exportable(sp):
                    pre, body = glue.prog(sp)
                    defs_text += (f"Definition spre{j}_{si} : list (name * expr) := {pre}.\nDefinition sbody{j}_{si} : list expr := {body}.\n"
                                  f"Definition srd{j}_{si} : list (name * expr) := {M.coq_assoc_expr(d['sensors'][k])}.\n")
                    for pi, (p, pr) in enumerate(zip(job["points"], r["points"])):
                        if "_raised" in pr["sensors"][k]:
                            continue
                        checks.append(f"check_sensor p{j} srd{j}_{si} spre{j}_{si} sbody{j}_{si} {M.coq_assoc_q(p['state'])} "
                                      f"{M.coq_assoc_q(d['calibration_map'])} {M.coq_assoc_q(pr['sensors'][k])}")
                        src.append((j, pi, f"s{si}"))
    return defs_text, checks, src


def run(ctx: Ctx):
    n_defs, n_points = (24, 3) if ctx.tier == "quick" else (400, 6)
    ctx.translate("gen_layout")
    ctx.prove("Props/C03.v", ["Props/C03_deriv.v"])
    ctx.make(["Model/GlueExec.vo"])
    ctx.trusted += [
        "translator tools/translate/gen_layout.py (shapes, loop ranges, index expressions, call orders of the three Jacobian methods; what Matrix.jacobian is applied to)",
        "oracle D = sympy Matrix.jacobian / diff (partial derivative, row-major iteration of a Matrix): premise of the theorems; validated per instance against independently computed sympy.diff entries, by name, exactly (Coq, rational fragment) and numerically (all models)",
        "cse_contract premise as in C01; lambdify; float rounding at relative 1e-9",
    ]
    jobs = []
    fixed = M.function_coverage_definitions()
    for k in range(n_defs):
        if k < len(fixed):
            d = fixed[k]
            jobs.append({"defn": d, "cse": bool(k % 2), "decl": {"container": "list", "perm_seed": k}, "points": M.function_coverage_points(d), "want": ["sensors", "jacobians"]})
            continue
        d = M.gen_definition(ctx.rng, rational=(k % 2 == 0), min_sensors=1, max_sensors=2, max_states=4,
                             force_cal=(True if k % 3 else None), force_control=(True if k % 4 == 1 else None), force_bilinear=(k % 8 == 2))
        pts = [M.rnd_inputs(ctx.rng, d) for _ in range(n_points)]
        decl = {"container": ctx.rng.choice(["set", "list"]), "perm_seed": ctx.rng.randint(0, 10**6)}
        jobs.append({"defn": d, "cse": bool(k % 2 == 0 or k % 3 == 0), "decl": decl, "points": pts, "want": ["sensors", "jacobians"]})
    res = ctx.run_impl_jobs("glue_py.py", jobs)
    defs_text, checks, src = jac_cases(ctx, jobs, res)
    bad = glue.run_cases(ctx, "jac", defs_text, checks, shard=60) if checks else []
    if bad is None:
        ctx.broken.append({"kind": "correspondence", "name": "Coq Jacobian model could not be evaluated on the exported programs"})
    elif bad:
        i0, c0 = bad[0]
        j, pi, tag = src[i0]
        codes = {2: "un-flattened value differs from the implementation", 3: "un-flattened entries are not sympy.diff's by-name partial derivatives", 4: "un-flattened entries are not the values of the verified symbolic derivative (Theory/Deriv.v)"}
        ctx.broken.append({"kind": "correspondence", "name": f"py_jacobian / sensor block on exported program ({tag}): {codes.get(c0, c0)}",
                           "detail": f"{len(bad)} of {len(checks)}; first: definition={jobs[j]['defn']} cse={jobs[j]['cse']} point={jobs[j]['points'][pi]}"})
    shapes = {}
    for job in jobs:
        d = job["defn"]
        for k, rd in d["sensors"].items():
            key = f"{len(rd)}x{len(d['state'])}+{len(d['calibration'])}cal"
            shapes[key] = shapes.get(key, 0) + 1
    ctx.cov["input_distribution"] = {"definitions": n_defs, "coq_cases": len(checks), "sensor_jacobian_shapes(readings x states + calibrations)": shapes}
    ctx.cov["traces_validated_against_impl"] = len(checks)
    return ("random definitions with 1-2 sensors of 1-4 readings, 1-4 states, 0-3 controls, 0-3 calibrations (rectangular Jacobians), "
            "dyadic points; process / control / sensor Jacobians and sensor predictions compared by name with sympy.diff subs/evalf(30); "
            "rational models additionally un-flattened by the Coq model (regenerated index expressions) from the exported post-CSE blocks; "
            "non-trivial = a sensor with >= 2 readings and >= 1 calibration symbol; distinct by (definition, cse, point)")
