"""C19 — strapdown IMU reference model obeys rigid-body kinematics."""
from fractions import Fraction as F

from lib import models as M
from lib.ctx import Ctx

SYM = {"qw": "oriw", "qx": "orix", "qy": "oriy", "qz": "oriz", "cw": "coriw", "cx": "corix", "cy": "coriy", "cz": "coriz",
       "w1": r"\omega_{1}", "w2": r"\omega_{2}", "w3": r"\omega_{3}", "f1": "f_{1}", "f2": "f_{2}", "f3": "f_{3}",
       "b1": "f_bias_{1}", "b2": "f_bias_{2}", "b3": "f_bias_{3}", "p1": "x_{A}_{1}", "p2": "x_{A}_{2}", "p3": "x_{A}_{3}",
       "v1": r"\dot{x}_{A}_{1}", "v2": r"\dot{x}_{A}_{2}", "v3": r"\dot{x}_{A}_{3}", "a1": r"\ddot{x}_{A}_{1}", "a2": r"\ddot{x}_{A}_{2}",
       "a3": r"\ddot{x}_{A}_{3}", "yaw_rate": r"\dot{\psi}", "pitch_rate": r"\dot{\theta}", "roll_rate": r"\dot{\phi}", "g": "g"}
STATE = ["qw", "qx", "qy", "qz", "yaw_rate", "pitch_rate", "roll_rate", "p1", "p2", "p3", "v1", "v2", "v3", "a1", "a2", "a3"]
CONTROL = ["w1", "w2", "w3", "f1", "f2", "f3"]
CAL = ["g", "cw", "cx", "cy", "cz", "b1", "b2", "b3"]


def qmul(p, q):
    a1, b1, c1, d1 = p
    a2, b2, c2, d2 = q
    return (a1 * a2 - b1 * b2 - c1 * c2 - d1 * d2, a1 * b2 + b1 * a2 + c1 * d2 - d1 * c2,
            a1 * c2 - b1 * d2 + c1 * a2 + d1 * b2, a1 * d2 + b1 * c2 - c1 * b2 + d1 * a2)


def kinematics(v, dt):
    """the property's closed form, in exact rationals, by name"""
    ori = (v["qw"], v["qx"], v["qy"], v["qz"])
    q = qmul(ori, (v["cw"], v["cx"], v["cy"], v["cz"]))
    qc = (q[0], -q[1], -q[2], -q[3])
    n2 = sum(x * x for x in q)
    rot = lambda x, y, z: qmul(qmul(q, (0, x, y, z)), qc)[1:]
    rates = rot(v["w1"], v["w2"], v["w3"])
    sf = rot(v["f1"] - v["b1"], v["f2"] - v["b2"], v["f3"] - v["b3"])
    acc = [sf[0] / n2, sf[1] / n2, sf[2] / n2 - v["g"]]
    dq = qmul(ori, (0, v["w1"], v["w2"], v["w3"]))
    out = {"roll_rate": rates[0], "pitch_rate": rates[1], "yaw_rate": rates[2]}
    for i in range(3):
        out[f"a{i+1}"] = acc[i]
        out[f"v{i+1}"] = v[f"v{i+1}"] + acc[i] * dt
        out[f"p{i+1}"] = v[f"p{i+1}"] + v[f"v{i+1}"] * dt + acc[i] * dt * dt / 2
    for n, comp in zip(("qw", "qx", "qy", "qz"), dq):
        out[n] = v[n] + comp * dt / 2
    return out


def run(ctx: Ctx):
    n = 40 if ctx.tier == "quick" else 1500
    ctx.translate("gen_strapdown")
    ctx.prove("Props/C19.v")
    ctx.trusted += [
        "translator gen_strapdown.py: the sympy expressions of the imported module are exported structurally (Add/Mul/integer Pow/Rational; Float as its exact binary value) into Coq functions over R",
        "theorems over Coq's R by ring / field: depend on the standard real-number axioms listed by Print Assumptions",
        "the compiled Python model is compared at random rational points with the closed-form kinematics evaluated in exact fractions (C01's mechanism); float rounding at relative 1e-9",
    ]
    pts, exp = [], []
    for i in range(n):
        r = lambda: F(ctx.rng.randint(-48, 48), 16)
        v = {k: r() for k in STATE + CONTROL + CAL}
        if i % 3 == 0:
            # unit-ish orientation, identity calibration
            v.update(cw=F(1), cx=F(0), cy=F(0), cz=F(0))
        while sum(x * x for x in qmul((v["qw"], v["qx"], v["qy"], v["qz"]), (v["cw"], v["cx"], v["cy"], v["cz"]))) == 0:
            v["qw"] += 1
        dt = F(ctx.rng.choice([1, 2, 5, 10]), 100)
        pts.append({"cse": bool(i % 2), "dt": float(dt), "state": {SYM[k]: float(v[k]) for k in STATE},
                    "control": {SYM[k]: float(v[k]) for k in CONTROL}, "calibration": {SYM[k]: float(v[k]) for k in CAL}})
        vv = dict(v)
        exp.append(kinematics(vv, F(float(dt))))
    # group by calibration to limit compilations: reuse 4 calibration sets
    for i, p in enumerate(pts):
        base = pts[i % 4]["calibration"] if i >= 4 else p["calibration"]
        if i >= 4:
            p["calibration"] = dict(base)
            v = {k: F(p["state"][SYM[k]]) for k in STATE}
            v.update({k: F(p["control"][SYM[k]]) for k in CONTROL})
            v.update({k: F(base[SYM[k]]) for k in CAL})
            exp[i] = kinematics(v, F(p["dt"]))
    res = ctx.run_impl("strap_py.py", {"points": pts}, timeout=3000)
    if isinstance(res, dict) and res.get("results_stable") is False:
        ctx.violation("a state returned by the compiled strapdown model changed when the model was evaluated again (results share storage): "
                      "a trajectory kept by the caller is silently overwritten", {"points": pts[:3]}, key="model-result-unstable")
    if "_error" in res:
        ctx.broken.append({"kind": "correspondence", "name": "strapdown harness", "detail": res["_error"]})
    else:
        for p, e, got in zip(pts, exp, res["results"]):
            nonunit = abs(sum(p["state"][SYM[k]] ** 2 for k in ("qw", "qx", "qy", "qz")) - 1) > 1e-6
            ctx.count(["C19", p], nonunit, sample={"dt": p["dt"], "orientation": [p["state"][SYM[k]] for k in ("qw", "qx", "qy", "qz")], "cse": p["cse"]})
            if "_raised" in got:
                ctx.violation(f"compiled strapdown model raised: {got['_raised']}", {"point": p}, key="strapdown-raises")
                continue
            sc = max([1.0] + [abs(float(x)) for x in e.values()])
            for k, val in e.items():
                if abs(got[SYM[k]] - float(val)) > 1e-9 * sc:
                    ctx.violation(f"compiled strapdown model: {k} ({SYM[k]}) = {got[SYM[k]]!r}, rigid-body kinematics gives {float(val)!r} (cse={p['cse']})",
                                  {"point": p, "observed": got, "expected": {SYM[x]: float(y) for x, y in e.items()}}, key=f"strapdown:{k[:1]}")
                    break
    ctx.cov["input_distribution"] = {"points": n, "calibration_sets": 4, "non_unit_orientation_points": sum(1 for p in pts if abs(sum(p["state"][SYM[k]] ** 2 for k in ("qw", "qx", "qy", "qz")) - 1) > 1e-6)}
    ctx.cov["traces_validated_against_impl"] = n
    return ("random rational orientations (unit and non-unit), mounting calibrations (identity and general), biases, gravity, gyro / accelerometer "
            "samples, dt in {0.01..0.1}, both CSE settings: the compiled Python model against the closed-form kinematics in exact fractions; "
            "non-trivial = non-unit orientation; distinct by point")
