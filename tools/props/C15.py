"""C15 — code generation is deterministic."""
from lib import cppjobs, models as M
from lib.ctx import Ctx


def case_twins(rng, d):
    """a definition whose symbols differ only by case within each group: ties under any case-insensitive sort key"""
    pairs = [("v", "V"), ("ab", "aB"), ("x1", "X1"), ("q_", "Q_"), ("f", "F"), ("Ab", "AB"), ("k2", "K2"), ("zed", "Zed")]
    rng.shuffle(pairs)
    flat = [n for p in pairs for n in (p if rng.random() < 0.5 else p[::-1])]
    f, k = {}, 0
    for grp in (d["state"], d["control"], d["calibration"]):
        if len(grp) % 2 == 1 and k % 2 == 1:
            k += 1
        for sym in grp:
            f[sym] = flat[k]
            k += 1
        if k % 2 == 1:
            k += 1
    return M.rename_definition(d, f)


def run(ctx: Ctx):
    n_defs, n_seeds = (6, 4) if ctx.tier == "quick" else (40, 12)
    ctx.translate("gen_layout")
    ctx.translate("gen_cppgen")
    ctx.translate("gen_itersites")
    ctx.prove("Props/C15.v")
    ctx.trusted += [
        "translators gen_cppgen.py / gen_layout.py (every layout list is sorted(list(..), key=lambda x: x.name); readings and sensors sorted) and gen_itersites.py (AST audit of all iteration sites of cpp.py, ast_fragments.py, ast_tools.py, python.py with a reasoned whitelist)",
        "partial: hash-seed independence of sympy's own cse / simplify / ccode output is outside the model - observed by generating under several PYTHONHASHSEED values, declaration orders and containers, repeatedly in one interpreter and after another model; symbols are assumed distinct as strings",
    ]
    base = cppjobs.make_jobs(ctx, n_defs, min_sensors=1, max_sensors=2, ks=(None,), max_states=4)
    for i, j in enumerate(base):
        if i % 2 == 1:
            j["defn"] = case_twins(ctx.rng, M.gen_definition(ctx.rng, rational=True, min_sensors=1, max_sensors=1, max_states=4, max_controls=2, max_cal=2,
                                                             force_control=True))
            j["defn"]["state"] = j["defn"]["state"]
        j["cse"] = True if i % 3 else False
    other = M.gen_nested_definition(ctx.rng)
    runs = {}
    for seed in range(n_seeds):
        jobs = []
        for bi, j in enumerate(base):
            decl = {"container": ["set", "list"][(seed + bi) % 2], "perm_seed": ctx.rng.randint(0, 10**6)}
            jobs.append(dict(j, decl=decl, only_generate=True, repeat=2, warmup_defn=(other if seed % 2 else None)))
        # every other interpreter also runs under a simulated calendar date / clock
        env = {"PYTHONHASHSEED": str(seed * 7919 + 1)}
        if seed % 2 == 1:
            env["FV_FAKE_DATE"] = ["2031-03-14", "2027-11-02"][(seed // 2) % 2]
        res = ctx.run_impl_jobs("cpp_gen.py", jobs, env=env, shards=min(8, len(jobs)))
        for bi, r in enumerate(res):
            runs.setdefault(bi, []).append((seed, dict(jobs[bi]["decl"], simulated_date=env.get("FV_FAKE_DATE", "today")), r))
    for bi, lst in runs.items():
        d = base[bi]["defn"]
        ties = len({x.lower() for x in d["state"] + d["control"] + d["calibration"]}) < len(d["state"] + d["control"] + d["calibration"])
        ref = None
        for seed, decl, r in lst:
            ctx.count(["C15", d, seed, decl], ties, sample={"states": d["state"], "controls": d["control"], "seed": seed, "decl": decl,
                                                             "header_sha": (r.get("header_sha") or "")[:16]})
            if "error" in r:
                ctx.violation(f"generation failed under PYTHONHASHSEED / declaration variant: {r['kind']}", {"definition": d, "seed": seed, "decl": decl, "error": r["error"]}, key="gen-raises")
                continue
            if r.get("config_unchanged") is False:
                ctx.violation(f"generation changed the cpp.Config object it was given: {r.get('config_after')}",
                              {"definition": d, "seed": seed, "decl": decl, "config_after": r.get("config_after")}, key="config-mutated")
            if any(s != r["shas"][0] for s in r["shas"]):
                ctx.violation("generating the same definition again in the same interpreter (also after another model, and twice with one Config object) gives different C++ text",
                              {"definition": d, "seed": seed, "decl": decl, "shas": r["shas"]}, key="same-process-differs")
            key = (r["header_sha"], r["source_sha"], tuple(r["py_arglist"]), str(r["py_readings"]), r.get("py_values"))
            if ref is None:
                ref = (key, seed, decl)
            elif key != ref[0]:
                what = "C++ header/source" if key[:2] != ref[0][:2] else ("Python variable layout" if key[2:4] != ref[0][2:4] else
                                                                          "values computed by the Python filter (Jacobians / predictions / noise at one fixed point)")
                ctx.violation(f"{what} differs between two generations of the same definition (hash seed {ref[1]} / {seed}, declaration {ref[2]} / {decl})",
                              {"definition": d, "a": {"seed": ref[1], "decl": ref[2], "arglist": ref[0][2]}, "b": {"seed": seed, "decl": decl, "arglist": key[2]}},
                              key=f"differs:{what}")
            S = sorted(d["state"]) ; C = sorted(d["calibration"]); U = sorted(d["control"])
            if r["py_arglist"] != [d["dt"]] + S + C + U:
                ctx.violation(f"Python argument list {r['py_arglist']} is not dt + name-sorted state, calibration, control", {"definition": d, "seed": seed, "decl": decl}, key="py-arglist")
    ctx.cov["input_distribution"] = {"definitions": n_defs, "hash_seeds": n_seeds, "generations": n_defs * n_seeds * 3, "case_tie_definitions": n_defs // 2}
    ctx.cov["programs"] = n_defs * n_seeds
    return ("each definition generated under several PYTHONHASHSEED values with alternating set/list containers and shuffled declaration orders "
            "(symbols, state-model dict, sensors, readings, noise dicts), three times per interpreter (and after an unrelated model): sha256 of header "
            "and source, Python argument list and reading orders must coincide; half of the definitions use names that differ only by case; "
            "non-trivial = definition with case-only name differences; distinct by (definition, seed, declaration)")
