"""C11 — tick = fold readings in order, hold at last reading, report at output time."""
from lib import rt
from lib.ctx import Ctx


def spec_trace(h):
    """Independent re-statement of the property in Python: expected sequence of (kind) calls per tick,
    ignoring step sizes (those are C10's): for each reading: predictions..., update(key); then predictions.
    Used by the search to localise a failing history."""
    return None


def check_history_shape(h, obs, python: bool):
    """Property predicate on observed traces: per tick, the returned trace extends the held trace by, for
    each reading in the order given, zero or more predictions whose steps sum to (ts - held time) followed
    by exactly that reading's update; then predictions summing to (out - last held time); the held trace
    after the tick is the returned trace up to and including the last update (unchanged if no readings)."""
    cur = float.fromhex(h["start"])
    held = []
    for ti, (t, o) in enumerate(zip(h["ticks"], obs)):
        need_ctl = h["control_size"] > 0 and not t["control"]
        if o is None:
            if need_ctl:
                continue
            return ti, "tick raised although control was supplied / not needed"
        if need_ctl:
            return ti, "a model with control inputs was ticked without control"
        ret = rt.expand(o["ret"])
        if ret[:len(held)] != held:
            return ti, "returned estimate does not extend the held estimate (a previous tick changed what is held)"
        seg = ret[len(held):]
        i = 0
        time = cur
        new_held = list(held)
        for ts, key in (t["readings"] or []):
            tsf = float.fromhex(ts)
            s = 0.0
            while i < len(seg) and seg[i][0] == 0:
                s += seg[i][1]; i += 1
            if abs(s - (tsf - time)) > 1e-8 + 1e-12 * abs(tsf):
                return ti, f"estimate was not propagated to the reading's timestamp {tsf!r} before its update (moved {s!r} from {time!r})"
            if i >= len(seg) or seg[i][0] != 1 + key:
                return ti, f"reading {key} at {tsf!r} was not applied in the order given"
            i += 1
            time = tsf
            new_held = held + seg[:i]
        s = sum(v for k, v in seg[i:])
        if any(k != 0 for k, v in seg[i:]):
            return ti, "an update was applied after the readings given"
        outf = float.fromhex(t["out"])
        if abs(s - (outf - time)) > 1e-8 + 1e-12 * abs(outf):
            return ti, f"reported estimate is not at the requested output time {outf!r} (moved {s!r} from {time!r})"
        if python and o.get("held") is not None:
            if rt.expand(o["held"]) != new_held or float.fromhex(o["held_t"]) != time:
                return ti, "held estimate after the tick is not the estimate at the last reading"
        held, cur = new_held, time
    return None


def run(ctx: Ctx):
    n_hist = 300 if ctx.tier == "quick" else 6000
    ctx.translate("gen_runtime")
    ctx.translate("gen_runtime_cpp")
    ctx.prove("Props/C11.v")
    ctx.make(["Model/RuntimeExec.vo"])
    ctx.trusted += [
        "translator tools/translate/py2v.py + gen_runtime.py (Python ast -> Gallina) for ManagedFilter.tick/_process_model",
        "hand model Model/RuntimeCpp.v of the four tick overloads of ManagedFilter.h, tied by bit-exact call traces of the compiled header with a recording Impl (all four control x calibration Tag combinations)",
        "the wrapped filter is abstract (Section variables pm/upd); sensor_reading._data caching is modelled as a pure default",
        "PrimFloat, vm_compute",
    ]
    hs = rt.gen_histories(ctx.rng, n_hist, allow_missing_control=True)
    dist = {"ticks": 0, "with_readings": 0, "none_readings": 0, "empty_readings": 0, "missing_control": 0, "out_of_order": 0}
    for h in hs:
        for t in h["ticks"]:
            dist["ticks"] += 1
            if t["readings"] is None:
                dist["none_readings"] += 1
            elif not t["readings"]:
                dist["empty_readings"] += 1
            else:
                dist["with_readings"] += 1
                tsl = [float.fromhex(x) for x, _ in t["readings"]]
                if tsl != sorted(tsl):
                    dist["out_of_order"] += 1
            if h["control_size"] > 0 and not t["control"]:
                dist["missing_control"] += 1
    ctx.cov["input_distribution"] = dist

    res = ctx.run_impl("rt_py.py", {"histories": hs})
    py_obs = None if "_error" in res else res["results"]
    if py_obs is None:
        ctx.broken.append({"kind": "correspondence", "name": "python runtime harness", "detail": res["_error"]})
    # C++: only well-formed uses exist (the overload without control does not exist for a Tag with control)
    cpp_hs = []
    for i, h in enumerate(hs):
        c = h["control_size"] > 0
        h2 = dict(h, ticks=[dict(t, control=c) for t in h["ticks"]])
        cpp_hs.append((h2, c, bool(i & 1)))
    ok, cpp_obs = rt.run_cpp(ctx, cpp_hs)
    if not ok:
        ctx.broken.append({"kind": "correspondence", "name": "ManagedFilter.h does not compile/run with the recording Impl", "detail": str(cpp_obs)})
        cpp_obs = None

    def oracle(name, hlist, obs, python):
        for h, o in zip(hlist, obs):
            nt = sum(1 for t in h["ticks"] if t["readings"]) >= 1 and len(h["ticks"]) >= 2
            ctx.count([name, h], nontrivial=nt, sample={"runtime": name, "history": h, "observed_first_tick": o[0] if o else None})
            bad = check_history_shape(h, o, python)
            if bad:
                ti, why = bad
                ctx.violation(f"{name} runtime, tick #{ti} of a {len(h['ticks'])}-tick history: {why}",
                              {"runtime": name, "history": h, "observed": o, "failing_tick": ti},
                              key=f"{name}:{why[:40]}")
    if py_obs is not None:
        oracle("python", hs, py_obs, True)
    if cpp_obs is not None:
        oracle("c++", [x[0] for x in cpp_hs], cpp_obs, False)
        # same sequence of filter calls for the same history
        if py_obs is not None:
            for h, po, co in zip(hs, py_obs, cpp_obs):
                if any(p is None for p in po):
                    continue
                if [p["ret"] for p in po] != [c["ret"] for c in co]:
                    ctx.violation("Python and C++ runtimes issue different filter calls for the same history",
                                  {"history": h, "python": po, "cpp": co}, key="py-vs-cpp-trace")
    if py_obs is not None:
        bad = rt.coq_compare(ctx, "py", hs, py_obs)
        if bad is None:
            ctx.broken.append({"kind": "correspondence", "name": "regenerated Python model could not be evaluated"})
        elif bad:
            ctx.broken.append({"kind": "correspondence", "name": "regenerated py_tick (PrimFloat) vs runtime.ManagedFilter",
                               "detail": f"{len(bad)} histories disagree, first: {hs[bad[0]]} observed {py_obs[bad[0]]}"})
    if cpp_obs is not None:
        bad = rt.coq_compare(ctx, "cpp", [x[0] for x in cpp_hs], cpp_obs)
        if bad is None:
            ctx.broken.append({"kind": "correspondence", "name": "C++ hand model could not be evaluated"})
        elif bad:
            ctx.broken.append({"kind": "correspondence", "name": "hand model cpp_tick (PrimFloat) vs compiled ManagedFilter.h",
                               "detail": f"{len(bad)} histories disagree, first: {cpp_hs[bad[0]][0]} observed {cpp_obs[bad[0]]}"})
    ctx.cov["traces_validated_against_impl"] = (len(hs) if py_obs is not None else 0) + (len(hs) if cpp_obs is not None else 0)
    return ("random multi-tick histories (1-5 ticks, readings None/empty/1-4 with timestamps in any order relative to each other, "
            "the held time and the output time; control present/missing; all four C++ Tag combinations) run with a call-recording "
            "filter on runtime.ManagedFilter and the compiled ManagedFilter.h; non-trivial = at least two ticks and at least one "
            "tick with readings; distinct by (runtime, history)")
