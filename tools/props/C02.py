"""C02 — generated C++ computes the symbolic model, its derivatives and noise matrices."""
from lib import cppcheck, cppjobs, glue
from lib.ctx import Ctx


def run(ctx: Ctx):
    n = 16 if ctx.tier == "quick" else 300
    ctx.translate("gen_cppgen")
    ctx.prove("Props/C02.v")
    ctx.make(["Model/CppExec.vo"])
    ctx.trusted += [
        "translator gen_cppgen.py: pins (fail-closed patterns on the unparsed AST) which list every accessor / Options / constructor / assignment loop of ast_fragments.py and cpp.py ranges over, the index expressions, diff arguments, substitution sets, sortedness of every layout list, CSE emission order",
        "Model/CppGen.v is a hand model of the emission layout; tied on every run by parsing the generated header/source back (tools/lib/cpptext.py) and comparing tables inside Coq",
        "values: sympy diff / subs / ccode are oracles; checked by compiling the generated code (g++ -std=c++20, Eigen stand-in tools/cpp/shim/Eigen/Dense; real Eigen not installed) and comparing every function, entry by entry and by name, with exact sympy values; 'it compiles' is an observation of g++",
    ]
    jobs = cppjobs.make_jobs(ctx, n, min_sensors=0, max_sensors=3, function_coverage=True, tiny_sensor_noise=True)
    for j in jobs:
        j["keep_text"] = True
    pres = ctx.run_impl_jobs("ekf_py.py", jobs)
    cres = ctx.run_impl_jobs("cpp_gen.py", jobs, timeout=3000)
    combos, sens = {}, {}
    for job, c, p in zip(jobs, cres, pres):
        d = job["defn"]
        combos[str(job["combo"])] = combos.get(str(job["combo"]), 0) + 1
        sens[len(d["sensors"])] = sens.get(len(d["sensors"]), 0) + 1
        for pt in job["points"]:
            ctx.count(["C02", d, job["cse"], pt], len(d["state"]) >= 2,
                      sample={"states": sorted(d["state"]), "controls": sorted(d["control"]), "calibration": sorted(d["calibration"]),
                              "sensors": {k: sorted(v) for k, v in d["sensors"].items()}, "cse": job["cse"], "header_sha": c.get("header_sha")})
        cppcheck.compare_with_oracle(ctx, job, c, p if "error" not in p else None, "C02")
    # ---- the model-only generator (cpp.compile: struct State / Control / Calibration and Model::model, no filter), on the
    # same definitions and points; every other one declared over symbols that carry an assumption (real)
    n_plain = 8 if ctx.tier == "quick" else 80
    src = [i for i, (job, p) in enumerate(zip(jobs, pres)) if "error" not in p]
    src = src[::max(1, len(src) // n_plain)][:n_plain]
    pjobs = [dict(jobs[i], plain_model={"assumptions": ({"real": True} if t % 2 else None)}, keep_text=False) for t, i in enumerate(src)]
    for i, pj, c in zip(src, pjobs, ctx.run_impl_jobs("cpp_gen.py", pjobs, timeout=3000)):
        d, rep = pj["defn"], {"definition": pj["defn"], "cse": pj["cse"], "generator": "cpp.Model (model only)", "assumptions": pj["plain_model"]["assumptions"]}
        S = sorted(d["state"])
        if "error" in c:
            if c.get("kind") != "SlowCompile":
                ctx.violation(f"the model-only C++ generator refused / crashed on a valid definition: {c['kind']}", dict(rep, error=c["error"]), key=f"cppgen-plain-raises:{c['kind']}")
            continue
        if not c.get("compile_ok"):
            ctx.violation("generated C++ (model only) does not compile: " + c.get("compile_err", "")[-600:].replace("\n", " | "),
                          dict(rep, compile_err=c.get("compile_err"), header=c.get("header"), source=c.get("source")), key="cpp-plain-does-not-compile")
            continue
        if not c.get("run_ok"):
            ctx.violation("compiled generated model crashed at run time", rep, key="cpp-plain-crash")
            continue
        for pi, (pt, run) in enumerate(zip(pj["points"], c["runs"])):
            orc = pres[i]["points"][pi]["oracle"]
            ctx.count(["C02-plain", d, pj["cse"], pj["plain_model"], pt], len(S) >= 2)
            if "_failed" in orc:
                continue
            for k_, nm in enumerate(S):
                got, acc, exp = run.get(f"model/{k_}/0"), run.get(f"plainacc/{nm}"), orc["state"][nm]
                if got is None or acc is None or got != got or not glue.close(got, exp, 1e-9) or acc != got:
                    ctx.violation(f"generated C++ (model only, {'CSE' if pj['cse'] else 'no CSE'}{', symbols declared real' if pj['plain_model']['assumptions'] else ''}): "
                                  f"Model::model slot {k_} (named {nm!r}) holds {got!r} (accessor {acc!r}), the symbolic value is {exp!r}",
                                  dict(rep, inputs=pt, observed={s_: run.get(f'model/{q}/0') for q, s_ in enumerate(S)}, expected=orc["state"]), key="cpp-plain-model")
                    break
    nstruct = cppcheck.run_structure(ctx, jobs, cres)
    ctx.cov["input_distribution"] = {"filters": n, "control_x_calibration": combos, "sensors_per_filter": sens, "structure_cases": nstruct}
    ctx.cov["programs"] = n
    ctx.cov["traces_validated_against_impl"] = nstruct
    return ("random definitions over all four control x calibration combinations, 0-3 sensors of 1-3 readings, both CSE settings, identifier-safe "
            "adversarial names; generated header+source compiled and every generated function (model, both Jacobians, process noise, prediction, "
            "per-sensor model / Jacobian / noise / update, stored innovation, named slots and defaults) compared with exact sympy values by name; "
            "accessor / Options / constructor tables and assignment targets parsed back and compared with the Coq generator model; "
            "non-trivial = >= 2 states; distinct by (definition, cse, point)")
