"""C01 — compiled Python model = the user's symbolic model, by name, CSE on or off."""
from lib import glue, models as M
from lib.ctx import Ctx


def make_jobs(ctx, n_defs, n_points, want, **genkw):
    jobs, meta = [], []
    fixed = [(d, M.function_coverage_points(d), {}) for d in M.function_coverage_definitions()]
    fixed.append((M.signed_zero_definition(), M.signed_zero_points(), {}))
    lic = M.large_int_calibration_definition()
    fixed.append((lic, [{"dt": 0.125, "state": {"w": 0.5, "s": 0.25}, "control": {}}, {"dt": 0.5, "state": {"w": -1.5, "s": 1.0}, "control": {}}], {}))
    fixed.append((M.assumption_twin_definition(), M.assumption_twin_points(), {"warmup_assumptions": {"positive": True}}))
    for k in range(n_defs):
        if k < len(fixed):
            d, pts, extra = fixed[k]
            for cse in (False, True):
                jobs.append(dict({"defn": d, "cse": cse, "decl": {"container": "list", "perm_seed": k, "proactive_simplify": False}, "points": pts, "want": want}, **extra))
                meta.append((k, cse))
            continue
        rational = (k % 2 == 0)
        kw = dict(genkw)
        if k % 7 == 3:
            kw.update(force_cal=True, int_cal=True)
        d = M.gen_definition(ctx.rng, rational=rational, **kw)
        pts = [M.rnd_inputs(ctx.rng, d) for _ in range(n_points)]
        decl = {"container": ctx.rng.choice(["set", "list"]), "perm_seed": ctx.rng.randint(0, 10**6), "proactive_simplify": k % 4 == 1}
        for cse in (False, True):
            jobs.append({"defn": d, "cse": cse, "decl": decl, "points": pts, "want": want})
            meta.append((k, cse))
    return jobs, meta


def run(ctx: Ctx):
    n_defs, n_points = (40, 4) if ctx.tier == "quick" else (600, 8)
    ctx.translate("gen_layout")
    ctx.prove("Props/C01.v")
    ctx.make(["Model/GlueExec.vo"])
    ctx.trusted += [
        "translator tools/translate/gen_layout.py (orders, scopes, containers of python.py; fail-closed AST patterns)",
        "oracle contract (premise cse_contract of the theorems): sympy cse+simplify preserve values under sequential-let semantics; validated per instance by exact evaluation in Coq on the exported program (rational fragment) and by sympy subs/evalf(30) on all models",
        "lambdify evaluates an expression with positional parameters bound in order and keyword parameters by name (modelled by Model/BasicBlock.call)",
        "floating-point rounding: implementation outputs compared with exact values at relative 1e-9 on dyadic inputs",
        "hook FORMAK_VERIF=1 exports the post-CSE program (python.BasicBlock._verif_prefix/_verif_body)",
    ]
    jobs, meta = make_jobs(ctx, n_defs, n_points, ["model", "ekf_state"])
    res = ctx.run_impl_jobs("glue_py.py", jobs)
    dist = {"definitions": n_defs, "rational": 0, "transcendental": 0, "exported_programs": 0, "with_prefix": 0,
            "states": {}, "controls": {}, "calibrations": {}}
    defs_text, checks, check_src = "", [], []
    by_def = {}
    for j, (job, (k, cse), r) in enumerate(zip(jobs, meta, res)):
        d = job["defn"]
        if not cse:
            dist["rational" if d["rational"] else "transcendental"] += 1
            for key, fld in (("states", "state"), ("controls", "control"), ("calibrations", "calibration")):
                dist[key][len(d[fld])] = dist[key].get(len(d[fld]), 0) + 1
        if "error" in r:
            ctx.violation(f"python.compile refused / crashed on a valid definition: {r['kind']}",
                          {"definition": d, "cse": cse, "error": r["error"]}, key=f"compile-raises:{r['kind']}")
            continue
        by_def.setdefault(k, {})[cse] = r
        if r.get("results_stable") is False:
            ctx.violation("a state returned by the compiled model changed when the model was evaluated again (results share storage)",
                          {"definition": d, "cse": cse, "points": job["points"]}, key="model-result-unstable")
        # ---- oracle: exact symbolic value by name
        for pi, (p, pr) in enumerate(zip(job["points"], r["points"])):
            nontrivial = len(d["state"]) >= 2 and (len(d["control"]) + len(d["calibration"])) >= 1
            ctx.count(["C01", d, cse, p], nontrivial,
                      sample={"state": d["state"], "control": d["control"], "calibration": d["calibration"], "cse": cse,
                              "inputs": p, "output": pr["model"]})
            if "_raised" in pr["model"]:
                if all(v is not None for v in pr["oracle_model"].values()):
                    ctx.violation(f"Model.model raised at a point where every update expression is defined: {pr['model']['_raised']}",
                                  {"definition": d, "cse": cse, "inputs": p}, key="model-raises")
                continue
            es = pr.get("ekf_state")
            if es is not None and "_raised" not in es and "_raised" not in pr["model"]:
                for name, exp in pr["oracle_model"].items():
                    if exp is not None and not glue.close(es.get(name), exp):
                        ctx.violation(f"ExtendedKalmanFilter.process_model (same compiled model) returns {es.get(name)!r} for state variable {name!r}, its update expression evaluates to {exp!r} (cse={cse})",
                                      {"definition": d, "cse": cse, "inputs": p, "observed": es, "expected": pr["oracle_model"]}, key=f"ekf-state-value:cse={cse}")
                        break
            for name, exp in pr["oracle_model"].items():
                got = pr["model"].get(name)
                if exp is None:
                    dist["values_outside_quantifier"] = dist.get("values_outside_quantifier", 0) + 1
                    continue
                dist["values_compared_with_exact_oracle"] = dist.get("values_compared_with_exact_oracle", 0) + 1
                if got is None or not glue.close(got, exp):
                    ctx.violation(f"compiled model returns {got!r} for state variable {name!r}, its update expression evaluates to {exp!r} (cse={cse})",
                                  {"definition": d, "cse": cse, "inputs": p, "observed": pr["model"], "expected": pr["oracle_model"]},
                                  key=f"model-value:cse={cse}")
        # ---- Coq cases (rational fragment, exportable program)
        if d["rational"] and glue.exportable(r.get("program")):
            dist["exported_programs"] += 1
            if r["program"]["n_prefix"] > 0:
                dist["with_prefix"] += 1
            pre, body = glue.prog(r["program"])
            defs_text += f"Definition p{j} := {glue.pydef(d)}.\nDefinition pre{j} : list (name * expr) := {pre}.\nDefinition body{j} : list expr := {body}.\n"
            for pi, (p, pr) in enumerate(zip(job["points"], r["points"])):
                if "_raised" in pr["model"]:
                    continue
                checks.append(f"check_model p{j} {M.coq_names(r['arglist'])} pre{j} body{j} {M.coq_q(p['dt'])} "
                              f"{M.coq_assoc_q(p['state'])} {M.coq_assoc_q(p['control'])} {M.coq_assoc_q(d['calibration_map'])} "
                              f"{M.coq_assoc_q(pr['model'])}")
                check_src.append((j, pi))
    # ---- CSE on vs off on the implementation
    for k, both in by_def.items():
        if True in both and False in both:
            for pa, pb in zip(both[False]["points"], both[True]["points"]):
                if "_raised" in pa["model"] or "_raised" in pb["model"]:
                    continue
                for name in pa["model"]:
                    if pa["oracle_model"].get(name) is None and not pa.get("branch_cut"):
                        continue        # outside the quantifier (undefined / overflowing / ill-conditioned point)
                    # on a branch cut (signed zero inputs) the two settings must still agree with each other
                    if not glue.close(pa["model"][name], pb["model"][name]):
                        ctx.violation(f"common-subexpression elimination changes the value of {name!r}: {pa['model'][name]!r} (off) vs {pb['model'][name]!r} (on)",
                                      {"definition": jobs[2 * k]["defn"], "off": pa["model"], "on": pb["model"]}, key="cse-changes-value")
    bad = glue.run_cases(ctx, "model", defs_text, checks) if checks else []
    if bad is None:
        ctx.broken.append({"kind": "correspondence", "name": "Coq model could not be evaluated on the exported programs"})
    elif bad:
        codes = {1: "argument list differs", 2: "model value differs from implementation", 3: "exported program does not evaluate to the original expressions (CSE contract instance)"}
        i0, c0 = bad[0]
        j, pi = check_src[i0]
        ctx.broken.append({"kind": "correspondence", "name": f"py_model on exported program vs python.Model.model: {codes.get(c0, c0)}",
                           "detail": f"{len(bad)} of {len(checks)} cases; first: definition={jobs[j]['defn']} cse={jobs[j]['cse']} point={jobs[j]['points'][pi]} impl={res[j]['points'][pi]['model']} arglist={res[j]['arglist']}"})
    dist["coq_cases"] = len(checks)
    ctx.cov["input_distribution"] = dist
    ctx.cov["traces_validated_against_impl"] = len(checks)
    return ("random definitions (1-5 states, 0-3 controls, 0-3 calibrations, adversarial names, set/list containers in shuffled "
            "order; alternately rational-fragment and sin/cos/exp/sqrt models), both CSE settings, dyadic input points; every point "
            "compared by name with sympy subs/evalf(30); rational models additionally run through the Coq model on the exported "
            "post-CSE program; non-trivial = >= 2 states and >= 1 control or calibration symbol; distinct by (definition, cse, point)")
