"""C12 — every generated filter can be driven through the C++ managed runtime."""
import re

from lib import ekf, models as M, rt
from lib.ctx import Ctx

MAXDTS = [0.1, 0.05, 1.0 / 3.0, 2.5e-7, 0.01, 1.5e-6, 0.25]
EV_RE = re.compile(r"\(\s*(-?\d+)%Z,\s*\(?(-?[\d.]+(?:e[-+]?\d+)?|infinity|neg_infinity|nan)\)?%float\)")


def parse_events(out):
    """Coq output `= [Some [(0%Z, 0.1%float); ...]; None; ...] : list (option (list ev))` -> list"""
    m = re.search(r"=\s*(\[.*\])\s*:\s*list \(option \(list ev\)\)", out, re.S)
    if not m:
        return None
    body = m.group(1)
    res = []
    for item in re.finditer(r"Some\s*(\[[^\]]*\]|nil)|None", body):
        if item.group(0) == "None":
            res.append(None)
        else:
            res.append([(int(k), float(v)) for k, v in EV_RE.findall(item.group(0))])
    return res


def run(ctx: Ctx):
    n = 12 if ctx.tier == "quick" else 160
    ctx.translate("gen_runtime")
    ctx.translate("gen_runtime_cpp")
    ctx.translate("gen_cppgen")
    ctx.prove("Props/C12.v")
    ctx.make(["Model/RuntimeExec.vo"])
    ctx.trusted += [
        "translator gen_cppgen.py: argument lists of the generated process_model / sensor_model / StampedReadingBase::sensor_model and the Tag (ast_fragments.py); the header's call sites are hand-modelled in Model/MfShape.v",
        "partial: C++ overload resolution and template instantiation are modelled as argument-kind lists over the four combinations; successful compilation against the real ManagedFilter.h is an observation of g++ (Eigen stand-in)",
        "tick = by-hand calls: Model/RuntimeCpp.v (C11) gives the call order; the generated filter's own functions are replayed in that order and compared bit-for-bit with what ManagedFilter::tick returned",
    ]
    jobs = []
    for i in range(n):
        fc, fl = bool(i & 1), bool(i & 2)
        nsens = (i // 4) % 4
        d = M.gen_definition(ctx.rng, rational=True, min_sensors=min(nsens, 3), max_sensors=min(nsens, 3), max_states=3, max_readings=2,
                             force_control=fc, force_cal=fl)
        # bounded dynamics for many steps: keep it to a linear-ish update
        for s in d["state"]:
            d["state_model"][s] = M.add(M.var(s), M.mul(M.var("dt"), M.mul(M.num(1, 8), M.var(ctx.rng.choice(d["state"])))))
        max_dt = MAXDTS[i % len(MAXDTS)]
        keys = sorted(d["sensors"])
        hs = []
        for _ in range(2):
            t = ctx.rng.choice([0.0, 1.5, round(ctx.rng.uniform(-5, 5), 2)])
            start = t
            ticks = []
            for _ in range(ctx.rng.randint(1, 3)):
                span = max_dt * ctx.rng.choice([1, 3, 7.5])
                out = t + ctx.rng.uniform(-0.3 * span, span)
                rs = None
                if keys and ctx.rng.random() < 0.7 or (not keys and ctx.rng.random() < 0.3):
                    rs = [[float(ctx.rng.choice([t + ctx.rng.uniform(-span, span), out])).hex(), ctx.rng.randrange(len(keys))]
                          for _ in range(ctx.rng.randint(0, 2))] if keys else []
                    if rs:
                        t = float.fromhex(rs[-1][0])
                ticks.append({"out": float(out).hex(), "readings": rs})
            hs.append({"start": float(start).hex(), "ticks": ticks})
        if keys:
            # polling: the same output time requested before and after a reading stamped exactly at the filter's current time
            t_out = float(1.5 + 2.5 * max_dt).hex()
            hs.append({"start": float(1.5).hex(), "ticks": [{"out": t_out, "readings": None}, {"out": t_out, "readings": [[float(1.5).hex(), 0]]},
                                                             {"out": t_out, "readings": None}, {"out": t_out, "readings": [[float(1.5).hex(), len(keys) - 1]]},
                                                             {"out": t_out, "readings": None}]})
        jobs.append({"defn": d, "cse": bool(i % 2), "k": None, "max_dt": max_dt, "decl": {"container": "set", "perm_seed": i},
                     "point": ekf.make_points(ctx.rng, d, 1)[0], "histories": hs, "combo": (fc, fl), "nsens": len(keys)})
    res = ctx.run_impl_jobs("cpp_mf.py", jobs, timeout=3000)
    # ---- model event sequences (Coq, PrimFloat) for every history
    cases = []
    for j in jobs:
        for h in j["histories"]:
            ticks = "; ".join(f"({rt.fl(float.fromhex(t['out']))}, true, "
                              + ("None" if t["readings"] is None else "Some [" + "; ".join(f"({rt.fl(float.fromhex(ts))}, {k}%Z)" for ts, k in t["readings"]) + "]")
                              + ")" for t in h["ticks"])
            cases.append(f"Eval vm_compute in (cpp_history_events {rt.fl(j['max_dt'])} ({rt.fl(float.fromhex(h['start']))}, []) [{ticks}]).")
    ok, out = ctx.coq_eval("events", rt.CASE_HEADER + "\n".join(cases) + "\n")
    blocks = re.split(r"\n\s*(?==\s)", "\n" + out) if ok else []
    blocks = [b for b in blocks if b.strip().startswith("=")]
    model_events = [parse_events(b) for b in blocks]
    if not ok or len(model_events) != len(cases) or any(m is None for m in model_events):
        ctx.broken.append({"kind": "correspondence", "name": "C++ runtime model could not be evaluated", "detail": out[-500:]})
        model_events = None
    combos, per_sens = {}, {}
    ci = 0
    byhand_jobs, byhand_idx = [], []
    for ji, (j, r) in enumerate(zip(jobs, res)):
        d = j["defn"]
        combos[str(j["combo"])] = combos.get(str(j["combo"]), 0) + 1
        per_sens[j["nsens"]] = per_sens.get(j["nsens"], 0) + 1
        rep = {"definition": d, "max_dt": j["max_dt"], "control": j["combo"][0], "calibration": j["combo"][1], "sensors": j["nsens"]}
        ctx.count(["C12", d, j["max_dt"], j["histories"]], any(t["readings"] for h in j["histories"] for t in h["ticks"]),
                  sample=dict(rep, histories=j["histories"][:1], definition={"state": sorted(d["state"]), "control": sorted(d["control"]),
                                                                             "calibration": sorted(d["calibration"]), "sensors": sorted(d["sensors"])}))
        nh = len(j["histories"])
        mine = model_events[ci:ci + nh] if model_events else None
        ci += nh
        if "error" in r:
            ctx.violation(f"C++ generator crashed on a valid definition: {r['kind']}", dict(rep, error=r["error"]), key="cppgen-raises")
            continue
        if not r.get("compile_ok"):
            ctx.violation(f"generated filter (control={j['combo'][0]}, calibration={j['combo'][1]}, {j['nsens']} sensors, max_dt={j['max_dt']!r} emitted as {r.get('emitted_max_dt')}) "
                          "does not compile / is not compatible with ManagedFilter: " + r.get("compile_err", "")[-500:].replace("\n", " | "),
                          dict(rep, compile_err=r.get("compile_err")), key=f"mf-does-not-compile")
            continue
        if not r.get("run_ok") or len(r["histories"]) != nh:
            ctx.violation("managed generated filter crashed at run time", rep, key="mf-crash")
            continue
        if mine is None:
            continue
        ops = []
        agree = True
        for h, obs, mev in zip(j["histories"], r["histories"], mine):
            ops.append("H")
            for t, o, ev in zip(h["ticks"], obs, mev):
                if ev is None:
                    agree = False
                    ops.append("T"); ops.append("R")
                    continue
                rec = [float.fromhex(v) for k, v in o["trace"]]
                mod = [v for k, v in ev if k == 0]
                if rec != mod:
                    agree = False
                    ctx.broken.append({"kind": "correspondence", "name": "recorded prediction steps of the managed generated filter vs C++ runtime model (PrimFloat)",
                                       "detail": f"{rep} history={h} tick={t} recorded={rec[:6]} model={mod[:6]}"})
                ops.append("T")
                for k, v in ev:
                    ops.append(f"P {float(v).hex()}" if k == 0 else f"S {k - 1}")
                ops.append("R")
        # the by-hand replay always follows the SPECIFIED order (the model's), also when the recorded steps differ
        if all(ev is not None for mev in mine for ev in mev):
            byhand_jobs.append(dict(j, byhand_ops=ops))
            byhand_idx.append(ji)
    res2 = ctx.run_impl_jobs("cpp_mf.py", byhand_jobs, timeout=3000) if byhand_jobs else []
    for ji, r2 in zip(byhand_idx, res2):
        j, r = jobs[ji], res[ji]
        if "error" in r2 or not r2.get("compile_ok") or not r2.get("run_ok"):
            ctx.broken.append({"kind": "correspondence", "name": "by-hand replay driver failed", "detail": str(r2)[:400]})
            continue
        for hi, (obs, bh) in enumerate(zip(r["histories"], r2["histories"])):
            for ti, (o, b) in enumerate(zip(obs, bh)):
                if o["ret"] != b["ret"]:
                    ctx.violation(f"tick #{ti} through ManagedFilter returns a different estimate than calling process_model / sensor_model by hand in the specified order",
                                  {"definition": j["defn"], "max_dt": j["max_dt"], "history": j["histories"][hi], "tick": ti,
                                   "managed": o["ret"], "by_hand": b["ret"]}, key="tick-vs-by-hand")
    ctx.cov["input_distribution"] = {"filters": n, "control_x_calibration": combos, "sensors_per_filter": per_sens, "max_dt_values": MAXDTS}
    ctx.cov["traces_validated_against_impl"] = len(cases)
    ctx.cov["programs"] = n
    return ("generated filters for all four control x calibration combinations x 0-3 sensors x several max_dt values (1/3, 2.5e-7, ...), compiled "
            "against the real ManagedFilter.h (compatibility static_assert) with a call-recording subclass; ticked with and without readings "
            "over 2 histories each; recorded steps compared bit-for-bit with the C++ runtime model, tick results compared bit-for-bit with a "
            "by-hand replay of the generated filter's own functions; non-trivial = a history with readings; distinct by (definition, max_dt, histories)")
