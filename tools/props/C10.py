"""C10 — managed filter moves through time in bounded, correctly directed steps."""
from lib import rt
from lib.ctx import Ctx


def run(ctx: Ctx):
    n_pairs = 400 if ctx.tier == "quick" else 6000
    n_hist = 60 if ctx.tier == "quick" else 1500
    # (T) regenerate the Python model from runtime.py and re-check the theorems against it
    ctx.translate("gen_runtime")
    ctx.translate("gen_runtime_cpp")
    ctx.prove("Props/C10.v")
    ctx.make(["Model/RuntimeExec.vo"])
    ctx.trusted += [
        "translator tools/translate/py2v.py + gen_runtime.py (Python ast -> Gallina), validated by bit-exact traces of the regenerated model against runtime.ManagedFilter",
        "translator gen_runtime_cpp.py: the time arithmetic of both processUpdate overloads of ManagedFilter.h is translated (C++ expression parser) and proved equal to Model/RuntimeCpp.v; the tick overloads' skeleton is pinned; additionally tied by bit-exact traces of the compiled header (g++ -std=c++20, recording Impl)",
        "PrimFloat (kernel primitive binary64) as the model of CPython/C++ double arithmetic; vm_compute",
        "exact-arithmetic theorems are over Q; float statement (slack 1e-9 on the bound) is checked on traces, not proved",
    ]
    ctx.assumptions += ["times of moderate magnitude (|t| <= 1e5 in generated cases)", "max_dt > 0"]

    pairs = rt.gen_pairs(ctx.rng, n_pairs, max_steps=1500 if ctx.tier == "quick" else 20000)
    hs = [rt.history_of_pair(m, c, o) for m, c, o, _ in pairs]
    hs += rt.gen_histories(ctx.rng, n_hist, allow_missing_control=False)
    kinds = {}
    for *_, k in pairs:
        kinds[k] = kinds.get(k, 0) + 1

    # ---------------- Python runtime
    res = ctx.run_impl("rt_py.py", {"histories": hs})
    if "_error" in res:
        ctx.broken.append({"kind": "correspondence", "name": "python runtime harness", "detail": res["_error"]})
        py_obs = None
    else:
        py_obs = res["results"]
    # ---------------- C++ runtime (all four control x calibration Tag combinations)
    # single-move histories only: what is held between ticks is C11's subject and is not observable in C++
    flags = [(h, bool(i & 1), bool((i >> 1) & 1)) for i, h in enumerate(hs[:len(pairs)])]
    flags = [(dict(h, ticks=[dict(t, control=c) for t in h["ticks"]], control_size=int(c)), c, l) for h, c, l in flags]
    ok, cpp_obs = rt.run_cpp(ctx, flags)
    if not ok:
        ctx.broken.append({"kind": "correspondence", "name": "ManagedFilter.h does not compile/run with the recording Impl", "detail": str(cpp_obs)})
        cpp_obs = None

    # ---------------- C++: first ticks of fresh filters with several readings.  Whatever order the readings are taken in, the
    # moves are chained (each starts where the previous one ended), so the steps of the tick telescope: they sum to
    # output time - start time, and each is bounded.  (No assumption on what is held between ticks: first ticks only.)
    from fractions import Fraction
    multi = []
    for i in range(40 if ctx.tier == "quick" else 600):
        m = ctx.rng.choice(rt.MAXDTS)
        start = ctx.rng.choice([0.0, round(ctx.rng.uniform(-50, 50), 3)])
        span = m * ctx.rng.choice([3, 10, 40])
        out = start + ctx.rng.uniform(0.2 * span, span)
        rs = [[float(start + ctx.rng.uniform(-0.3 * span, 1.2 * span)).hex(), ctx.rng.randint(0, 2)] for _ in range(ctx.rng.randint(2, 4))]
        c = bool(i & 1)
        multi.append(({"max_dt": float(m).hex(), "control_size": int(c), "start": float(start).hex(),
                       "ticks": [{"out": float(out).hex(), "control": c, "readings": rs}]}, c, bool((i >> 1) & 1)))
    ok2, multi_obs = rt.run_cpp(ctx, multi)
    if not ok2:
        ctx.broken.append({"kind": "correspondence", "name": "ManagedFilter.h does not compile/run with the recording Impl (multi-reading ticks)", "detail": str(multi_obs)})
    else:
        for (h, _c, _l), o in zip(multi, multi_obs):
            if not o or o[0] is None:
                continue
            ev = rt.expand(o[0]["ret"])
            dts = [v for k, v in ev if k == 0]
            md, st, ou = float.fromhex(h["max_dt"]), float.fromhex(h["start"]), float.fromhex(h["ticks"][0]["out"])
            ctx.count(["c++ chained", h], len(dts) >= 3, sample={"runtime": "c++", "max_dt": md, "start": st, "out": ou, "readings": h["ticks"][0]["readings"], "n_steps": len(dts)})
            total = sum((Fraction(d) for d in dts), Fraction(0))
            why = None
            if any(abs(Fraction(d)) > Fraction(md) + Fraction(1, 10**9) for d in dts):
                why = f"a step exceeds max_dt={md!r}: {max(dts, key=abs)!r}"
            elif abs(total - (Fraction(ou) - Fraction(st))) > Fraction(1, 10**8) * max(1, len(dts)):
                why = (f"the steps of one tick with {len(h['ticks'][0]['readings'])} readings sum to {float(total)!r}, the filter travelled from its start time {st!r} "
                       f"to the output time {ou!r} ({ou - st!r}): the moves of the tick are not chained")
            if why:
                ctx.violation(f"c++ runtime: {why}", {"runtime": "c++", "history": h, "observed": o,
                                                      "how": "tools/cpp/rt_driver.cpp.in replays the history with a recording filter"}, key="c++:tick-not-chained")
    # ---------------- property predicate on the implementations' own traces (search / oracle)
    def oracle(name, hlist, obs):
        for h, o in zip(hlist, obs):
            for cur, out, dts in rt.moves_of_history(h, o):
                full = dts is not None and len(dts) >= 2
                ctx.count([name, h["max_dt"], cur, out], nontrivial=full,
                          sample={"runtime": name, "max_dt": float.fromhex(h["max_dt"]), "from": cur, "to": out,
                                  "steps": (dts[:3] + ["..."] + dts[-1:]) if dts and len(dts) > 4 else dts})
                if dts is None:
                    why = "call trace is not: predictions, then the update, per reading"
                else:
                    why = rt.check_steps(float.fromhex(h["max_dt"]), cur, out, dts)
                if why:
                    ctx.violation(f"{name} runtime: moving from t={cur!r} to t={out!r} with max_dt={float.fromhex(h['max_dt'])!r}: {why}",
                                  {"runtime": name, "history": h, "observed": o, "move": [cur, out, dts],
                                   "how": "tools/harness/rt_py.py (python) or tools/cpp/rt_driver.cpp.in (c++) replays the history with a recording filter"},
                                  key=f"{name}:{why.split(' ')[0]}:{'fwd' if out > cur else 'back' if out < cur else 'eq'}")
    if py_obs is not None:
        oracle("python", hs, py_obs)
        # the clock the runtime keeps and the estimate it holds move together: the prediction steps in the lineage of the
        # held estimate sum to (held time - start time)
        from fractions import Fraction as _F
        for h, obs in zip(hs, py_obs):
            st = float.fromhex(h["start"])
            for ti, o in enumerate(obs):
                if not o or o.get("held") is None or o.get("held_t") is None:
                    continue
                dts = [v for k, v in rt.expand(o["held"]) if k == 0]
                total = sum((_F(d) for d in dts), _F(0))
                ht = float.fromhex(o["held_t"])
                if abs(_F(st) + total - _F(ht)) > _F(1, 10**8) * (1 + len(dts)):
                    ctx.violation(f"python runtime: after tick {ti} the clock reads {ht!r} but the estimate it holds was carried from {st!r} by steps summing to "
                                  f"{float(total)!r} (valid for t={st + float(total)!r}): the next move is planned from the wrong time",
                                  {"runtime": "python", "history": h, "observed": obs, "tick": ti}, key="python:clock-and-estimate-disagree")
                    break
    if cpp_obs is not None:
        oracle("c++", [f[0] for f in flags], cpp_obs)

    # ---------------- correspondence: model vs implementation, bit-exact
    if py_obs is not None:
        bad = rt.coq_compare(ctx, "py", hs, py_obs)
        if bad is None:
            ctx.broken.append({"kind": "correspondence", "name": "regenerated Python model could not be evaluated"})
        elif bad:
            ctx.broken.append({"kind": "correspondence", "name": "regenerated py_tick (PrimFloat) vs runtime.ManagedFilter",
                               "detail": f"{len(bad)} histories disagree, first: {hs[bad[0]]} observed {py_obs[bad[0]]}"})
    if cpp_obs is not None:
        bad = rt.coq_compare(ctx, "cpp", [f[0] for f in flags], cpp_obs)
        if bad is None:
            ctx.broken.append({"kind": "correspondence", "name": "C++ hand model could not be evaluated"})
        elif bad:
            ctx.broken.append({"kind": "correspondence", "name": "hand model cpp_tick (PrimFloat) vs compiled ManagedFilter.h",
                               "detail": f"{len(bad)} histories disagree, first: {flags[bad[0]][0]} observed {cpp_obs[bad[0]]}"})
    ctx.cov["input_distribution"] = {"pair_kinds": kinds, "histories": n_hist, "max_dts": rt.MAXDTS}
    ctx.cov["traces_validated_against_impl"] = (len(hs) if py_obs is not None else 0) + (len(flags) if cpp_obs is not None else 0)
    return ("moves (cur,out,max_dt) taken from single-tick boundary-stream cases (exact multiples, +-1/2 ulp, equal, +-1e-9 region, "
            "backwards) and random multi-tick histories, run on runtime.ManagedFilter and on the compiled ManagedFilter.h; "
            "non-trivial = a move with at least two recorded steps; distinct by (runtime, max_dt, cur, out)")
