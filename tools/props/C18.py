"""C18 — design workflow follows its declared transitions and selects from the grid."""
import re

from lib.ctx import Ctx

ORDER = ["Start", "Symbolic_Model", "Fit_Model"]
COQ = {"Start": "WStart", "Symbolic_Model": "WSymbolic", "Fit_Model": "WFit"}


def run(ctx: Ctx):
    ctx.translate("gen_workflow")
    ctx.prove("Props/C18.v")
    ctx.trusted += [
        "translator gen_workflow.py: the transition graph is read from the imported classes exactly as StateMachineState.search reads it (state_id(), available_transitions(), return annotations); the source text of search, the history constructors and the fitting guard are pinned (fail closed on any change)",
        "Model/Workflow.bfs is the hand model of the pinned search loop; generic soundness proved for any graph, shortest-path / reachability table proved by computation on the regenerated 3-state graph (finite, stated)",
        "scikit-learn GridSearchCV / TimeSeriesSplit / train_test_split are oracles: best_estimator_ is assumed to be a clone with set_params applied to one point of the grid; small real grid searches are run",
    ]
    n_runs = 1 if ctx.tier == "quick" else 8
    # a fixed grid first: a threshold low enough to discard readings of this data set, so that the two settings of
    # innovation_filtering score differently, and two values of the second hyper-parameter
    runs = [{"grid": {"process_noise": [0.5], "sensor_noise": [0.5], "innovation_filtering": [None, 1.0], "max_dt_sec": [0.1, 0.05]}, "n_rows": 10, "seed": 7}]
    # a grid whose only candidate is "falsy" (filtering disabled): it is still the supplied grid
    runs.append({"grid": {"process_noise": [0.5], "sensor_noise": [0.5], "innovation_filtering": [None], "max_dt_sec": [0.2]}, "n_rows": 8, "seed": 11})
    for i in range(n_runs):
        runs.append({"grid": {"process_noise": ctx.rng.sample([0.25, 0.5, 1.0, 2.0], 1), "sensor_noise": ctx.rng.sample([0.25, 0.5, 1.0], 1),
                              "innovation_filtering": ctx.rng.sample([None, 2.0, 4.0, 6.0], 2), "max_dt_sec": ctx.rng.sample([0.05, 0.1, 0.2], 2)},
                     "n_rows": ctx.rng.randint(6, 10), "seed": ctx.rng.randint(0, 10**6)})
    res = ctx.run_impl("workflow_py.py", {"runs": runs}, timeout=3000)
    if "_error" in res:
        ctx.broken.append({"kind": "correspondence", "name": "workflow harness", "detail": res["_error"]})
        return "harness failed"
    # ---- model table (Coq) vs real searches
    lines = []
    for s in ORDER:
        for t in ORDER:
            lines.append(f"Eval vm_compute in (wsearch {COQ[s]} {COQ[t]}).")
    ok, out = ctx.coq_eval("table", "From Coq Require Import String List.\nFrom FV Require Import Model.Workflow gen.WorkflowGraph Proofs.WorkflowGraph.\n" + "\n".join(lines) + "\n")
    blocks = [b for b in re.split(r"\n\s*(?==\s)", "\n" + out) if b.strip().startswith("=")] if ok else []
    model = {}
    if len(blocks) != 9:
        ctx.broken.append({"kind": "correspondence", "name": "workflow model could not be evaluated", "detail": out[-400:]})
    else:
        i = 0
        for s in ORDER:
            for t in ORDER:
                b = blocks[i]; i += 1
                model[f"{s}->{t}"] = "ValueError" if "None" in b else re.findall(r'"(\w+)"', b)
    reach = {("Start", "Start"): [], ("Start", "Symbolic_Model"): ["symbolic_model"], ("Start", "Fit_Model"): ["symbolic_model", "fit_model"],
             ("Symbolic_Model", "Symbolic_Model"): [], ("Symbolic_Model", "Fit_Model"): ["fit_model"], ("Fit_Model", "Fit_Model"): []}
    for s in ORDER:
        for t in ORDER:
            k = f"{s}->{t}"
            got = res["search"].get(k)
            ctx.count(["search", k], s != t, sample={"pair": k, "result": got})
            if got is None:
                continue
            exp = reach.get((s, t), "ValueError")
            if got != exp:
                ctx.violation(f"search from {s} to {t} returns {got!r}; the shortest list of declared transitions is {exp!r}"
                              if exp != "ValueError" else f"search from {s} to the unreachable state {t} returns {got!r} instead of raising",
                              {"pair": k, "observed": got, "expected": exp}, key=f"search:{'self' if s == t else 'path'}")
            elif got != "ValueError" and res["follow"].get(k) != t:
                ctx.violation(f"the path returned for {k}, called in order, ends in {res['follow'].get(k)}", {"pair": k, "path": got}, key="search-follow")
            if model and model.get(k) != got:
                ctx.broken.append({"kind": "correspondence", "name": "Model/Workflow.bfs on the regenerated graph vs StateMachineState.search",
                                   "detail": f"{k}: model {model.get(k)} implementation {got}"})
    for k, v in res["non_state"].items():
        ctx.count(["non_state", k], True)
        if v != "ValueError":
            ctx.violation(f"search for a target that is not a state id ({k}) {v} instead of raising ValueError", {"case": k, "observed": v}, key="search-non-state")
    # ---- histories
    exp_hist = {"Start": ["Start"], "Symbolic_Model": ["Start", "Symbolic_Model"], "Fit_Model": ["Start", "Symbolic_Model", "Fit_Model"]}
    for k, h in res["history"].items():
        ctx.count(["history", k], True, sample={"state": k, "history": h})
        if h != exp_hist[k]:
            ctx.violation(f"history of the {k} state is {h}, the states visited are {exp_hist[k]}", {"observed": h}, key="history")
    hb = res["history_branch"]
    if hb != {"manager": ["Start"], "first": ["Start", "Symbolic_Model"], "second": ["Start", "Symbolic_Model"]}:
        ctx.violation(f"after branching twice from one state and a refused fit, the recorded histories are {hb}", {"observed": hb}, key="history-branch")
    if "fit_state_error" in res:
        ctx.violation(f"fitting a small valid data set failed: {res['fit_state_error']}", {"observed": res["fit_state_error"]}, key="fit-failed")
    for k in ("too_small", "rows_0", "rows_1", "rows_2"):
        ctx.count(["min_samples", k], True)
        if res.get(k) != "ModelFitError":
            ctx.violation(f"a data set too small to split ({k}) is {res.get(k)} instead of refused with ModelFitError", {"case": k, "observed": res.get(k)}, key="min-samples")
    # ---- grid selection
    n_minfail = 0
    for r, o in zip(runs, res["runs"]):
        ctx.count(["grid", r], True, sample={"grid": r["grid"], "result": o})
        if "error" in o:
            if str(o["error"]).startswith("MinimizationFailure"):
                # scipy's optimiser gave up on this data set (precision loss) during the refit and formak says so by raising:
                # nothing was selected or exported, so the property says nothing about this run
                n_minfail += 1
                continue
            ctx.violation(f"grid search over a valid grid failed: {o['error']}", {"run": r, "error": o}, key="grid-failed")
            continue
        g = r["grid"]
        sel, ex = o["selected"], o["exported"]
        # every grid point must have been scored with exactly its own hyper-parameters (an estimator constructed with them)
        for cnd in o.get("candidates", []):
            gs, ins = cnd["grid_score"], cnd["independent_score"]
            if isinstance(ins, str) or abs(gs - ins) > 1e-6 * max(1.0, abs(ins)):
                ctx.violation(f"grid point innovation_filtering={cnd['innovation_filtering']!r}, max_dt_sec={cnd['max_dt_sec']!r} was scored {gs!r} by the search, "
                              f"an estimator constructed with exactly these hyper-parameters scores {ins!r}: the candidate did not carry its grid values",
                              {"run": r, "observed": o}, key="grid-candidate-mis-scored")
                break
        bp = o.get("best_params")
        if bp is not None:
            for fld in ("innovation_filtering", "max_dt_sec"):
                if ex[fld] != bp[fld]:
                    ctx.violation(f"exported filter carries {fld} = {ex[fld]!r}, the search selected {bp[fld]!r}", {"run": r, "observed": o}, key="export-differs-from-best-params")
        # hyper-parameters = the supported Config fields; noise magnitudes are re-tuned by fitting (C17) and are not grid members
        for fld, lst in (("innovation_filtering", g["innovation_filtering"]), ("max_dt_sec", g["max_dt_sec"]), ("process_noise", None), ("sensor_noise", None)):
            if lst is not None and sel[fld] not in lst:
                ctx.violation(f"selected {fld} = {sel[fld]!r} is not in the supplied grid {lst}", {"run": r, "observed": o}, key="grid-membership")
            if ex[fld] != sel[fld]:
                ctx.violation(f"exported filter carries {fld} = {ex[fld]!r}, the selected value is {sel[fld]!r}", {"run": r, "observed": o}, key="export-differs")
        if o["history"] != exp_hist["Fit_Model"]:
            ctx.violation(f"history after fitting is {o['history']}", {"observed": o}, key="history")
    if 2 * n_minfail > len(runs):
        ctx.broken.append({"kind": "correspondence", "name": "grid-search stream: most fits end in MinimizationFailure, so selection and export are no longer exercised",
                           "detail": f"{n_minfail} of {len(runs)} runs"})
    ctx.cov["input_distribution"] = {"search_pairs": 9, "non_state_targets": len(res["non_state"]), "grid_runs": n_runs,
                                     "grid_runs_optimiser_gave_up": n_minfail}
    ctx.cov["exhaustive"] = True
    ctx.cov["traces_validated_against_impl"] = 9
    return ("all 3 x 3 (start, target) pairs searched on real workflow objects (including a really fitted state) and compared with the Coq table; "
            "returned paths followed; non-state targets; histories after straight runs, after branching twice from one state and after a refused fit; "
            "data sets of 0-2 rows; small real grid searches (2 x 2 grids over innovation_filtering and max_dt_sec, 6-10 rows) with the exported filter's hyper-parameters compared with the grid; "
            "non-trivial = pair with start != target and every other case; distinct by case")
