"""C04 — prediction step is x' = f(x,u), P' = G P G^T + V M V^T."""
from lib import ekf
from lib.ctx import Ctx


def run(ctx: Ctx):
    n_defs, n_points = (24, 3) if ctx.tier == "quick" else (300, 6)
    ctx.translate("gen_layout")
    ctx.translate("gen_ekf")
    ctx.translate("gen_noise")
    ctx.prove("Props/C04.v", ["Props/C04_glue.v", "Props/C04_refine.v"])
    ctx.make(["Model/EkfExec.vo"])
    ctx.trusted += [
        "translators gen_ekf.py (matrix formulas of process_model -> MathComp term and list-of-lists term from one IR; the executable list rendering is PROVED to compute the entries of the MathComp rendering at the field rat: Props/C04_refine.v, premises (shapes) checked by computation on every case, code 9) and gen_layout.py",
        "translator gen_noise.py (np.eye, the two enumerate loops, the if/elif chain over process_noise, the stores of _construct_process -> gen/NoisePy.v); Proofs/NoisePy.v proves the translated loop equal to the closed form Model/Named.py_noise_matrix used by the executable chain",
        "control_size = number of declared controls = length of arglist_control (the three assignments are pinned by gen_noise.py; sorted() preserves length)",
        "oracle contracts: numpy matmul/transpose/+ are the matrix operations; sympy diff; lambdify; float rounding (relative 1e-9 on SPD dyadic P with |L_ij| <= 1)",
        "purity: gen_ekf.py refuses stores into parameters / self in process_model; inputs deep-compared before/after and the call repeated on the implementation",
    ]
    jobs = ekf.make_jobs(ctx, n_defs, n_points, ks=(None,), max_sensors=1, min_sensors=0)
    res = ctx.run_impl_jobs("ekf_py.py", jobs)
    defs_text, checks, src, dist = ekf.analyse(ctx, jobs, res, "C04", do_predict=True, do_update=False)
    ekf.run_coq(ctx, jobs, res, defs_text, checks, src, "prediction")
    ctx.cov["input_distribution"] = dist
    ctx.cov["traces_validated_against_impl"] = len(checks)
    return ("random definitions (1-4 states, 0-3 controls, 0-3 calibrations), dyadic points, SPD dyadic covariances; predicted state and "
            "covariance compared with exact sympy G P G^T + V M V^T by name; rational models also run through the Coq chain "
            "(exported blocks -> un-flattened Jacobians -> named noise -> regenerated formula); inputs compared before/after, call repeated; "
            "non-trivial = >= 2 states and >= 1 control; distinct by (definition, cse, point)")
