"""C17 — estimator parameters round-trip; fitting only retunes noise."""
import math

from lib import glue, models as M
from lib.ctx import Ctx

FIELDS = ["common_subexpression_elimination", "python_modules", "extra_validation", "max_dt_sec", "innovation_filtering"]
ALLOWED = ["symbolic_model", "process_noise", "sensor_models", "sensor_noises", "calibration_map"]


def gen_ops(rng, d):
    ops = []
    for _ in range(rng.randint(2, 5)):
        k = rng.random()
        if k < 0.15:
            ops.append(["get_set"])
        elif k < 0.25:
            ops.append(["clone"])
        else:
            kw = {}
            for _ in range(rng.choice([1, 1, 2, 3])):
                c = rng.random()
                if c < 0.08:
                    kw["python_modules"] = rng.choice([["numpy", "math"], ["math"], ["scipy", "numpy"]])
                elif c < 0.45:
                    f = rng.choice(["max_dt_sec", "innovation_filtering", "extra_validation", "common_subexpression_elimination"])
                    kw[f] = {"max_dt_sec": rng.choice([0.05, 0.2, 0.5]), "innovation_filtering": rng.choice([None, 2.0, 7.0]),
                             "extra_validation": False, "common_subexpression_elimination": rng.choice([True, False])}[f]
                elif c < 0.6:
                    kw["config"] = {"config": {"max_dt_sec": rng.choice([0.3, 0.7]), "innovation_filtering": rng.choice([1.5, 9.0])}}
                elif c < 0.75 and d["control"]:
                    kw["process_noise"] = {"noise": {u: rng.choice([0.25, 0.75, 1.5]) for u in d["control"]}}
                elif c < 0.9:
                    kw[rng.choice(["bogus", "max_dt", "config__max_dt_sec", "bogus__max_dt_sec", "sensor_noises__innovation_filtering", "Config", "process_noises"])] = 0.3
                else:
                    kw["calibration_map"] = {"noise": {}}
            ops.append(["set", kw])
    return ops


def model_state(d):
    """model estimator: non-config parameters as tokens, config fields as tokens"""
    return ({k: f"{k}#0" for k in ALLOWED}, {"common_subexpression_elimination": "True", "python_modules": "modules", "extra_validation": "False",
                                             "max_dt_sec": "0.1", "innovation_filtering": "5.0"})


def tok(v):
    return repr(v)


def run(ctx: Ctx):
    n = 30 if ctx.tier == "quick" else 400
    n_fit = 3 if ctx.tier == "quick" else 30
    ctx.translate("gen_adapter")
    ctx.prove("Props/C17.v")
    ctx.make(["Model/Params.vo"])
    ctx.trusted += [
        "translator gen_adapter.py: allowed constructor keys, Config field names (dataclass fields of the imported class), and the pinned source of set_params / get_params / _flatten_scoring_params / _inverse_flatten_scoring_params / nearest_positive_definite / fit",
        "Model/Params.v: hand model of set_params (per key, in call order, against the CURRENT config) and of the flatten / inverse-flatten pair; tied by correspondence on random operation sequences and vectors",
        "scipy.optimize.minimize is an oracle: any vector of the right length or failure (theorem quantifies over every vector); sklearn.base.clone = constructor from get_params; real fits on small data in both tiers",
    ]
    jobs = []
    for i in range(n):
        d = M.gen_linear_definition(ctx.rng, singular=False)
        nvec = len(d["control"]) + sum(len(r) for r in d["sensors"].values())
        vecs = [[ctx.rng.choice([-1.0, 0.0, 1e-7, 0.5, 2.0, 1e-6, 3.25]) for _ in range(nvec)] for _ in range(3)]
        job = {"defn": d, "k": 4.0, "decl": {"container": "set", "perm_seed": i}, "ops": gen_ops(ctx.rng, d), "vectors": vecs, "config0": {}}
        if i % 5 == 4:
            # the configuration handed in is an instance of a Config subclass (the workflow's own ConfigView): reading the
            # parameters and setting them again, or cloning, must leave it what it was
            job["config0_view"] = True
            job["config0"] = {"innovation_filtering": 7.0, "max_dt_sec": 0.2}
            job["ops"] = [["get_set"], ["clone"], ["get_set"]]
        if i < n_fit:
            width = len(d["control"]) + sum(len(r) for r in d["sensors"].values())
            job["fit_rows"] = ctx.rng.randint(1, 5)
            job["fit_config"] = [{}, {"extra_validation": True, "max_dt_sec": 0.2, "common_subexpression_elimination": False}, {"extra_validation": True}][i % 3]
            job["fit_X"] = [[M.rnd_point(ctx.rng) for _ in range(width)] for _ in range(job["fit_rows"])]
        jobs.append(job)
    res = ctx.run_impl_jobs("adapter_py.py", jobs, timeout=3000)
    rows = []
    dist = {"estimators": n, "ops": {}, "fits": {}, "unknown_key_ops": 0}
    for j, r in zip(jobs, res):
        d = j["defn"]
        ctx.count(["C17", d, j["ops"]], any(o[0] == "set" and len(o[1]) >= 2 for o in j["ops"]), sample={"ops": j["ops"], "controls": sorted(d["control"])})
        if "error" in r:
            ctx.violation(f"adapter parameter operations crashed: {r['kind']}", {"definition": d, "ops": j["ops"], "error": r["error"]}, key=f"adapter-raises:{r['kind']}")
            continue
        # ---- operation sequence: spec-level oracle (property text) tracked in Python, and Coq model
        cfg = {"common_subexpression_elimination": True, "python_modules": "modules", "extra_validation": False, "max_dt_sec": 0.1, "innovation_filtering": 5.0}
        pn = dict(d["process_noise"])
        cal = dict(d["calibration_map"])
        coq_ops, coq_exp = [], []
        if j.get("config0_view"):
            init = r.get("ops_initial")
            for op, o in zip(j["ops"], r["ops"]):
                if o["result"] != "ok" or o["state"] != init:
                    ctx.violation(f"estimator configured with a Config subclass instance: after {op[0]} the parameters are no longer what was handed in "
                                  f"(config type {o['state'].get('config_type')!r}, was {init.get('config_type')!r}; result {o['result']})",
                                  {"definition": d, "ops": j["ops"], "before": init, "after": o["state"]}, key="config-object-replaced")
                    break
            continue
        for op, o in zip(j["ops"], r["ops"]):
            dist["ops"][op[0]] = dist["ops"].get(op[0], 0) + 1
            exp_result = "ok"
            if op[0] == "set":
                for k, v in op[1].items():   # dict order = call order
                    if k == "config":
                        cfg = dict(cfg, **{f: cfg[f] for f in ()})
                        cfg = {"common_subexpression_elimination": True, "python_modules": "modules", "extra_validation": False,
                               "max_dt_sec": v["config"].get("max_dt_sec", 0.1), "innovation_filtering": v["config"].get("innovation_filtering", 5.0)}
                    elif k == "process_noise":
                        pn = dict(v["noise"])
                    elif k == "calibration_map":
                        cal = dict(v["noise"])
                    elif k == "python_modules":
                        cfg = dict(cfg, python_modules="mods:" + "|".join(v))
                    elif k in FIELDS:
                        cfg = dict(cfg, **{k: v})
                    else:
                        exp_result = "ModelConstructionError"
                        dist["unknown_key_ops"] += 1
                        break
            st = o["state"]
            if o["result"] != exp_result:
                ctx.violation(f"set_params({list(op[1]) if op[0] == 'set' else op[0]}) -> {o['result']}, expected {exp_result} (unknown names refused, known names accepted)",
                              {"definition": d, "ops": j["ops"], "failing_op": op, "observed": o}, key=f"set-params-verdict:{exp_result}")
                break
            if st["config"] != cfg:
                ctx.violation(f"after {op}: configuration is {st['config']}, expected {cfg} (a field passed to set_params changes exactly that field)",
                              {"definition": d, "ops": j["ops"], "failing_op": op, "observed": st["config"], "expected": cfg}, key="config-frame")
                break
            if st["process_noise"] != pn or st["calibration_map"] != cal:
                ctx.violation(f"after {op}: parameters changed that were not set (or a set value was lost)", {"definition": d, "ops": j["ops"], "failing_op": op, "observed": st}, key="param-frame")
                break
            if op[0] == "clone" and not o.get("clone_equal"):
                ctx.violation("clone() does not carry the same parameters", {"definition": d, "ops": j["ops"]}, key="clone")
            # Coq model step: tokens
            if op[0] == "set":
                items = []
                for k, v in op[1].items():
                    if k == "config":
                        c = {"common_subexpression_elimination": "True", "python_modules": "modules", "extra_validation": "False",
                             "max_dt_sec": tok(v["config"].get("max_dt_sec", 0.1)), "innovation_filtering": tok(v["config"].get("innovation_filtering", 5.0))}
                        items.append(f"({M.coq_str(k)}, PConfig string {M.coq_list([f'({M.coq_str(a)}, {M.coq_str(b)})' for a, b in c.items()])})")
                    elif k == "python_modules":
                        items.append(f"({M.coq_str(k)}, PV string {M.coq_str('mods:' + '|'.join(v))})")
                    else:
                        items.append(f"({M.coq_str(k)}, PV string {M.coq_str(tok(v) if not isinstance(v, dict) else k + '#' + repr(sorted(v['noise'].items())))})")
                coq_ops.append(M.coq_list(items))
                coq_exp.append((o["result"] == "ok", {f: tok(st["config"][f]) if f != "python_modules" else st["config"][f] for f in FIELDS}))
        if coq_ops:
            init_cfg = M.coq_list([f"({M.coq_str(a)}, {M.coq_str(b)})" for a, b in model_state(d)[1].items()])
            init_par = M.coq_list([f"({M.coq_str(a)}, {M.coq_str(b)})" for a, b in model_state(d)[0].items()])
            exp = M.coq_list([f"({'true' if ok else 'false'}, {M.coq_list([f'({M.coq_str(a)}, {M.coq_str(b)})' for a, b in c.items()])})" for ok, c in coq_exp])
            rows.append(f"(run_ops (mkEst string {init_par} {init_cfg}) {M.coq_list(coq_ops)} {exp})")
        # ---- flatten / inverse flatten
        U = sorted(d["control"])
        keys = sorted(d["sensors"])
        expf = [d["process_noise"][u] for u in U] + [d["sensor_noise"][k][r_] for k in keys for r_ in sorted(d["sensors"][k])]
        if r["flatten"] != expf:
            ctx.violation(f"flattened noise parameters {r['flatten']} are not [controls by name..., readings of each sensor by key then name...] = {expf}",
                          {"definition": d}, key="flatten")
        for x, inv in zip(j["vectors"], r["inverse"]):
            ok = (sorted(inv["process_noise"]) == U and sorted(inv["sensor_noises"]) == keys and
                  all(sorted(inv["sensor_noises"][k]) == sorted(d["sensors"][k]) for k in keys))
            vals = list(inv["process_noise"].values()) + [v for m in inv["sensor_noises"].values() for v in m.values()]
            if not ok:
                ctx.violation("fitted noise maps do not name exactly the controls, sensors and readings of the original", {"definition": d, "x": x, "observed": inv}, key="inverse-keys")
            elif not all(math.isfinite(v) for v in vals) or any(v <= 0 for v in inv["process_noise"].values()):
                ctx.violation("fitted noise magnitude is not finite / process noise not strictly positive", {"definition": d, "x": x, "observed": inv}, key="inverse-positive")
            elif not inv["other_keys_same"]:
                ctx.violation("un-flattening changed a parameter other than the noise maps", {"definition": d, "x": x}, key="inverse-frame")
            else:
                exp_pn = {u: max(1e-6, x[i]) for i, u in enumerate(U)}
                if inv["process_noise"] != exp_pn:
                    ctx.violation(f"un-flattened process noise {inv['process_noise']} != {exp_pn}", {"definition": d, "x": x}, key="inverse-values")
        if "fit" in r:
            f = r["fit"]
            dist["fits"][f["result"].split(":")[0]] = dist["fits"].get(f["result"].split(":")[0], 0) + 1
            if f["result"] not in ("ok", "MinimizationFailure"):
                ctx.violation(f"fit neither returned nor raised the library's minimisation error: {f['result']}", {"definition": d, "X": j["fit_X"]}, key="fit-escapes")
            elif f["result"] == "ok":
                a, b = f["after"], f["before"]
                same = all(a[k] == b[k] for k in ("sensor_models", "calibration_map", "symbolic_model_id", "config"))
                names_ok = sorted(a["process_noise"]) == sorted(b["process_noise"]) and {k: sorted(v) for k, v in a["sensor_noises"].items()} == {k: sorted(v) for k, v in b["sensor_noises"].items()}
                vals = list(a["process_noise"].values()) + [v for m in a["sensor_noises"].values() for v in m.values()]
                if not same or not f["returns_self"]:
                    ctx.violation("fit changed something other than noise magnitudes", {"definition": d, "before": b, "after": a}, key="fit-frame")
                elif not names_ok or not all(math.isfinite(v) for v in vals) or any(v <= 0 for v in a["process_noise"].values()):
                    ctx.violation("fitted noise maps are not finite / positive / named like the original", {"definition": d, "after": a}, key="fit-noise")
    if rows:
        hdr = ("From Coq Require Import String List Bool.\nFrom FV Require Import Base.Expr Model.Params.\nImport ListNotations.\n"
               "Definition cfg_eqb (a b : list (name * string)) : bool := forallb (fun kv => match lookup (fst kv) a with Some v => String.eqb v (snd kv) | None => false end) b.\n"
               "Fixpoint run_ops (e : est string) (ops : list (list (name * pval string))) (exp : list (bool * list (name * string))) : bool :=\n"
               "  match ops, exp with\n  | [], [] => true\n  | o :: r, (ok, c) :: r' =>\n      match set_params string e o with\n"
               "      | ROk e' => ok && cfg_eqb (e_config string e') c && run_ops e' r r'\n"
               "      | RErr _ => negb ok && run_ops_err o e c r r'\n      end\n  | _, _ => false\n  end\n"
               "with run_ops_err (o : list (name * pval string)) (e : est string) (c : list (name * string)) (r : list (list (name * pval string))) (r' : list (bool * list (name * string))) : bool := true.\n")
        # simpler: after an error the implementation has applied the keys before the failing one; the harness stops comparing that sequence
        hdr = ("From Coq Require Import String List Bool.\nFrom FV Require Import Base.Expr Model.Params.\nImport ListNotations.\n"
               "Definition cfg_eqb (a b : list (name * string)) : bool := forallb (fun kv => match lookup (fst kv) a with Some v => String.eqb v (snd kv) | None => false end) b.\n"
               "Fixpoint run_ops (e : est string) (ops : list (list (name * pval string))) (exp : list (bool * list (name * string))) : bool :=\n"
               "  match ops, exp with\n  | [], [] => true\n  | o :: r, (ok, c) :: r' =>\n      match set_params string e o with\n"
               "      | @ROk _ e' => ok && cfg_eqb (e_config string e') c && run_ops e' r r'\n"
               "      | @RErr _ _ => negb ok\n      end\n  | _, _ => false\n  end.\n"
               "Fixpoint falses (l : list bool) (i : nat) : list (nat * nat) := match l with [] => [] | b :: r => (if b then [] else [(i, 1)]) ++ falses r (S i) end.\n")
        ok, out = ctx.coq_eval("params", hdr + "Definition rows : list bool := [\n " + ";\n ".join(rows) + "].\nEval vm_compute in (falses rows 0).\n")
        pairs = glue.parse_pairs(out) if ok else None
        if pairs is None:
            ctx.broken.append({"kind": "correspondence", "name": "parameter model could not be evaluated", "detail": out[-600:]})
        elif pairs:
            ctx.broken.append({"kind": "correspondence", "name": "Model/Params.set_params vs SklearnEKFAdapter.set_params on operation sequences",
                               "detail": f"{len(pairs)} of {len(rows)} sequences differ; first index {pairs[0][0]}"})
    ctx.cov["input_distribution"] = dist
    ctx.cov["traces_validated_against_impl"] = len(rows)
    return ("random estimators with an explicit configuration; sequences of 2-5 operations (get-then-set, clone, set_params with 1-3 keys mixing config fields, a whole "
            "config, constructor parameters and unknown / nested-looking names); flatten and un-flatten on vectors containing negative, zero, tiny and ordinary values; "
            "real fits on 1-5 training rows; non-trivial = a sequence with a multi-key set_params; distinct by (definition, ops)")
