"""C06 — reading discarded iff NIS > k*sqrt(2m)+m; a discard changes nothing."""
import math
import shutil
import subprocess
from fractions import Fraction

from lib import ekf, models as M
from lib.ctx import Ctx, REPO, VERIF
from lib.rt import fl, ulp_shift

KS = [0.5, 1.0, 1.375, 2.5, 3.0, 5.0, 0.1, 7.25]
MS = [1, 2, 3, 4, 5, 9]


def thr_float(k, m):
    return k * math.sqrt(2 * m) + m


def exact_margin(k, m, nis: Fraction):
    """sign of nis - (k sqrt(2m) + m), decided exactly: e = nis - m; e > k sqrt(2m) <=> e > 0 and e^2 > 2 m k^2 (k > 0)"""
    e = nis - m
    kk = Fraction(k)
    lhs, rhs = e * e, 2 * m * kk * kk
    if e <= 0:
        return -1
    return 1 if lhs > rhs else (0 if lhs == rhs else -1)


def gen_cases(rng, n_random):
    cases = []
    for m in MS:
        for k in KS:
            T = thr_float(k, m)
            for sh in (-3, -2, -1, 0, 1, 2, 3):
                v = ulp_shift(T, sh)
                z = [1.0] + [0.0] * (m - 1)
                S = [[(v if (i == 0 and j == 0) else (1.0 if i == j else 0.0)) for j in range(m)] for i in range(m)]
                cases.append({"k": k, "m": m, "z": z, "Sinv": S, "kind": f"boundary{sh:+d}"})
            # off-diagonal S_inv with exactly representable products
            if m >= 2:
                z = [1.0, 2.0] + [0.5] * (m - 2)
                S = [[(2.0 if i == j else 0.25) for j in range(m)] for i in range(m)]
                cases.append({"k": k, "m": m, "z": z, "Sinv": S, "kind": "dense"})
    for _ in range(n_random):
        m = rng.choice(MS[:5])
        k = rng.choice(KS + [None])
        z = [rng.randint(-24, 24) / 8.0 for _ in range(m)]
        d = [2.0 ** rng.randint(-3, 3) for _ in range(m)]
        S = [[(d[i] if i == j else 0.0) for j in range(m)] for i in range(m)]
        cases.append({"k": k, "m": m, "z": z, "Sinv": S, "kind": "random"})
    for m in (1, 2, 3):
        cases.append({"k": None, "m": m, "z": [100.0] * m, "Sinv": [[(1.0 if i == j else 0.0) for j in range(m)] for i in range(m)], "kind": "disabled"})
    return cases


def exact_nis(c):
    z = [Fraction(v) for v in c["z"]]
    S = [[Fraction(v) for v in row] for row in c["Sinv"]]
    return sum(z[i] * S[i][j] * z[j] for i in range(len(z)) for j in range(len(z)))


def run(ctx: Ctx):
    ctx.translate("gen_layout")
    ctx.translate("gen_ekf")
    ctx.prove("Props/C06.v")
    ctx.make(["gen/EkfB.vo", "Model/EkfExec.vo"])
    ctx.trusted += [
        "translator gen_ekf.py: remove_innovation (Python), removeInnovation (innovation_filtering.h, regex + expression parser), the `if constexpr (innovation_filtering > 0.0)` block and early return of sensor_model.hpp, Config.ccode emission of the threshold",
        "theorems over any real closed field (MathComp rcfType); the float decision is a PrimFloat instance of the same regenerated threshold expression, compared bit-for-bit with Python and with the compiled helper (g++ -ffp-contract=off, Eigen stand-in) on inputs whose NIS is exact in any summation order",
        "the generated C++ filter's decision is tied by translation of the template and by the compiled-filter runs of C07",
    ]
    cases = gen_cases(ctx.rng, 150 if ctx.tier == "quick" else 5000)
    kinds = {}
    for c in cases:
        kinds[c["kind"]] = kinds.get(c["kind"], 0) + 1
    # ---------------- Python decisions
    payload = {"cases": [{"k": c["k"], "z": [float(v).hex() for v in c["z"]], "Sinv": [[float(v).hex() for v in r] for r in c["Sinv"]]} for c in cases]}
    res = ctx.run_impl("innov_py.py", payload)
    py = res.get("results") if "_error" not in res else None
    if py is None:
        ctx.broken.append({"kind": "correspondence", "name": "python remove_innovation harness", "detail": res.get("_error")})
    # ---------------- C++ helper decisions
    d = ctx.scratch("innov")
    cpp = None
    try:
        cmd = ["g++", "-std=c++20", "-O1", "-ffp-contract=off", "-I", str(VERIF / "tools/cpp/shim"), "-I", str(REPO / "cpp/include"),
               str(VERIF / "tools/cpp/innov_driver.cpp"), "-o", str(d / "innov")]
        r = subprocess.run(cmd, capture_output=True, text=True, timeout=300)
        if r.returncode != 0:
            ctx.broken.append({"kind": "correspondence", "name": "innovation_filtering.h does not compile with the driver", "detail": r.stderr[-1500:]})
        else:
            cc = [c for c in cases if c["k"] is not None]
            lines = [" ".join([str(c["m"]), float(c["k"]).hex()] + [float(v).hex() for v in c["z"]] + [float(v).hex() for row in c["Sinv"] for v in row]) for c in cc]
            r = subprocess.run([str(d / "innov")], input="\n".join(lines) + "\n", capture_output=True, text=True, timeout=300)
            outs = [int(x) for x in r.stdout.split()]
            cpp = {id(c): bool(o) for c, o in zip(cc, outs)}
    finally:
        shutil.rmtree(d, ignore_errors=True)
    # ---------------- oracle
    for i, c in enumerate(cases):
        nis = exact_nis(c)
        nontrivial = c["kind"].startswith("boundary") or c["kind"] == "dense"
        ctx.count(["C06", c], nontrivial, sample={"k": c["k"], "m": c["m"], "z": c["z"], "Sinv_diag": [c["Sinv"][j][j] for j in range(c["m"])],
                                                    "kind": c["kind"], "python": (py[i] if py else None)})
        if c["k"] is None:
            if py and py[i] is not False:
                ctx.violation(f"filtering disabled but remove_innovation returned {py[i]!r}", {"case": c}, key="disabled-discards")
            continue
        sgn = exact_margin(c["k"], c["m"], nis)
        T = thr_float(c["k"], c["m"])
        near = abs(float(nis) - T) <= 4 * math.ulp(T)
        for name, got in (("python", py[i] if py else None), ("c++ helper", cpp.get(id(c)) if cpp else None)):
            if got is None:
                continue
            if isinstance(got, dict):
                ctx.violation(f"{name} raised for m={c['m']}: {got['_raised']}", {"case": c}, key=f"{name}-raises:m={min(c['m'], 2)}")
                continue
            if not near and got != (sgn > 0):
                ctx.violation(f"{name}: reading with NIS {float(nis)!r} (m={c['m']}, k={c['k']!r}, threshold {T!r}) was {'discarded' if got else 'kept'}",
                              {"case": c, "nis": float(nis), "threshold": T}, key=f"{name}-decision")
        if py and cpp and not isinstance(py[i], dict) and id(c) in cpp and py[i] != cpp[id(c)]:
            ctx.violation(f"Python and the C++ helper decide differently for the same innovation (NIS {float(nis)!r}, m={c['m']}, k={c['k']!r}): python={py[i]} c++={cpp[id(c)]}",
                          {"case": c, "nis_hex": float(nis).hex(), "threshold_hex": T.hex()}, key="py-vs-cpp-decision")
    # ---------------- correspondence: PrimFloat instance of the regenerated threshold expressions
    if py or cpp:
        rows = []
        for i, c in enumerate(cases):
            nisf = float(exact_nis(c))
            if Fraction(nisf) != exact_nis(c):
                continue
            kk = "None" if c["k"] is None else f"(Some {fl(c['k'])})"
            p_obs = "true" if (py and py[i] is True) else "false"
            if c["k"] is None or cpp is None:
                rows.append(f"(Bool.eqb (py_remove_f {kk} {c['m']}%Z {fl(nisf)}) {p_obs}, true)")
            else:
                c_obs = "true" if cpp[id(c)] else "false"
                rows.append(f"(Bool.eqb (py_remove_f {kk} {c['m']}%Z {fl(nisf)}) {p_obs}, Bool.eqb (cpp_filter_remove_f {fl(c['k'])} {c['m']}%Z {fl(nisf)}) {c_obs})")
        txt = ("From Coq Require Import ZArith List Bool PrimFloat.\nFrom FV Require Import Base.Num gen.EkfB.\nImport ListNotations.\n"
               "Fixpoint bad (l : list (bool * bool)) (i : nat) : list (nat * nat) :=\n  match l with [] => [] | (a, b) :: r => "
               "(if a then [] else [(i, 1%nat)]) ++ (if b then [] else [(i, 2%nat)]) ++ bad r (S i) end.\n"
               "Definition rows : list (bool * bool) := [\n " + ";\n ".join(rows) + "].\nEval vm_compute in (bad rows 0).\n")
        ok, out = ctx.coq_eval("float", txt)
        from lib import glue
        pairs = glue.parse_pairs(out) if ok else None
        if pairs is None:
            ctx.broken.append({"kind": "correspondence", "name": "PrimFloat threshold model could not be evaluated"})
        elif pairs:
            ctx.broken.append({"kind": "correspondence", "name": "PrimFloat instance of the regenerated threshold decision vs implementation (1 = Python, 2 = C++ helper)",
                               "detail": f"{len(pairs)} mismatches, first {pairs[:5]}"})
        ctx.cov["traces_validated_against_impl"] = len(rows)
    # ---------------- discard leaves the estimate unchanged / innovation recorded: whole-filter runs (Python)
    jobs = ekf.make_jobs(ctx, 10 if ctx.tier == "quick" else 120, 3, ks=(0.5, 1.0, 3.0), max_sensors=2, min_sensors=1, max_readings=3)
    res = ctx.run_impl_jobs("ekf_py.py", jobs)
    n_rej = 0
    for job, r in zip(jobs, res):
        if "error" in r:
            continue
        for p, pr in zip(job["points"], r["points"]):
            for key, u in pr["updates"].items():
                if "_raised" in u:
                    ctx.violation(f"sensor_model raised with filtering enabled: {u['_raised']}", {"definition": job["defn"], "inputs": p, "k": job["k"]}, key="update-raises")
                    continue
                if u["decision"]:
                    n_rej += 1
                    if not u["unchanged"]:
                        ctx.violation("a discarded reading changed the estimate or covariance", {"definition": job["defn"], "inputs": p, "sensor": key, "observed": u}, key="discard-changes")
                    if u["innovation"] is None or u["S"] is None:
                        ctx.violation("a discarded reading's innovation was not recorded", {"definition": job["defn"], "inputs": p, "sensor": key}, key="discard-not-recorded")
    defs_text, checks, src, dist = ekf.analyse(ctx, jobs, res, "C06", do_predict=False, do_update=True)
    ekf.run_coq(ctx, jobs, res, defs_text, checks, src, "update with filtering")
    # ---------------- whole-filter runs of the compiled generated C++ filter, thresholds with many significant digits:
    # same decision as the Python filter, emitted constant = configured constant, a discarded reading leaves the
    # estimate alone and its innovation is recorded
    from lib import cppcheck, cppjobs
    cjobs = cppjobs.make_jobs(ctx, 6 if ctx.tier == "quick" else 60, n_points=3, ks=(0.5, 3.1415926535, 0.7071067811865476, 1.0), min_sensors=1, max_sensors=2)
    cpres = ctx.run_impl_jobs("ekf_py.py", cjobs)
    ccres = ctx.run_impl_jobs("cpp_gen.py", cjobs)
    n_cpp_rej = 0
    for job, c, p in zip(cjobs, ccres, cpres):
        if "error" in p:
            continue
        if "error" in c or not c.get("compile_ok") or not c.get("run_ok"):
            ctx.violation("the C++ filter with innovation filtering could not be generated / compiled / run: " + str(c.get("error") or c.get("compile_err") or "")[-300:],
                          {"definition": job["defn"], "k": job["k"]}, key="cpp-missing")
            continue
        cppcheck.compare_with_python(ctx, job, c, p)
        for pt, run, py in zip(job["points"], c["runs"], p["points"]):
            for key in job["defn"]["sensors"]:
                u = py["updates"].get(key) or {}
                if u.get("decision"):
                    n_cpp_rej += 1
                    if run.get(f"inn/{key}/has") != 1.0:
                        ctx.violation(f"generated C++ filter: the innovation of a discarded reading of sensor {key!r} is not recorded",
                                      {"definition": job["defn"], "inputs": pt, "sensor": key, "k": job["k"]}, key="cpp-discard-not-recorded")
    # ---------------- the threshold set through the scikit-learn adapter (set_params with several keys at once, then the
    # exported filter decides): configured k, or the disabled setting, must be the one the filter uses
    ajobs = []
    for k, z in ((None, 30.0), (2.0, 3.2), (8.0, 4.0), (0.5, 2.5), (None, 1.0), (3.0, 6.0)):
        for extra in ({"max_dt_sec": 0.05}, {"common_subexpression_elimination": False, "max_dt_sec": 0.05}, {}):
            ajobs.append({"kind": "set_then_decide", "sets": dict({"innovation_filtering": k}, **extra), "z": z})
    ares = ctx.run_impl_jobs("adapter_py.py", ajobs, shards=4)
    for j, r in zip(ajobs, ares):
        k, z = j["sets"]["innovation_filtering"], j["z"]
        nis = z * z / 2.0           # P = 1, R = 1, H = 1: S = 2
        want = False if k is None else nis > k * math.sqrt(2.0) + 1.0
        if "error" in r:
            ctx.violation(f"adapter set_params / export_python raised: {r['kind']}", {"sets": j["sets"], "error": r["error"]}, key="adapter-raises")
        elif r["exported_k"] != k or r["discarded"] != want:
            ctx.violation(f"set_params({j['sets']}) then export_python(): the exported filter uses innovation_filtering={r['exported_k']!r} and "
                          f"{'discards' if r['discarded'] else 'uses'} a reading with NIS {nis!r}; configured {k!r} ({'discard' if want else 'use'} expected)",
                          {"sets": j["sets"], "reading": z, "observed": r}, key="adapter-threshold-lost")
    dist["adapter_threshold_cases"] = len(ajobs)
    dist["cpp_whole_filter_jobs"] = len(cjobs)
    dist["cpp_rejected_updates"] = n_cpp_rej
    ctx.cov["input_distribution"] = {"decision_cases": kinds, "whole_filter_updates": dist["updates"], "whole_filter_rejected": n_rej,
                                     "cpp_whole_filter_jobs": dist.get("cpp_whole_filter_jobs"), "cpp_rejected_updates": dist.get("cpp_rejected_updates")}
    return ("decision cases: for m in {1,2,3,4,5,9} and 8 thresholds k, NIS placed exactly at the binary64 threshold and 1,2,3 ulp below/above "
            "(S^-1 = diag(v,1,..), z = e1: exact in any summation order), dense exactly-representable cases, random dyadic cases, disabled setting; "
            "decided by python.remove_innovation and by the compiled innovation_filtering.h; oracle: exact rational comparison away from the boundary, "
            "agreement of the implementations and of the PrimFloat model at the boundary; plus whole-filter updates with filtering on; "
            "non-trivial = boundary or dense case; distinct by case")
