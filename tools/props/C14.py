"""C14 — structurally invalid definitions are refused; valid ones are accepted."""
import copy

from lib import glue, models as M
from lib.ctx import Ctx

ENTRY = ["ui", "py_compile", "py_compile_ekf", "cpp_compile", "cpp_compile_ekf"]


def raw_of(d):
    return {"dt": d["dt"], "state": list(d["state"]), "control": list(d["control"]), "calibration": list(d["calibration"]),
            "state_model": copy.deepcopy(d["state_model"]), "calibration_map": dict(d["calibration_map"]),
            "process_noise": [["sym", u, v] for u, v in d["process_noise"].items()],
            "sensors": copy.deepcopy(d["sensors"]), "sensor_noise": copy.deepcopy(d["sensor_noise"])}


def faults(raw, fresh):
    """every single structural fault of the listed kinds at every applicable position -> (kind, faulty raw, first entry point level that must refuse)"""
    out = []

    def add(kind, level, mut):
        r = copy.deepcopy(raw)
        mut(r)
        out.append((kind, r, level))
    S, U, C = raw["state"], raw["control"], raw["calibration"]
    for s in S:
        add(f"overlap state/control ({s})", "definition", lambda r, s=s: r["control"].append(s))
        add(f"overlap state/calibration ({s})", "definition", lambda r, s=s: (r["calibration"].append(s), r["calibration_map"].__setitem__(s, 0.5)))
    for u in U:
        add(f"overlap control/calibration ({u})", "definition", lambda r, u=u: (r["calibration"].append(u), r["calibration_map"].__setitem__(u, 0.5)))
    for s in S:
        add(f"update expression missing for {s}", "definition", lambda r, s=s: r["state_model"].pop(s))
        add(f"update expression keyed by a non-state instead of {s}", "definition", lambda r, s=s: r["state_model"].__setitem__(fresh, r["state_model"].pop(s)))
    add("extra update expression for a non-state", "definition", lambda r: r["state_model"].__setitem__(fresh, M.num(1)))
    for c in C:
        add(f"calibration value missing for {c}", "model", lambda r, c=c: r["calibration_map"].pop(c))
        add(f"calibration value keyed by an undeclared symbol instead of {c}", "model", lambda r, c=c: r["calibration_map"].__setitem__(fresh, r["calibration_map"].pop(c)))
    add("calibration value for an undeclared symbol", "model", lambda r: r["calibration_map"].__setitem__(fresh, 1.0))
    for i, u in enumerate(U):
        add(f"process noise missing for {u}", "filter", lambda r, i=i: r["process_noise"].pop(i))
        add(f"process noise negative for {u}", "filter", lambda r, i=i: r["process_noise"][i].__setitem__(2, -0.5))
        add(f"process noise keyed by an undeclared symbol instead of {u}", "filter", lambda r, i=i: r["process_noise"][i].__setitem__(1, fresh))
        add(f"process noise keyed by a string instead of {u}", "filter", lambda r, i=i: r["process_noise"][i].__setitem__(0, "str"))
        add(f"process noise keyed by a different symbol of the same name as {u}", "filter", lambda r, i=i: r["process_noise"][i].__setitem__(0, "symreal"))
        if S:
            add(f"process noise keyed by a state instead of {u}", "filter", lambda r, i=i: r["process_noise"][i].__setitem__(1, S[0]))
    add("process noise for an undeclared symbol", "filter", lambda r: r["process_noise"].append(["sym", fresh, 0.5]))
    if S:
        add("process noise for a state symbol", "filter", lambda r: r["process_noise"].append(["sym", S[0], 0.5]))
    for k, rd in raw["sensors"].items():
        for rn in rd:
            if U:
                add(f"sensor {k}.{rn} depends on a control", "filter", lambda r, k=k, rn=rn: r["sensors"][k].__setitem__(rn, M.add(r["sensors"][k][rn], M.var(U[0]))))
            add(f"sensor {k}.{rn} depends on an undeclared symbol", "filter", lambda r, k=k, rn=rn: r["sensors"][k].__setitem__(rn, M.add(r["sensors"][k][rn], M.var(fresh))))  # added, not multiplied: a reading that is identically 0 would swallow a factor
            if U:
                add(f"sensor {k}.{rn} depends on a control and an undeclared symbol", "filter",
                    lambda r, k=k, rn=rn: r["sensors"][k].__setitem__(rn, M.add(M.add(r["sensors"][k][rn], M.var(U[0])), M.var(fresh))))
            add(f"sensor {k}.{rn} depends on two undeclared symbols", "filter",
                lambda r, k=k, rn=rn: r["sensors"][k].__setitem__(rn, M.add(M.add(r["sensors"][k][rn], M.var(fresh)), M.mul(M.var(fresh + "_b"), M.var(fresh)))))
            add(f"noise missing for reading {k}.{rn}", "filter", lambda r, k=k, rn=rn: r["sensor_noise"][k].pop(rn))
            add(f"noise keyed by an unknown reading instead of {k}.{rn}", "filter", lambda r, k=k, rn=rn: r["sensor_noise"][k].__setitem__("zz_unknown", r["sensor_noise"][k].pop(rn)))
        add(f"noise for an unknown reading of {k}", "filter", lambda r, k=k: r["sensor_noise"][k].__setitem__("zz_unknown", 0.5))
        add(f"sensor noise missing for sensor {k}", "filter", lambda r, k=k: r["sensor_noise"].pop(k))
    add("sensor noise for an undeclared sensor", "filter", lambda r: r["sensor_noise"].__setitem__("ghost", {"r": 1.0}))
    return out


def free_vars(e, acc):
    if e[0] == "var":
        if e[1] not in acc:
            acc.append(e[1])
    elif e[0] in ("add", "mul"):
        free_vars(e[1], acc); free_vars(e[2], acc)
    elif e[0] == "pow":
        free_vars(e[1], acc)
    elif e[0] == "fn":
        free_vars(e[2], acc)
    return acc


def coq_vdef(r):
    pn = M.coq_list([f"(({'true' if k in ('sym', 'symreal') else 'false'}, {M.coq_str(n + ('#real' if k == 'symreal' else ''))}), {'true' if v >= 0 else 'false'})"
                     for k, n, v in r["process_noise"]])
    sm = M.coq_list([f"({M.coq_str(k)}, {M.coq_list([f'({M.coq_str(rn)}, {M.coq_names(free_vars(e, []))})' for rn, e in rd.items()])})" for k, rd in r["sensors"].items()])
    sn = M.coq_list([f"({M.coq_str(k)}, {M.coq_names(list(rd))})" for k, rd in r["sensor_noise"].items()])
    return (f"(mkV {M.coq_names(r['state'])} {M.coq_names(r['control'])} {M.coq_names(r['calibration'])} {M.coq_names(list(r['state_model']))} "
            f"{M.coq_names(list(r['calibration_map']))} {pn} {sm} {sn})")


def run(ctx: Ctx):
    n_base = 6 if ctx.tier == "quick" else 60
    n_pairs = 40 if ctx.tier == "quick" else 600
    ctx.translate("gen_guards")
    ctx.prove("Props/C14.v")
    ctx.trusted += [
        "Model/Validate.v: hand model of the guard sequences of ui.Model, common.model_validation, python/cpp Model and filter constructors and the compile entry points; gen_guards.py re-extracts the guards (condition text, exception, order, validation calls) and fails closed on any difference",
        "sympy free_symbols, Python set/dict semantics, named-container keyword refusal (C13) are oracles; free variables of generated sensor expressions are computed by the harness",
        "C++ entry points are run with real --header/--source paths (lazily generated parts execute); 'accepted' requires success=True and both files written",
    ]
    defs, meta = [], []
    for b in range(n_base):
        d = M.gen_definition(ctx.rng, rational=True, min_sensors=1, max_sensors=2, max_states=3, max_readings=2,
                             force_control=(True if b % 2 == 0 else None), force_cal=(True if b % 3 != 2 else None))
        fresh = [n for n in M.NAME_POOL if n not in d["state"] + d["control"] + d["calibration"]][0]
        raw = raw_of(d)
        defs.append(raw); meta.append(("valid", "none", b))
        fl = faults(raw, fresh)
        for fi, (kind, r, level) in enumerate(fl):
            defs.append(r); meta.append((kind, level, b))
            if level == "filter" and fi % 3 == 0 and all(r[f_] == raw[f_] for f_ in ("dt", "state", "control", "calibration", "state_model")):
                # the same fault after a valid filter was built from the same model object
                r2 = copy.deepcopy(r)
                r2["valid_first"] = {k_: copy.deepcopy(raw[k_]) for k_ in ("process_noise", "sensors", "sensor_noise", "calibration_map")}
                defs.append(r2); meta.append((kind + " [after a valid filter built from the same model object]", level, b))
        for _ in range(n_pairs // n_base):
            (k1, r1, l1), (k2, r2, l2) = ctx.rng.sample(fl, 2)
            # apply the second fault's difference on top of the first where they touch different fields
            r = copy.deepcopy(r1)
            for fld in r2:
                if r2[fld] != raw[fld] and r1[fld] == raw[fld]:
                    r[fld] = copy.deepcopy(r2[fld])
            lv = "definition" if "definition" in (l1, l2) else ("model" if "model" in (l1, l2) else "filter")
            defs.append(r); meta.append((f"pair: {k1} + {k2}", lv, b))
    # fixed valid definitions: poles at the all-zero state (the constructors evaluate the model there as a type check)
    defs.append(raw_of(M.pole_at_zero_definition())); meta.append(("valid", "none", n_base))
    # readings keyed by Symbol (the project's own idiom), one and two readings per sensor
    for nr in (1, 2):
        raw_s = raw_of(M.symbol_keyed_readings_definition(nr))
        raw_s["reading_keys"] = "symbol"
        defs.append(raw_s); meta.append(("valid", "none", n_base + nr))
    res = ctx.run_impl_jobs("valid_py.py", defs, key="defs", timeout=3000)
    kinds = {}
    rows = []
    for i, (raw, (kind, level, b), r) in enumerate(zip(defs, meta, res)):
        cat = kind.split(" (")[0].split(" for ")[0][:40] if not kind.startswith("pair") else "pair"
        kinds[cat] = kinds.get(cat, 0) + 1
        ctx.count(["C14", raw], kind != "valid", sample={"fault": kind, "verdicts": {k: r.get(k) for k in ENTRY}} if "error" not in r else None)
        if "error" in r:
            ctx.broken.append({"kind": "correspondence", "name": "validation harness crashed", "detail": r["error"]})
            continue
        # ---- oracle: the property text
        def acc(e):
            return r[e] == "accept"
        if kind == "valid":
            sym_sorted = (raw.get("reading_keys") == "symbol" and any(len(rd) >= 2 for rd in raw["sensors"].values())
                          and [r[e] for e in ENTRY] == ["accept", "accept", "refuse:TypeError", "accept", "refuse:TypeError"])
            if sym_sorted:
                # finding F17 (known_findings.json): exactly this verdict pattern on exactly this kind of definition; the model's
                # verdict (accept) is not compared for it - the disagreement is the finding
                ctx.violation("a structurally valid definition whose sensor has two readings keyed by Symbol (the project's own way of keying readings) is refused by "
                              "python.compile_ekf and cpp.compile_ekf with TypeError: the reading keys are sorted without a key function and sympy refuses to order two symbols",
                              {"definition": raw, "verdicts": r}, key="valid-refused:two-symbol-keyed-readings")
                continue
            for e in ENTRY:
                if not acc(e):
                    ctx.violation(f"a structurally valid definition is refused by {e}: {r[e]}", {"definition": raw, "verdicts": r}, key=f"valid-refused:{e}")
        else:
            must_refuse = {"definition": ["ui"], "model": ["py_compile", "py_compile_ekf", "cpp_compile", "cpp_compile_ekf"],
                           "filter": ["py_compile_ekf", "cpp_compile_ekf"]}[level]
            if level == "definition":
                if acc("ui"):
                    # a refused definition can never reach the compile entry points; if ui.Model lets it through, they must refuse
                    bad = [e for e in ENTRY[1:] if acc(e)]
                    ctx.violation(f"invalid definition ({kind}) is accepted at definition time" + (f" and turned into output by {bad}" if bad else ""),
                                  {"definition": raw, "fault": kind, "verdicts": r}, key="invalid-accepted:ui")
            else:
                for e in must_refuse:
                    if acc(e):
                        ctx.violation(f"invalid definition ({kind}) is accepted by {e}" + (" and source files were written" if r.get(e + "_files_written") else ""),
                                      {"definition": raw, "fault": kind, "verdicts": r}, key=f"invalid-accepted:{e}")
                if level == "filter":
                    for e in ("py_compile", "cpp_compile"):
                        if not acc(e):
                            ctx.violation(f"{e} refuses a definition whose model part is valid (fault only in noise/sensors: {kind}): {r[e]}",
                                          {"definition": raw, "fault": kind, "verdicts": r}, key=f"valid-refused:{e}")
            if acc("py_compile_ekf") != acc("cpp_compile_ekf") and r["py_compile_ekf"] != "skip":
                ctx.violation(f"Python and C++ filter entry points disagree on ({kind}): {r['py_compile_ekf']} vs {r['cpp_compile_ekf']}",
                              {"definition": raw, "fault": kind, "verdicts": r}, key="py-cpp-disagree")
        # ---- model verdicts (Coq)
        def b2(x):
            return "true" if x else "false"
        v = coq_vdef(raw)
        if r["ui"] == "accept":
            rows.append((i, f"(Bool.eqb (accepts_ui {v}) true && Bool.eqb (accepts_py_compile {v}) {b2(acc('py_compile'))} && Bool.eqb (accepts_py_compile_ekf {v}) {b2(acc('py_compile_ekf'))} "
                            f"&& Bool.eqb (accepts_cpp_compile {v}) {b2(acc('cpp_compile'))} && Bool.eqb (accepts_cpp_compile_ekf {v}) {b2(acc('cpp_compile_ekf'))})"))
        else:
            rows.append((i, f"(Bool.eqb (accepts_ui {v}) false)"))
    items = []
    shard = 200
    for s in range(0, len(rows), shard):
        txt = ("From Coq Require Import String List Bool.\nFrom FV Require Import Base.Expr Model.Validate.\nImport ListNotations.\n"
               "Fixpoint falses (l : list bool) (i : nat) : list (nat * nat) := match l with [] => [] | b :: r => (if b then [] else [(i, 1)]) ++ falses r (S i) end.\n"
               "Definition rows : list bool := [\n " + ";\n ".join(t for _, t in rows[s:s + shard]) + "].\nEval vm_compute in (falses rows 0).\n")
        items.append((f"valid_{s}", txt))
    for (tag, _), (ok, out), s in zip(items, ctx.coq_eval_many(items), range(0, len(rows), shard)):
        pairs = glue.parse_pairs(out) if ok else None
        if pairs is None:
            ctx.broken.append({"kind": "correspondence", "name": "validation model could not be evaluated", "detail": out[-400:]})
            break
        for k, _ in pairs[:3]:
            i = rows[s + k][0]
            ctx.broken.append({"kind": "correspondence", "name": "Model/Validate.v verdicts vs the real entry points",
                               "detail": f"fault={meta[i][0]} verdicts={ {e: res[i].get(e) for e in ENTRY} } definition={defs[i]}"})
    ctx.cov["input_distribution"] = {"base_definitions": n_base, "definitions": len(defs), "fault_kinds": kinds}
    ctx.cov["traces_validated_against_impl"] = len(rows)
    return ("valid definitions (1-3 states, controls / calibration present or not, 1-2 sensors) plus EVERY single structural fault of the listed kinds "
            "at every applicable position (overlaps, missing/extra/re-keyed update expressions, calibration values, process noise missing / negative / "
            "re-keyed / string-keyed / extra, sensor models on controls or undeclared symbols, sensor noise missing / extra / re-keyed per sensor and per "
            "reading) and random pairs of faults, through ui.Model, python.compile, python.compile_ekf, cpp.compile, cpp.compile_ekf (real output paths); "
            "non-trivial = a definition with an injected fault; distinct by definition")
