"""C13 — values are bound by name, never by position or spelling."""
from lib import cppcheck, cppjobs, ekf, glue, models as M
from lib.ctx import Ctx


def by_name_py(r, d):
    """normalise an ekf_py result to by-name dictionaries (state order and reading order are the implementation's)"""
    S = r["arglist_state"]
    out = []
    for pr in r["points"]:
        o = {}
        p = pr["predict"]
        if "_raised" in p:
            o["predict"] = "raised"
        else:
            o["predict"] = {"state": p["state"], "cov": {a: {b: p["cov"][i][j] for j, b in enumerate(S)} for i, a in enumerate(S)}}
        o["updates"] = {}
        for k, u in pr["updates"].items():
            if "_raised" in u:
                o["updates"][k] = "raised"
            else:
                o["updates"][k] = {"state": u["state"], "cov": {a: {b: u["cov"][i][j] for j, b in enumerate(S)} for i, a in enumerate(S)},
                                   "innovation": u["innovation"], "rejected": u["same_objects"]}
        out.append(o)
    return out


def rename_byname(o, f, fr, fk):
    g = lambda x: f.get(x, x)
    def st(dct):
        return {g(k): v for k, v in dct.items()}
    def cov(c):
        return {g(a): {g(b): v for b, v in row.items()} for a, row in c.items()}
    res = {}
    res["predict"] = o["predict"] if o["predict"] == "raised" else {"state": st(o["predict"]["state"]), "cov": cov(o["predict"]["cov"])}
    res["updates"] = {}
    for k, u in o["updates"].items():
        k2 = fk.get(k, k)
        if u == "raised":
            res["updates"][k2] = u
        else:
            res["updates"][k2] = {"state": st(u["state"]), "cov": cov(u["cov"]),
                                  "innovation": {fr.get(k, {}).get(r, r): v for r, v in (u["innovation"] or {}).items()}, "rejected": u["rejected"]}
    return res


def close_tree(a, b, tol=1e-9, scale=None):
    if isinstance(a, dict) and isinstance(b, dict):
        if set(a) != set(b):
            return False
        vals = [abs(v) for v in _leaves(b) if v == v and abs(v) != float("inf")]
        sc = max([1.0] + vals)
        return all(close_tree(a[k], b[k], tol, sc) for k in a)
    if isinstance(a, float) and isinstance(b, float):
        if a != a or b != b:
            return a != a and b != b        # undefined (NaN) under the same name on both sides: outside the quantifier, but equal
        if abs(a) == float("inf") or abs(b) == float("inf"):
            return a == b
        return abs(a - b) <= tol * (scale or max(1.0, abs(b)))
    return a == b


def _leaves(t):
    if isinstance(t, dict):
        for v in t.values():
            yield from _leaves(v)
    elif isinstance(t, float):
        yield t


def cpp_by_name(run, d):
    S, U, C = sorted(d["state"]), sorted(d["control"]), sorted(d["calibration"])
    n = len(S)
    o = {"model": {S[i]: run.get(f"model/{i}/0") for i in range(n)},
         "pm_state": {S[i]: run.get(f"pm/state/{i}/0") for i in range(n)},
         "pm_cov": {S[i]: {S[j]: run.get(f"pm/cov/{i}/{j}") for j in range(n)} for i in range(n)},
         "G": {S[i]: {S[j]: run.get(f"G/{i}/{j}") for j in range(n)} for i in range(n)},
         "V": {S[i]: {U[j]: run.get(f"V/{i}/{j}") for j in range(len(U))} for i in range(n)}, "sensors": {}}
    for k, rd in d["sensors"].items():
        R = sorted(rd)
        o["sensors"][k] = {"h": {R[i]: run.get(f"h/{k}/{i}/0") for i in range(len(R))},
                           "H": {R[i]: {S[j]: run.get(f"H/{k}/{i}/{j}") for j in range(n)} for i in range(len(R))},
                           "upd_state": {S[i]: run.get(f"upd/{k}/state/{i}/0") for i in range(n)}}
    return o


def rename_cpp(o, f, fr, fk):
    g = lambda x: f.get(x, x)
    r = {"model": {g(k): v for k, v in o["model"].items()}, "pm_state": {g(k): v for k, v in o["pm_state"].items()},
         "pm_cov": {g(a): {g(b): v for b, v in row.items()} for a, row in o["pm_cov"].items()},
         "G": {g(a): {g(b): v for b, v in row.items()} for a, row in o["G"].items()},
         "V": {g(a): {g(b): v for b, v in row.items()} for a, row in o["V"].items()}, "sensors": {}}
    for k, s in o["sensors"].items():
        rr = fr.get(k, {})
        r["sensors"][fk.get(k, k)] = {"h": {rr.get(x, x): v for x, v in s["h"].items()},
                                      "H": {rr.get(x, x): {g(b): v for b, v in row.items()} for x, row in s["H"].items()},
                                      "upd_state": {g(a): v for a, v in s["upd_state"].items()}}
    return r


def run(ctx: Ctx):
    n = 10 if ctx.tier == "quick" else 150
    ctx.translate("gen_layout")
    ctx.translate("gen_cppgen")
    ctx.translate("gen_named")
    ctx.prove("Props/C13.v")
    ctx.make(["Model/Named.vo", "Model/CppExec.vo"])
    ctx.trusted += [
        "Model/Named.v: hand model of common.named_vector / named_covariance (constructor by keyword, from_data, from_dict), tied by correspondence on valid / unknown-keyword / wrong-shape cases",
        "translator gen_named.py: the __subclasshook__ of the generated classes (common.py) as a conjunction of name / arglist / shape comparisons, and the isinstance guards of Model.model, SensorModel.model, process_model, sensor_model (python.py); Python's rule that isinstance on an abc.ABC consults __subclasshook__ is trusted",
        "renaming and declaration-order invariance: theorems about evaluation and name sorting (any renaming / permutation); the implementations are exercised on renamed twins and re-declared copies (Python and compiled C++), compared by name",
    ]
    # ---------------- named containers: model vs implementation (sequences of constructions on one class)
    cases = []
    for i in range(40 if ctx.tier == "quick" else 400):
        names = ctx.rng.sample(M.NAME_POOL, ctx.rng.randint(1, 5))
        kind = ctx.rng.choice(["vector", "covariance"])
        ops = []
        for _ in range(ctx.rng.randint(1, 4)):
            op = ctx.rng.choice(["make", "make", "from_dict", "from_data"])
            kw = {k: M.rnd_point(ctx.rng) for k in ctx.rng.sample(names, ctx.rng.randint(0, len(names)))}
            if op != "from_data" and ctx.rng.random() < 0.25:
                kw[ctx.rng.choice([x for x in M.NAME_POOL if x not in names])] = 1.5
            shape = [max(0, len(names) + ctx.rng.choice([0, 0, 1, -1])), max(0, (1 if kind == "vector" else len(names)) + ctx.rng.choice([0, 0, 0, 1]))]
            ops.append({"op": op, "kwargs": kw, "shape": shape})
            if op == "from_data" and len(names) >= 2 and ctx.rng.random() < 0.6:
                n_ = len(names)
                cands = [[1, n_], [n_]] if kind == "vector" else [[1, n_ * n_], [n_ * n_], [n_ * n_, 1]]
                if kind == "vector" and n_ == 4:
                    cands.append([2, 2])
                ops.append({"op": "from_data_reshaped", "kwargs": {}, "raw_shape": ctx.rng.choice(cands), "shape": shape})
            if op == "from_dict" and len(names) >= 2 and ctx.rng.random() < 0.5:
                a, b = ctx.rng.sample(names, 2)
                known_only = {k: v for k, v in kw.items() if k in names and k != a}
                ops.append({"op": "from_dict_pair", "kwargs": known_only, "pair": [a, b, 0.125], "shape": shape})
        cases.append({"kind": kind, "arglist": names, "ops": ops})
    # ---------------- values carrying other names handed to an operation: refused, or bound by name - never by position
    fcases = []
    for i in range(4 if ctx.tier == "quick" else 40):
        k = ctx.rng.randint(2, 3)
        nm = ctx.rng.sample(M.NAME_POOL, 2 * k + 4)
        fcases.append({"own": nm[:k], "foreign": nm[k:2 * k], "s1": ["r_" + nm[2 * k], "r_" + nm[2 * k + 1]], "s2": ["r_" + nm[2 * k + 2], "r_" + nm[2 * k + 3]],
                       "data": [M.rnd_point(ctx.rng) + 0.0078125 * (j + 1) for j in range(k)], "rdata": [M.rnd_point(ctx.rng), M.rnd_point(ctx.rng)],
                       "diag": [ctx.rng.choice([0.5, 1.0, 2.0]) + 0.125 * j for j in range(k)]})
    fr = ctx.run_impl("foreign_py.py", {"cases": fcases})
    if "_error" in fr:
        ctx.broken.append({"kind": "correspondence", "name": "foreign-name harness", "detail": fr["_error"]})
    else:
        for c, res_ in zip(fcases, fr["results"]):
            ctx.count(["foreign", c], True, sample={"case": c, "result": res_})
            for op, o in res_.items():
                if isinstance(o["own"], dict):
                    ctx.violation(f"{op}: an operation on its own named values raised {o['own']['err']}", {"case": c, "op": op, "observed": o}, key="own-named-value-refused")
                elif isinstance(o["foreign"], list) and all(glue.close(a, b) for a, b in zip(o["foreign"], o["own"])):
                    what = {"model": "a State generated for other state names", "process_state": "a State generated for other state names",
                            "process_cov": "a Covariance generated for other state names", "sensor": "a Reading generated for another sensor's reading names"}[op]
                    ctx.violation(f"{op}: {what} ({c['foreign'] if op != 'sensor' else c['s2']}) is accepted where {c['own'] if op != 'sensor' else c['s1']} "
                                  f"is expected and its values are bound by position (result identical to passing the same numbers under the right names)",
                                  {"case": c, "op": op, "observed": o}, key="foreign-names-bound-by-position")
    # ---------------- declaration order of the per-sensor noise dictionaries: a fit whose optimiser returns its starting
    # point hands every named noise value back under its own name
    ojobs = []
    for i in range(3 if ctx.tier == "quick" else 30):
        d = M.gen_linear_definition(ctx.rng, singular=False)
        keys = ctx.rng.sample(M.SENSOR_POOL, 3)
        d["sensors"] = {k: {r: M.add(M.var(ctx.rng.choice(d["state"])), M.mul(M.num(1, 4), M.var(ctx.rng.choice(d["state"]))))
                            for r in ctx.rng.sample(M.READING_POOL, 1 + j % 2)} for j, k in enumerate(keys)}
        vals = ctx.rng.sample([0.25, 0.5, 1.0, 2.0, 4.0, 0.125, 8.0], 6)
        d["sensor_noise"] = {k: {r: vals.pop() for r in rd} for k, rd in d["sensors"].items()}
        width = len(d["control"]) + sum(len(r) for r in d["sensors"].values())
        ojobs.append({"kind": "noise_order", "defn": d, "decl": {"container": "set", "perm_seed": i},
                      "X": [[M.rnd_point(ctx.rng) / 16 for _ in range(width)] for _ in range(4)]})
    for oj, o in zip(ojobs, ctx.run_impl_jobs("adapter_py.py", ojobs)):
        ctx.count(["noise-order", oj], True, sample={"sensor_noise": oj["defn"]["sensor_noise"], "result": o})
        if "error" in o:
            ctx.broken.append({"kind": "correspondence", "name": "noise-order harness", "detail": str(o["error"])[-600:]})
            continue
        a, b = o.get("sorted", {}), o.get("reversed", {})
        if ("err" in a) != ("err" in b) or ("err" not in a and any(
                not glue.close(a[f][k_][r_], b[f][k_][r_]) if f == "sensor_noises" else not glue.close(a[f][k_], b[f][k_])
                for f in ("sensor_noises", "process_noise") for k_ in a[f] for r_ in (a[f][k_] if f == "sensor_noises" else [None]))):
            ctx.violation(f"fitting (optimiser returning its starting point) leaves the named noise values {b.get('sensor_noises', b)} when the per-sensor noise dictionaries "
                          f"are declared in reverse key order, {a.get('sensor_noises', a)} when declared in sorted order (given: {oj['defn']['sensor_noise']})",
                          {"definition": oj["defn"], "X": oj["X"], "sorted": a, "reversed": b}, key="noise-declaration-order")
    r = ctx.run_impl("named_py.py", {"cases": cases})
    kinds = {}
    if "_error" in r:
        ctx.broken.append({"kind": "correspondence", "name": "named container harness", "detail": r["_error"]})
    else:
        rows, rowsrc = [], []
        for ci, (c, outs) in enumerate(zip(cases, r["results"])):
            args = M.coq_names(c["arglist"])
            ctx.count(["named", c], len(c["ops"]) >= 2 and len(c["arglist"]) >= 2, sample=dict(c, result=outs))
            for oi, (op, o) in enumerate(zip(c["ops"], outs)):
                tag = f"{c['kind']}/{op['op']}/{'err' if 'err' in o else 'ok'}"
                kinds[tag] = kinds.get(tag, 0) + 1
                if op["op"] == "from_data_reshaped":
                    if "err" not in o:
                        ctx.violation(f"named {c['kind']}.from_data accepted data of shape {tuple(op['raw_shape'])} for {len(c['arglist'])} names "
                                      f"(required: {(len(c['arglist']), 1) if c['kind'] == 'vector' else (len(c['arglist']), len(c['arglist']))})",
                                      {"case": c, "op": oi, "observed": o}, key="named-accepts-reshaped")
                    continue
                if op["op"] == "from_dict_pair":
                    if "err" not in o:
                        ctx.violation(f"named {c['kind']}.from_dict accepted the key ({op['pair'][0]}, {op['pair'][1]}), which is not one of its names "
                                      f"(stored: {o['data']})", {"case": c, "op": oi, "observed": o}, key="named-accepts-pair-key")
                    continue
                if op["op"] == "from_data":
                    rr, cc = op["shape"]
                    data = "(" + M.coq_list([M.coq_list([M.coq_q(i * cc + j + 0.5) for j in range(cc)]) for i in range(rr)]) + " : lmat)"
                    model = f"(nv_from_data {args} {data})" if c["kind"] == "vector" else f"(ncov_from_data {args} {data})"
                else:
                    model = f"({'nv_make' if c['kind'] == 'vector' else 'ncov_make'} {args} {M.coq_assoc_q(op['kwargs'])})"
                if "err" in o:
                    rows.append(f"match {model} with Err _ => true | Ok _ => false end")
                    rowsrc.append((ci, oi))
                else:
                    for which in ("data", "data_after_all"):
                        if c["kind"] == "vector":
                            exp = "(" + M.coq_list([M.coq_q(row[0]) for row in o[which]]) + " : list Q)"
                            rows.append(f"match {model} with Ok v => lclose (0 # 1) (map (fun x => [x]) v) (map (fun x => [x]) {exp}) | Err _ => false end")
                        else:
                            exp = "(" + M.coq_list([M.coq_list([M.coq_q(x) for x in row]) for row in o[which]]) + " : lmat)"
                            rows.append(f"match {model} with Ok v => lclose (0 # 1) v {exp} | Err _ => false end")
                        rowsrc.append((ci, oi))
                # spec-level oracle (property text): unknown names refused, values under their own names, defaults
                unknown = [k for k in op["kwargs"] if k not in c["arglist"]] if op["op"] != "from_data" else []
                if unknown and "err" not in o:
                    ctx.violation(f"named {c['kind']} accepted the unknown name {unknown[0]!r}", {"case": c, "op": oi, "observed": o}, key="named-accepts-unknown")
                if op["op"] != "from_data" and not unknown:
                    if "err" in o:
                        ctx.violation(f"named {c['kind']} refused valid names: {o['err']}", {"case": c, "op": oi}, key="named-refuses-valid")
                    else:
                        for which in ("data", "data_after_all"):
                            for i, a in enumerate(c["arglist"]):
                                want = op["kwargs"].get(a, 0.0 if c["kind"] == "vector" else 1.0)
                                got = o[which][i][0] if c["kind"] == "vector" else o[which][i][i]
                                if got != want:
                                    ctx.violation(f"named {c['kind']}, construction #{oi} of {len(c['ops'])} on one class: value for {a!r} reads {got!r} "
                                                  f"({'immediately' if which == 'data' else 'after the later constructions'}), supplied/default {want!r}",
                                                  {"case": c, "op": oi, "observed": outs}, key=f"named-wrong-slot:{which}")
        txt = ("From Coq Require Import String List ZArith QArith Bool.\nFrom FV Require Import Base.Expr Base.ListMat Model.Named.\nImport ListNotations.\n"
               "Fixpoint falses (l : list bool) (i : nat) : list (nat * nat) := match l with [] => [] | b :: r => (if b then [] else [(i, 1%nat)]) ++ falses r (S i) end.\n"
               "Definition rows : list bool := [\n " + ";\n ".join(rows) + "].\nEval vm_compute in (falses rows 0).\n")
        ok, out = ctx.coq_eval("named", txt)
        pairs = glue.parse_pairs(out) if ok else None
        if pairs is None:
            ctx.broken.append({"kind": "correspondence", "name": "named container model could not be evaluated"})
        elif pairs:
            ci, oi = rowsrc[pairs[0][0]]
            ctx.broken.append({"kind": "correspondence", "name": "Model/Named.v vs common.named_vector / named_covariance",
                               "detail": f"{len(pairs)} of {len(rows)} differ; first: {cases[ci]} op #{oi} -> {r['results'][ci]}"})
    # ---------------- renamed twins and re-declared copies, Python and C++
    base = cppjobs.make_jobs(ctx, n, min_sensors=1, max_sensors=2, ks=(None, 3.0))
    jobs, meta = [], []
    for j in base:
        f, fr, fk = M.random_renaming(ctx.rng, j["defn"])
        twin = dict(j, defn=M.rename_definition(j["defn"], f, fr, fk), points=[M.rename_point(p, f, fr, fk) for p in j["points"]],
                    decl={"container": ctx.rng.choice(["set", "list"]), "perm_seed": ctx.rng.randint(0, 10**6)})
        redecl = dict(j, decl={"container": ("list" if j["decl"]["container"] == "set" else "set"), "perm_seed": ctx.rng.randint(0, 10**6)})
        for x, m in ((j, ("base", None)), (twin, ("twin", (f, fr, fk))), (redecl, ("redecl", None))):
            jobs.append(x)
            meta.append(m)
    pres = ctx.run_impl_jobs("ekf_py.py", jobs)
    cres = ctx.run_impl_jobs("cpp_gen.py", jobs, timeout=3000)
    for bi in range(len(base)):
        b, t, rd = 3 * bi, 3 * bi + 1, 3 * bi + 2
        d = jobs[b]["defn"]
        f, fr, fk = meta[t][1]
        moved = sorted(d["state"]) != [k for k, _ in sorted(((k, f[k]) for k in d["state"]), key=lambda kv: kv[1])]
        ctx.count(["twin", d, f], moved, sample={"states": sorted(d["state"]), "renamed_to": [f[s] for s in sorted(d["state"])], "layout_permuted": moved})
        if any("error" in pres[x] for x in (b, t, rd)):
            ctx.violation("compile_ekf accepts a definition but refuses its renamed twin / re-declared copy (or vice versa)",
                          {"definition": d, "renaming": f, "errors": [pres[x].get("error") for x in (b, t, rd)]}, key="py-twin-compile")
        else:
            ob, ot, ord_ = by_name_py(pres[b], d), by_name_py(pres[t], jobs[t]["defn"]), by_name_py(pres[rd], d)
            for pi in range(len(ob)):
                if not close_tree(ot[pi], rename_byname(ob[pi], f, fr, fk)):
                    ctx.violation("Python filter: a consistently renamed model gives different named outputs",
                                  {"definition": d, "renaming": f, "reading_renaming": fr, "inputs": jobs[b]["points"][pi], "original": ob[pi], "renamed": ot[pi]}, key="py-rename")
                    break
                if not close_tree(ord_[pi], ob[pi]):
                    ctx.violation("Python filter: named outputs depend on the declaration order / container",
                                  {"definition": d, "decl_a": jobs[b]["decl"], "decl_b": jobs[rd]["decl"], "a": ob[pi], "b": ord_[pi]}, key="py-redecl")
                    break
        okc = [("error" not in cres[x]) and cres[x].get("compile_ok") and cres[x].get("run_ok") for x in (b, t, rd)]
        if not all(okc):
            if any(okc):
                ctx.violation("generated C++ compiles for a definition but not for its renamed twin / re-declared copy (identifier-safe names)",
                              {"definition": d, "renaming": f, "detail": [cres[x].get("compile_err") or cres[x].get("error") for x in (b, t, rd)]}, key="cpp-twin-compile")
            continue
        for pi in range(len(cres[b]["runs"])):
            cb, ctw, crd = cpp_by_name(cres[b]["runs"][pi], d), cpp_by_name(cres[t]["runs"][pi], jobs[t]["defn"]), cpp_by_name(cres[rd]["runs"][pi], d)
            if not close_tree(ctw, rename_cpp(cb, f, fr, fk)):
                ctx.violation("generated C++: a consistently renamed model gives different named outputs",
                              {"definition": d, "renaming": f, "reading_renaming": fr, "inputs": jobs[b]["points"][pi], "original": cb, "renamed": ctw}, key="cpp-rename")
                break
            if not close_tree(crd, cb):
                ctx.violation("generated C++: named outputs depend on the declaration order / container", {"definition": d, "a": cb, "b": crd}, key="cpp-redecl")
                break
        if cres[b]["header_sha"] != cres[rd]["header_sha"] or cres[b]["source_sha"] != cres[rd]["source_sha"]:
            ctx.violation("generated C++ text depends on the declaration order / container", {"definition": d, "decl_a": jobs[b]["decl"], "decl_b": jobs[rd]["decl"]}, key="cpp-redecl-text")
        cppcheck.compare_with_oracle(ctx, jobs[t], cres[t], pres[t] if "error" not in pres[t] else None, "C13")
    ctx.cov["input_distribution"] = {"container_cases": kinds, "twins": len(base)}
    ctx.cov["traces_validated_against_impl"] = sum(len(c["ops"]) for c in cases)
    return ("named containers (sequences of 1-4 constructions on one generated class, each object read immediately and after the later ones) on random keyword sets (valid, unknown name, wrong shape; vector and covariance; constructor, from_dict, from_data) "
            "against the Coq model; definitions with a random bijective renaming of all symbols, readings and sensor keys onto other adversarial "
            "names (permuting the layout) and a re-declared copy (other container, other order): Python filter and compiled generated C++ compared "
            "by name; non-trivial = renaming that permutes the state layout / container case with >= 2 names; distinct by case")
