"""C08 — common-subexpression elimination never changes a result; temporaries are single-assignment."""
import re

from lib import cppcheck, cppjobs, ekf, glue, models as M
from lib.ctx import Ctx


def free_vars(e, acc=None):
    acc = acc if acc is not None else []
    if e[0] == "var":
        if e[1] not in acc:
            acc.append(e[1])
    elif e[0] in ("add", "mul"):
        free_vars(e[1], acc); free_vars(e[2], acc)
    elif e[0] == "pow":
        free_vars(e[1], acc)
    elif e[0] == "fn":
        free_vars(e[2], acc)
    return acc


def run(ctx: Ctx):
    n = 12 if ctx.tier == "quick" else 200
    ctx.translate("gen_layout")
    ctx.translate("gen_cppgen")
    ctx.prove("Props/C08.v")
    ctx.make(["Model/CppExec.vo", "Model/GlueExec.vo"])
    ctx.trusted += [
        "premise cse_contract (sympy cse + simplify preserve values under sequential-let semantics) - validated per instance: CSE on vs off outputs of the implementation (both back ends) and exact re-evaluation of exported programs (C01/C03)",
        "translators gen_layout.py (temporaries[:i] scope, execute loop) and gen_cppgen.py (BasicBlock.compile emission order); generated C++ bodies parsed back by tools/lib/cpptext.py and checked by the certified ssa_ok inside Coq",
    ]
    # the same definitions with CSE off and on; a third of them deeply nested
    base = cppjobs.make_jobs(ctx, n, min_sensors=1, max_sensors=2, ks=(None,))
    for i, j in enumerate(base):
        if i % 3 == 0:
            j["defn"] = M.gen_nested_definition(ctx.rng, depth=ctx.rng.choice([3, 4, 5]))
            j["points"] = ekf.make_points(ctx.rng, j["defn"], 2)
    jobs = []
    for j in base:
        for cse in (False, True):
            jobs.append(dict(j, cse=cse, keep_text=True))
    pres = ctx.run_impl_jobs("ekf_py.py", jobs)
    cres = ctx.run_impl_jobs("cpp_gen.py", jobs, timeout=3000)
    n_temps = {"python_prefix_lengths": {}, "cpp_temporaries": {}}
    ssa_terms, ssa_lab = [], []
    for bi in range(len(base)):
        off, on = 2 * bi, 2 * bi + 1
        d = jobs[off]["defn"]
        po, pn, co, cn = pres[off], pres[on], cres[off], cres[on]
        nested = bi % 3 == 0
        for pt in jobs[off]["points"]:
            ctx.count(["C08", d, pt], nested, sample={"states": sorted(d["state"]), "nested": nested,
                                                        "python_prefix": (pn.get("programs", {}).get("model") or {}).get("n_prefix") if "error" not in pn else None})
        if "error" in po or "error" in pn:
            ctx.violation("python.compile_ekf crashed with one CSE setting", {"definition": d, "off": po.get("error"), "on": pn.get("error")}, key="py-compile")
        else:
            for pi, (a, b) in enumerate(zip(po["points"], pn["points"])):
                rp = {"definition": d, "inputs": jobs[off]["points"][pi]}
                pa, pb = a["predict"], b["predict"]
                if ("_raised" in pa) != ("_raised" in pb):
                    ctx.violation("Python prediction raises with one CSE setting only", dict(rp, off=pa, on=pb), key="py-cse-raises")
                elif "_raised" not in pa:
                    if not ekf.dict_close(pb["state"], pa["state"]) or not ekf.mat_close(pb["cov"], pa["cov"]):
                        ctx.violation("Python prediction differs between CSE off and on", dict(rp, off=pa, on=pb), key="py-cse-predict")
                for key in d["sensors"]:
                    ua, ub = a["updates"].get(key, {}), b["updates"].get(key, {})
                    if "_raised" in ua or "_raised" in ub:
                        if ("_raised" in ua) != ("_raised" in ub):
                            ctx.violation("Python update raises with one CSE setting only", dict(rp, off=ua, on=ub), key="py-cse-raises")
                        continue
                    if not ekf.dict_close(ub["state"], ua["state"]) or not ekf.mat_close(ub["cov"], ua["cov"]):
                        ctx.violation(f"Python update of {key} differs between CSE off and on", dict(rp, off=ua, on=ub), key="py-cse-update")
            # exported Python programs: temporaries single-assignment and scoped (certified checker)
            for nm, pr in list(pn["programs"].items()):
                blocks = pr.values() if nm in ("sensor_block", "sensor_jac") else [pr]
                for b in blocks:
                    if glue.exportable(b):
                        k = b["n_prefix"]
                        n_temps["python_prefix_lengths"][k] = n_temps["python_prefix_lengths"].get(k, 0) + 1
                        temps = [t for t, _ in b["prefix"]]
                        body = [(t, [v for v in free_vars(e) if v in temps or re.match(r"^_t\d+$", v)]) for t, e in b["prefix"]]
                        body += [(f"out#{i}", [v for v in free_vars(e) if v in temps or re.match(r"^_t\d+$", v)]) for i, e in enumerate(b["body"])]
                        ssa_terms.append("(check_ssa " + M.coq_list([f"({M.coq_str(a)}, {M.coq_names(u)})" for a, u in body]) + ")")
                        ssa_lab.append(f"python block {nm} of definition {sorted(d['state'])}")
        if not ("error" in co or "error" in cn) and co.get("compile_ok") and cn.get("compile_ok") and co.get("run_ok") and cn.get("run_ok"):
            for pi, (ra, rb) in enumerate(zip(co["runs"], cn["runs"])):
                for lab, va in ra.items():
                    vb = rb.get(lab)
                    if va is None or vb is None or (va != va) != (vb != vb):
                        ctx.violation(f"generated C++ value {lab} is defined with one CSE setting only (off={va!r}, on={vb!r})",
                                      {"definition": d, "inputs": jobs[off]["points"][pi]}, key="cpp-cse-nan")
                        break
                    if va == va and abs(va - vb) > 1e-9 * max(1.0, abs(va), max(abs(x) for x in ra.values() if isinstance(x, float) and x == x)):
                        ctx.violation(f"generated C++ value {lab} changes with common-subexpression elimination: {va!r} (off) vs {vb!r} (on)",
                                      {"definition": d, "inputs": jobs[off]["points"][pi], "off": va, "on": vb}, key="cpp-cse-value")
                        break
        elif "error" not in cn and not cn.get("compile_ok", True):
            ctx.violation("generated C++ with CSE does not compile: " + cn.get("compile_err", "")[-500:].replace("\n", " | "),
                          {"definition": d, "compile_err": cn.get("compile_err"), "source": cn.get("source")}, key="cpp-cse-does-not-compile")
        if "error" not in cn and "source" in cn:
            nt = len(re.findall(r"double _t\d+ =", cn["source"]))
            n_temps["cpp_temporaries"][min(nt, 20)] = n_temps["cpp_temporaries"].get(min(nt, 20), 0) + 1
    nstruct = cppcheck.run_structure(ctx, jobs, cres)
    if ssa_terms:
        items = [("pyssa", cppcheck.STRUCT_HEADER + "Definition rows : list bool := [\n " + ";\n ".join(ssa_terms) + "].\nEval vm_compute in (falses rows 0).\n")]
        ok, out = ctx.coq_eval(*items[0])
        pairs = glue.parse_pairs(out) if ok else None
        if pairs is None:
            ctx.broken.append({"kind": "correspondence", "name": "ssa checker could not be evaluated on the exported Python programs"})
        else:
            for i, _ in pairs:
                ctx.violation(f"exported post-CSE Python program is not single-assignment / uses a temporary before it is set: {ssa_lab[i]}", {"block": ssa_lab[i]}, key="py-ssa")
    # ---------------- histories inside one interpreter: nothing computed for an earlier compilation or an earlier call may be
    # reused where it does not apply (same-named symbols with other assumptions; inputs differing only in the sign of a zero)
    hist = [(M.assumption_twin_definition(), M.assumption_twin_points(), {"warmup_assumptions": {"positive": True}}),
            (M.signed_zero_definition(), M.signed_zero_points(), {})]
    hjobs = []
    for d, pts, extra in hist:
        for cse in (False, True):
            hjobs.append(dict({"defn": d, "cse": cse, "decl": {"container": "list", "perm_seed": 1}, "points": pts, "want": ["model"]}, **extra))
    hres = ctx.run_impl_jobs("glue_py.py", hjobs)
    n_hist = 0
    for hi in range(0, len(hjobs), 2):
        off, on = hres[hi], hres[hi + 1]
        d = hjobs[hi]["defn"]
        if "error" in off or "error" in on:
            ctx.violation("python.compile crashed on a valid definition (history stream)", {"definition": d, "off": off.get("error"), "on": on.get("error")}, key="py-compile")
            continue
        for pi, (a, b) in enumerate(zip(off["points"], on["points"])):
            rp = {"definition": d, "inputs": hjobs[hi]["points"][pi], "compiled_before": hjobs[hi].get("warmup_assumptions"), "calls_before": hjobs[hi]["points"][:pi]}
            if "_raised" in a["model"] or "_raised" in b["model"]:
                continue
            for name in a["model"]:
                n_hist += 1
                exp = a["oracle_model"].get(name)
                va, vb = a["model"][name], b["model"][name]
                if not glue.close(va, vb):
                    ctx.violation(f"after the calls / compilations made before, CSE on and off give different values for {name!r}: {va!r} (off) vs {vb!r} (on)",
                                  dict(rp, off=a["model"], on=b["model"]), key="cse-changes-value-in-history")
                elif exp is not None and not glue.close(vb, exp):
                    ctx.violation(f"after the calls / compilations made before, the compiled model returns {vb!r} for {name!r}, the update expression evaluates to {exp!r}",
                                  dict(rp, observed=b["model"], expected=a["oracle_model"]), key="model-value-in-history")
    # ---------------- switching CSE on an existing estimator (the only API that does so: set_params): same outputs, and
    # nothing else about the estimator changes
    tjobs = []
    for i in range(3 if ctx.tier == "quick" else 20):
        d = M.gen_definition(ctx.rng, rational=True, min_sensors=1, max_sensors=2, max_states=3, max_readings=2)
        width = len(d["control"]) + sum(len(v) for v in d["sensors"].values())
        X = [[M.rnd_point(ctx.rng) * (6.0 if rr % 3 == 2 else 1.0) for _ in range(width)] for rr in range(6)]
        tjobs.append({"kind": "toggle_cse", "defn": d, "decl": {"container": "set", "perm_seed": i}, "k": [None, 7.0, 2.0][i % 3], "X": X})
    tres = ctx.run_impl_jobs("adapter_py.py", tjobs, shards=4)
    n_overflow = 0
    for j, r in zip(tjobs, tres):
        if "error" in r:
            ctx.violation(f"adapter raised while CSE was switched through set_params: {r['kind']}", {"definition": j["defn"], "error": r["error"]}, key="toggle-raises")
            continue
        if r.get("err_on") or r.get("err_off"):
            if r.get("err_on") != r.get("err_off"):
                ctx.violation(f"the adapter's transform raises {r.get('err_on')} with CSE on and {r.get('err_off')} with CSE switched off through set_params",
                              {"definition": j["defn"], "X": j["X"], "on": r.get("err_on"), "off": r.get("err_off")}, key="toggle-changes-values")
            n_overflow += 1
        b, a = dict(r["before"]), dict(r["after"])
        bc, ac = dict(b.pop("config")), dict(a.pop("config"))
        bc["common_subexpression_elimination"] = ac["common_subexpression_elimination"] = None
        if b != a or bc != ac:
            ctx.violation(f"set_params(common_subexpression_elimination=False) also changed other parameters: config {r['before']['config']} -> {r['after']['config']}",
                          {"definition": j["defn"], "before": r["before"], "after": r["after"]}, key="toggle-changes-other-parameters")
        elif any(not glue.close(x, y) for ra, rb in zip(r["T_on"], r["T_off"]) for x, y in zip(ra, rb)):
            ctx.violation("the adapter's transform gives different values with CSE switched off through set_params",
                          {"definition": j["defn"], "X": j["X"], "on": r["T_on"], "off": r["T_off"]}, key="toggle-changes-values")
    if tjobs and 2 * n_overflow > len(tjobs):
        ctx.broken.append({"kind": "correspondence", "name": "CSE toggle stream: most histories overflow, the two settings are no longer compared on values", "detail": f"{n_overflow} of {len(tjobs)}"})
    ctx.cov["input_distribution"] = dict(n_temps, definitions=len(base), structure_cases=nstruct, python_programs_checked=len(ssa_terms), history_values=n_hist, cse_toggles=len(tjobs),
                                         cse_toggle_histories_overflowing=n_overflow)
    ctx.cov["traces_validated_against_impl"] = nstruct + len(ssa_terms)
    return ("each definition generated with CSE off and on (a third of them chains of 3-5 nested shared sub-expressions whose middle levels are used "
            "only by other temporaries): Python prediction and updates, and every value of the compiled generated C++, compared between the two "
            "settings; all generated C++ bodies parsed back and all exported Python programs run through the certified single-assignment checker; "
            "non-trivial = nested definition; distinct by (definition, point)")
