"""C05 — sensor update is the Kalman correction, for any number of readings."""
from lib import ekf
from lib.ctx import Ctx


def run(ctx: Ctx):
    n_defs, n_points = (24, 3) if ctx.tier == "quick" else (300, 6)
    ctx.translate("gen_layout")
    ctx.translate("gen_ekf")
    ctx.prove("Props/C05.v", ["Props/C05_glue.v", "Props/C05_refine.v"])
    ctx.make(["Model/EkfExec.vo"])
    ctx.trusted += [
        "translators gen_ekf.py (sensor_model formulas, recorded quantities, rejection branch) and gen_layout.py; rendering B (lists over Q, executed) is PROVED to compute the entries of rendering A (MathComp, proved about) at the field rat: Props/C05_refine.v; its premises (shapes, inverse certificate S * linv S = I) are checked by computation on every case (code 8); the exact decision function rm_exact is related to the regenerated predicate only by the correspondence",
        "Model/Named.ncov_make (named_covariance container, hand model tied by correspondence): Q = diag of per-reading noise in sorted reading order",
        "oracle contracts: numpy matmul/transpose/+/-, np.linalg.inv (S S^-1 = I), sympy diff, lambdify; float rounding at relative 1e-9 on SPD dyadic P",
    ]
    jobs = ekf.make_jobs(ctx, n_defs, n_points, ks=(None, None, 40.0), max_sensors=2, min_sensors=1, max_readings=4, function_coverage=True)
    res = ctx.run_impl_jobs("ekf_py.py", jobs)
    defs_text, checks, src, dist = ekf.analyse(ctx, jobs, res, "C05", do_predict=False, do_update=True)
    ekf.run_coq(ctx, jobs, res, defs_text, checks, src, "update")
    ctx.cov["input_distribution"] = dist
    ctx.cov["traces_validated_against_impl"] = len(checks)
    return ("random definitions with 1-2 sensors of 1-4 readings (with/without calibration), filtering disabled or k=40; update applied to "
            "the predicted estimate; posterior state/covariance, recorded innovation and S compared by name with the exact sympy Kalman update; "
            "symmetry checked; rational models also run through the Coq chain; non-trivial = sensor with >= 2 readings; distinct by "
            "(definition, cse, k, point, sensor)")
