"""C07 — Python and generated C++ filters agree step for step."""
from lib import cppcheck, cppjobs, ekf
from lib.ctx import Ctx


def run(ctx: Ctx):
    n = 16 if ctx.tier == "quick" else 240
    ctx.translate("gen_layout")
    ctx.translate("gen_ekf")
    ctx.prove("Props/C07.v")
    ctx.trusted += [
        "the regenerated C++ template formulas (rendering B, proved to refine rendering A: Props/C05_refine.v, C04_refine.v) are evaluated exactly in Coq on the matrices the compiled generated functions returned and compared with the compiled process_model / sensor_model (Model/CppEkfExec.v)",
        "translator gen_ekf.py for both sides (python.py methods and the two C++ templates): the theorems state both against the same specification, agreement is a corollary (associativity of the matrix product)",
        "decisions: C06; Jacobian / model / noise values on both sides: C02 (C++) and C01/C03/C04/C05 (Python) state both against the same named symbolic expressions",
        "compiled generated filter: g++ -std=c++20 -ffp-contract=off with the Eigen stand-in tools/cpp/shim/Eigen/Dense (real Eigen is not installed); float summation order not modelled; relative 1e-9 (matrix-norm relative) on SPD dyadic inputs",
    ]
    # thresholds include values that need all 17 significant digits in the generated header
    jobs = cppjobs.make_jobs(ctx, n, min_sensors=1, ks=(None, 3.0, 1.0, 2.718281828459045, 1.0 / 3.0))
    pres = ctx.run_impl_jobs("ekf_py.py", jobs)
    cres = ctx.run_impl_jobs("cpp_gen.py", jobs, timeout=3000)
    combos = {}
    n_tpl = cppcheck.run_template(ctx, jobs, cres, pres)
    for job, c, p in zip(jobs, cres, pres):
        d = job["defn"]
        combos[str(job["combo"])] = combos.get(str(job["combo"]), 0) + 1
        for pt in job["points"]:
            ctx.count(["C07", d, job["cse"], job["k"], pt], len(d["state"]) >= 2 and any(len(r) >= 2 for r in d["sensors"].values()),
                      sample={"states": sorted(d["state"]), "controls": sorted(d["control"]), "calibration": sorted(d["calibration"]),
                              "sensors": {k: sorted(v) for k, v in d["sensors"].items()}, "cse": job["cse"], "k": job["k"]})
        if "error" in p:
            ctx.violation(f"python.compile_ekf crashed on a valid definition: {p['kind']}", {"definition": d, "error": p["error"]}, key="py-compile-raises")
            continue
        if "error" in c or not c.get("compile_ok"):
            ctx.violation("the C++ filter could not be generated / compiled for a definition the Python back end accepts: "
                          + (c.get("error") or c.get("compile_err", ""))[-400:].replace("\n", " | "),
                          {"definition": d, "cse": job["cse"], "detail": c.get("error") or c.get("compile_err")}, key="cpp-missing")
            continue
        cppcheck.compare_with_python(ctx, job, c, p)
    ctx.cov["input_distribution"] = {"filters": n, "control_x_calibration": combos, "cpp_template_cases_in_coq": n_tpl}
    ctx.cov["traces_validated_against_impl"] = sum(len(j["points"]) for j in jobs)
    return ("random definitions over all four control x calibration combinations, 1-2 sensors of 1-3 readings, both CSE settings, thresholds None/3/1; "
            "the generated C++ (compiled) and the Python filter run on the same named inputs: prediction, each sensor update from the same estimate, "
            "stored innovation and accept/reject compared field by field; non-trivial = >= 2 states and a sensor with >= 2 readings; distinct by (definition, cse, k, point)")
