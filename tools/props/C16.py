"""C16 — scikit-learn adapter's transform / mahalanobis / score are the filter's NIS."""
import math

from lib import glue, models as M
from lib.ctx import Ctx


def run(ctx: Ctx):
    n = 12 if ctx.tier == "quick" else 150
    ctx.translate("gen_adapter")
    ctx.prove("Props/C16.v", ["Props/C16_nis.v"])
    ctx.make(["Model/Adapter.vo"])
    ctx.trusted += [
        "translator gen_adapter.py: the fixed step, the row-slicing expressions, the sorted sensor order, the NIS expression and the score weights / formula of transform, mahalanobis, score are pinned in the source (fail closed) and exported as constants",
        "Model/Adapter.v: hand model of the pinned slicing loop; tied by recording (through a wrapper around python.compile_ekf, no source change) what the adapter actually passes to the filter and comparing with `slices` evaluated in Coq",
        "the filter's own prediction / update are C04 / C05; NIS >= 0 is the MathComp theorem nis_ge0 (exact arithmetic); float values checked on the implementation",
    ]
    jobs = []
    for i in range(n):
        d = M.gen_linear_definition(ctx.rng, singular=False)
        if i % 3 == 0:
            # unsorted sensor keys with different sizes
            keys = ctx.rng.sample(M.SENSOR_POOL, 3)
            d["sensors"] = {k: {r: M.add(M.var(ctx.rng.choice(d["state"])), M.mul(M.num(1, 4), M.var(ctx.rng.choice(d["state"]))))
                                for r in ctx.rng.sample(M.READING_POOL, 1 + j % 3)} for j, k in enumerate(keys)}
            d["sensor_noise"] = {k: {r: ctx.rng.choice([0.25, 0.5, 1.0]) for r in rd} for k, rd in d["sensors"].items()}
        width = len(d["control"]) + sum(len(r) for r in d["sensors"].values())
        rows = ctx.rng.randint(1, 5)
        X = [[M.rnd_point(ctx.rng) for _ in range(width)] for _ in range(rows)]
        jobs.append({"defn": d, "k": [None, 4.0, 1.0][i % 3], "max_dt_sec": [0.1, 0.02, 0.5, 0.1][i % 4], "decl": {"container": "set", "perm_seed": i}, "X": X})
    # appended (stream above unchanged): one single-reading sensor and no control, so that the data is one column and may be
    # given as the flat sequence of its samples
    for i in range(2 if ctx.tier == "quick" else 12):
        d = M.gen_linear_definition(ctx.rng, singular=False)
        while d["control"]:
            d = M.gen_linear_definition(ctx.rng, singular=False)
        k0 = sorted(d["sensors"])[0]
        r0 = sorted(d["sensors"][k0])[0]
        d["sensors"] = {k0: {r0: d["sensors"][k0][r0]}}
        d["sensor_noise"] = {k0: {r0: d["sensor_noise"][k0][r0]}}
        X = [[M.rnd_point(ctx.rng)] for _ in range(ctx.rng.randint(3, 7))]
        jobs.append({"defn": d, "k": [None, 4.0][i % 2], "max_dt_sec": 0.1, "decl": {"container": "set", "perm_seed": i}, "X": X})
    res = ctx.run_impl_jobs("adapter_py.py", jobs)
    rows_txt = []
    dist = {"estimators": n, "rows": 0, "sensors": {}, "controls": {}}
    for j, r in zip(jobs, res):
        d = j["defn"]
        dist["rows"] += len(j["X"])
        dist["sensors"][len(d["sensors"])] = dist["sensors"].get(len(d["sensors"]), 0) + 1
        dist["controls"][len(d["control"])] = dist["controls"].get(len(d["control"]), 0) + 1
        ctx.count(["C16", d, j["X"], j["k"]], len(d["sensors"]) >= 2 and len(j["X"]) >= 2,
                  sample={"controls": sorted(d["control"]), "sensors": {k: sorted(v) for k, v in d["sensors"].items()}, "k": j["k"], "X": j["X"][:2],
                          "transform": r.get("transform", [])[:2] if "error" not in r else None})
        if "error" in r:
            ctx.violation(f"adapter raised on a valid model and finite data: {r['kind']}", {"definition": d, "X": j["X"], "k": j["k"], "error": r["error"]}, key=f"adapter-raises:{r['kind']}")
            continue
        rep = {"definition": d, "X": j["X"], "k": j["k"], "max_dt_sec": j.get("max_dt_sec")}
        T, B = r["transform"], r["by_hand"]
        if len(T) != len(B) or any(len(a) != len(b) or any(abs(x - y) > 1e-12 * max(1.0, abs(y)) for x, y in zip(a, b)) for a, b in zip(T, B)):
            ctx.violation("transform differs from running the exported filter by hand (predict with the fixed step, update sensors in key order, NIS from the recorded innovation)",
                          dict(rep, transform=T, by_hand=B), key="transform-vs-by-hand")
        for form, Tf in r.get("input_forms", {}).items():
            if isinstance(Tf, dict) or len(Tf) != len(T) or any(len(a) != len(b) or any(x != y for x, y in zip(a, b)) for a, b in zip(Tf, T)):
                ctx.violation(f"transform of the same data given as {form} returns {Tf if isinstance(Tf, dict) else str(Tf)[:200]}, as a matrix it returns {str(T)[:200]}",
                              dict(rep, form=form, observed=Tf, as_matrix=T), key=f"input-form:{form}")
        flat = [v for row in T for v in row]
        if any(v < 0 for v in flat):
            ctx.violation("transform returned a negative normalised innovation squared", dict(rep, transform=T), key="negative-nis")
        if r["mahalanobis"] != flat:
            ctx.violation("mahalanobis is not transform flattened", dict(rep, transform=T, mahalanobis=r["mahalanobis"]), key="mahalanobis")
        if not r["transform_repeat_identical"] or not r["score_repeat_identical"]:
            ctx.violation("repeating transform / score returned different values", rep, key="not-repeatable")
        if not r["params_unchanged"]:
            ctx.violation("transform / mahalanobis / score changed the estimator's parameters", dict(rep, before=r["params_before"], after=r["params_after"]), key="params-changed")
        if flat:
            mean = sum(math.sqrt(v) for v in flat) / len(flat)
            var = sum(flat)
            noise2 = sum(v * v for v in d["process_noise"].values()) + sum(v * v for m in d["sensor_noise"].values() for v in m.values())
            exp = 10.0 * mean * mean + (1.0 / var + var) / 2.0 + 0.01 * noise2
            if abs(r["score"] - exp) > 1e-9 * max(1.0, abs(exp)):
                ctx.violation(f"score is {r['score']!r}, the documented combination 10*mean(sqrt nis)^2 + (1/sum + sum)/2 + 0.01*sum noise^2 is {exp!r}", dict(rep, terms=r["score_terms"]), key="score-formula")
        # ---- what was passed to the filter vs the Coq slicing model
        keys_sorted = sorted(d["sensors"])
        per_row = 1 + len(keys_sorted)
        log = r["recorded"]
        if len(log) != per_row * len(j["X"]):
            ctx.violation("transform did not make one prediction and one update per sensor for every row", dict(rep, recorded=log[:8]), key="call-count")
            continue
        sizes = M.coq_list([str(len(d["control"]))] + [str(len(d["sensors"][k])) for k in keys_sorted])
        sens = M.coq_list([f"({M.coq_str(k)}, {len(v)}%nat)" for k, v in d["sensors"].items()])
        for ri, row in enumerate(j["X"]):
            chunk = log[ri * per_row:(ri + 1) * per_row]
            if chunk[0][0] != "P" or abs(chunk[0][1] - 0.1) > 0 or [c[1] for c in chunk[1:]] != keys_sorted:
                ctx.violation(f"row {ri}: the adapter's calls are not predict(0.1) followed by the sensors in key order: {[c[:2] for c in chunk]}", dict(rep, row=ri), key="call-order")
                continue
            pieces = M.coq_list([M.coq_list([M.coq_q(x) for x in c[2]]) for c in chunk])
            rowq = M.coq_list([M.coq_q(x) for x in row])
            rows_txt.append(f"(list_eqb (list_eqb Qeq_bool) (slices Q (map snd (ordered_sizes {len(d['control'])}%nat {sens})) {rowq}) {pieces})")
    if rows_txt:
        hdr = ("From Coq Require Import String List Bool Arith QArith.\nFrom FV Require Import Base.Names Base.Expr Model.Adapter Model.CppExec.\nImport ListNotations.\n"
               "Definition ordered_sizes (c : nat) (sensors : list (name * nat)) : list (name * nat) := (\"\"%string, c) :: ordered sensors.\n"
               "Fixpoint falses (l : list bool) (i : nat) : list (nat * nat) := match l with [] => [] | b :: r => (if b then [] else [(i, 1%nat)]) ++ falses r (S i) end.\n")
        ok, out = ctx.coq_eval("slices", hdr + "Definition rows : list bool := [\n " + ";\n ".join(rows_txt) + "].\nEval vm_compute in (falses rows 0).\n")
        pairs = glue.parse_pairs(out) if ok else None
        if pairs is None:
            ctx.broken.append({"kind": "correspondence", "name": "slicing model could not be evaluated", "detail": out[-500:]})
        elif pairs:
            ctx.broken.append({"kind": "correspondence", "name": "Model/Adapter.slices (sorted sensor order) vs what the adapter passed to the filter",
                               "detail": f"{len(pairs)} of {len(rows_txt)} rows differ"})
    ctx.cov["input_distribution"] = dist
    ctx.cov["traces_validated_against_impl"] = len(rows_txt)
    return ("random bounded models with 1-3 sensors (keys declared unsorted, different sizes), 0-2 controls, 1-5 data rows, thresholds None/4/1: transform vs "
            "a by-hand run of export_python(), mahalanobis, score formula, repeatability, parameters before/after; the vectors the adapter passes to the filter "
            "(recorded) compared with the Coq slicing model; non-trivial = >= 2 sensors and >= 2 rows; distinct by (definition, X, k)")
