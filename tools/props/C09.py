"""C09 — valid covariance in, valid covariance out, along any update history."""
from fractions import Fraction

import json
import os

from lib import ekf, glue, models as M
from lib.ctx import Ctx

# Level (relative to max(1, |P|)) up to which the first-order rounding bound carried by hist_py.py is followed.  While
# the bound is below it a correct filter has defects below it, so it must neither refuse nor exceed the bound.  Beyond
# it (noise-free expansive dynamics amplify rounding exponentially) no covariance-form filter can stay valid: F12.
AMP_LIMIT = 1e-10
CORPUS = os.path.join(os.path.dirname(os.path.dirname(os.path.dirname(os.path.abspath(__file__)))), "corpus", "C09")


FIXED_CONTROL, FIXED_READING = 0.25, 0.5


def make_history(rng, d, n_steps, max_dt, fixed_inputs=False):
    """fixed_inputs: every prediction uses the same control and every update the same reading values, so that the compiled
    C++ filter can be driven through exactly the same history (its driver holds one control and one reading per sensor)"""
    ops = []
    for i in range(n_steps):
        if d["sensors"] and rng.random() < 0.25:
            k = rng.choice(sorted(d["sensors"]))
            ops.append(["u", k, {r: (FIXED_READING if fixed_inputs else M.rnd_point(rng)) for r in d["sensors"][k]}])
        else:
            dt = rng.choice([max_dt, max_dt / 2, max_dt * rng.random() + 1e-6, max_dt / 8])
            ops.append(["p", dt, {u: (FIXED_CONTROL if fixed_inputs else M.rnd_point(rng)) for u in d["control"]}])
    return ops


def cpp_history(ctx, jobs, res, dist):
    """The covariance of a linear model does not depend on the state, the control or the readings, so the compiled C++
    filter is driven through the same sequence of dt / sensor keys with fixed inputs and must reproduce the Python
    covariances at every checkpoint, up to the rounding bound of the history, and stay symmetric PSD up to it."""
    import numpy as np
    cjobs, keep = [], []
    for job, r in zip(jobs, res):
        if "error" in r or not r.get("checkpoints"):
            continue
        d = job["defn"]
        keys = sorted(d["sensors"])
        last = r["checkpoints"][-1]["step"]
        marks = {c["step"] for c in r["checkpoints"]}
        ops = ["H"]
        for i, op in enumerate(job["ops"][:last]):
            ops.append("P " + float(op[1]).hex() if op[0] == "p" else f"S {keys.index(op[1])}")
            if (i + 1) in marks:
                ops.append("R")
        point = {"state": job["x0"], "P": job["P0"], "control": {u: FIXED_CONTROL for u in d["control"]},
                 "readings": {k: {rd: FIXED_READING for rd in d["sensors"][k]} for k in keys}}
        cjobs.append({"defn": d, "cse": job["cse"], "k": None, "max_dt": job["max_dt"], "decl": job.get("decl"), "point": point,
                      "histories": [], "byhand_ops": ops})
        keep.append((job, r))
    if not cjobs:
        return
    cres = ctx.run_impl_jobs("cpp_mf.py", cjobs)
    n = 0
    for (job, r), c in zip(keep, cres):
        d = job["defn"]
        if "error" in c or not c.get("compile_ok") or not c.get("run_ok"):
            ctx.violation("the generated C++ filter could not be generated / compiled / run for a valid definition",
                          {"definition": d, "observed": {k: c.get(k) for k in ("error", "compile_err", "run_ok")}}, key="cpp-history-build")
            continue
        rets = c["histories"][0] if c["histories"] else []
        ns = len(d["state"])
        for cp, t in zip(r["checkpoints"], rets):
            vals = [float.fromhex(x) for x in t["ret"]]
            Pc = np.array(vals[ns:ns + ns * ns]).reshape(ns, ns)
            Pp = np.array([[float.fromhex(x) for x in row] for row in cp["cov"]])
            bound = 2.0 * cp["bound_abs"] + 1e-300
            n += 1
            rep = {"definition": d, "cse": job["cse"], "max_dt": job["max_dt"], "P0": job["P0"], "ops": job["ops"][:cp["step"]], "step": cp["step"],
                   "python_cov": Pp.tolist(), "cpp_cov": Pc.tolist(), "rounding_bound": cp["bound_abs"]}
            if not np.all(np.isfinite(Pc)) or float(np.max(np.abs(Pc - Pp))) > bound:
                ctx.violation(f"generated C++ covariance differs from the Python one after {cp['step']} steps by more than the rounding bound of the history",
                              rep, key="cpp-history-differs")
                break
            ev = np.linalg.eigvalsh((Pc + Pc.T) / 2)
            if -float(ev[0]) > bound or float(np.max(np.abs(Pc - Pc.T))) > bound:
                ctx.violation(f"generated C++ covariance is not symmetric PSD up to the rounding bound after {cp['step']} steps", rep, key="cpp-history-invalid")
                break
    dist["cpp_histories"] = len(keep)
    dist["cpp_checkpoints_compared"] = n


def run(ctx: Ctx):
    n_models, n_steps = (20, 200) if ctx.tier == "quick" else (400, 5000)
    ctx.translate("gen_layout")
    ctx.translate("gen_ekf")
    ctx.prove("Props/C09.v")
    ctx.make(["gen/EkfB.vo"])
    ctx.trusted += [
        "translator gen_ekf.py: the covariance formulas of process_model / sensor_model and the shape of assert_valid_covariance (tolerance constant, scale = max(1,n) * max(1, max|eigenvalue|), strict comparison)",
        "exact-arithmetic invariant (MathComp, any real field, induction over histories); rounding inside matmul / eig is NOT modelled: the statement 'up to rounding relative to magnitude' is checked on long histories of the implementation against a first-order rounding bound carried along the history (E' = F E F^T + C u |products| I, F = G or I - K H, from the filter's own Jacobians; hist_py.py), followed while the bound stays below 1e-10 of the magnitude; it is not proved",
        "np.linalg.eig characterised as returning real eigenvalues with eigenvectors for symmetric input (gate theorem is per eigenpair)",
    ]
    jobs = []
    corpus = []
    for fn in sorted(os.listdir(CORPUS)):
        j = json.load(open(os.path.join(CORPUS, fn)))
        j["_corpus"] = fn
        corpus.append(j)
    for i in range(n_models):
        if i == 0:
            d = M.mass_zva_definition()
        elif i == 1:
            d = M.mass_zva_pitot_definition()       # non-linear sensor: same inputs on both sides (fixed_inputs)
        else:
            d = M.gen_linear_definition(ctx.rng, singular=(i % 2 == 1))
        max_dt = ctx.rng.choice([0.1, 0.05, 0.01])
        n = len(d["state"])
        P0 = ekf.spd(ctx.rng, n) if i % 3 else [[(1.0 if a == b else 0.0) for b in range(n)] for a in range(n)]
        if i % 5 == 4:
            # singular but valid starting covariance (rank one)
            v = [ctx.rng.randint(-2, 2) / 2.0 for _ in range(n)]
            P0 = [[v[a] * v[b] for b in range(n)] for a in range(n)]
        jobs.append({"defn": d, "cse": bool(i % 2), "max_dt": max_dt, "ops": make_history(ctx.rng, d, n_steps, max_dt, fixed_inputs=(i == 1)),
                     "P0": P0, "x0": {s: M.rnd_point(ctx.rng) for s in d["state"]},
                     "decl": {"container": "set", "perm_seed": i}, "amp_limit": AMP_LIMIT})
    n_gen = len(jobs)
    n_cpp = 3 if ctx.tier == "quick" else 24
    every = 20 if ctx.tier == "quick" else 100
    for j in jobs[:n_cpp]:
        j["checkpoint_every"] = every
    jobs = jobs + corpus
    res = ctx.run_impl_jobs("hist_py.py", jobs)
    dist = {"models": n_models, "steps_per_history": n_steps, "singular_jacobian_models": 0, "steps_run": 0, "stopped_magnitude": 0,
            "stopped_rounding_bound": 0, "corpus_histories": len(corpus), "rounding_bound_limit": AMP_LIMIT,
            "max_defect_rel_in_scope": 0.0, "max_defect_over_bound": 0.0}
    for i, (job, r) in enumerate(zip(jobs, res)):
        d = job["defn"]
        if "error" in r:
            ctx.violation(f"compile_ekf crashed on a valid definition: {r['kind']}", {"definition": d, "error": r["error"]}, key="compile-raises")
            continue
        sing = ((i % 2 == 1) or i == 0) if i < n_gen else True
        dist["singular_jacobian_models"] += int(sing)
        dist["steps_run"] += r["steps_done"]
        dist["stopped_magnitude"] += int(r["stopped"] == "magnitude bound exceeded")
        dist["stopped_rounding_bound"] += int(r["stopped"] == "rounding amplification bound exceeded")
        if r["stopped"] and r["stopped"].startswith("bound computation failed"):
            ctx.broken.append({"kind": "correspondence", "name": "rounding bound could not be computed from the filter's Jacobians", "detail": r["stopped"]})
        in_scope_only = job.get("amp_limit") is not None
        if in_scope_only:
            dist["max_defect_rel_in_scope"] = max(dist["max_defect_rel_in_scope"], r["max_defect_rel"])
            dist["max_defect_over_bound"] = max(dist["max_defect_over_bound"], r["defect_over_bound"])
        ctx.count(["C09", d, job["ops"][:5]], sing and r["steps_done"] >= 50,
                  sample={"states": sorted(d["state"]), "singular": sing, "steps": r["steps_done"], "min_rel_eig": r["min_rel_eig"],
                          "max_asym_rel": r["max_asym_rel"], "max_abs": r["max_abs"]})
        rep = {"definition": d, "cse": job["cse"], "max_dt": job["max_dt"], "P0": job["P0"], "x0": job["x0"], "decl": job.get("decl"),
               "ops_until_failure": job["ops"][: (r["failed_at"] or 0) + 1], "observed": r, "corpus_file": job.get("_corpus")}
        amplified = r["failed_at"] is not None and r.get("amp_rel_at_failure", 0.0) > AMP_LIMIT
        if r["failed_at"] is not None and not amplified:
            ctx.violation(f"the filter refused / failed at step {r['failed_at']} of a history that started from a valid covariance, where accumulated rounding "
                          f"is bounded by {r.get('amp_rel_at_failure')!r} of the magnitude: {r['failure'][:160]}",
                          rep, key="history-refused:" + r["failure"].split(":")[0])
        elif amplified and r["failure"].startswith("AssertionError"):
            # the one listed finding: rounding defects amplified beyond any fixed tolerance by noise-free expansive dynamics
            ctx.violation(f"the filter refused step {r['failed_at']}: rounding defects amplified by noise-free expansive dynamics (bound {r.get('amp_rel_at_failure')!r})",
                          rep, key="history-refused-after-rounding-amplification")
        elif amplified:
            ctx.violation(f"the filter failed at step {r['failed_at']}: {r['failure'][:160]}", rep, key="history-failed:" + r["failure"].split(":")[0])
        elif r["defect_over_bound"] > 1.0 and in_scope_only:
            ctx.violation(f"negative eigenvalue / asymmetry {r['defect_over_bound']!r} times larger than the first-order rounding bound of the history",
                          rep, key="history-defect-beyond-rounding")
        elif in_scope_only and r["min_rel_eig"] < -1e-9:
            ctx.violation(f"covariance became indefinite: lambda_min/lambda_max = {r['min_rel_eig']!r}", rep, key="history-indefinite")
        elif in_scope_only and r["max_asym_rel"] > 1e-9:
            ctx.violation(f"covariance became asymmetric: {r['max_asym_rel']!r} relative", rep, key="history-asymmetric")
    # ---------------- the same histories through the generated C++ filter (compiled, Eigen stand-in)
    cpp_history(ctx, jobs[:n_cpp], res[:n_cpp], dist)
    # ---------------- the gate: model (regenerated constants) vs implementation on diagonal matrices
    cases = []
    for n in (1, 2, 3, 4):
        for big in (1.0, 126.0, 1e6, 1e-3):
            for rel in (0.0, -1e-17, -5e-16, -0.9e-15, -1.1e-15, -3e-15, -2.4e-15, -1e-12, -0.9e-9, -1.1e-9, -1e-7, -1e-3, 1e-15):
                for mult in (1, n, 2 * n):
                    eigs = [big] + [big * rel * mult] + [big / 2] * (n - 2) if n >= 2 else [big * (1 if rel == 0 else rel)]
                    cases.append(eigs[:n])
    mats = [[[(e[i] if i == j else 0.0) for j in range(len(e))] for i in range(len(e))] for e in cases]
    r = ctx.run_impl("gate_py.py", {"mats": mats})
    if "_error" in r:
        ctx.broken.append({"kind": "correspondence", "name": "gate harness", "detail": r["_error"]})
    else:
        rows = []
        for e, got in zip(cases, r["results"]):
            q = M.coq_list([M.coq_q(x) for x in e])
            bound = r["negative_tol"] * max(1, len(e)) * max(1.0, max(abs(x) for x in e))
            if abs(min(e) - bound) > 1e-3 * abs(bound):  # not within rounding of the decision boundary itself
              rows.append(f"Bool.eqb (gate_refuses {len(e)} {q}) {'true' if got == 'refuse' else 'false'}")
            # a PSD matrix (all eigenvalues >= 0) must be accepted
            if min(e) >= 0 and got != "accept":
                ctx.violation(f"assert_valid_covariance refuses the positive semi-definite matrix diag{tuple(e)}", {"matrix": e, "observed": got}, key="gate-refuses-psd")
            # eigenvalue negative only at rounding level relative to the magnitude must be accepted
            if min(e) < 0 and abs(min(e)) <= 1e-14 * max(1.0, max(abs(x) for x in e)) and got != "accept":
                ctx.violation(f"assert_valid_covariance refuses diag{tuple(e)} whose negative eigenvalue is within the accumulated-rounding level observed on in-scope histories (1e-14) relative to its magnitude",
                              {"matrix": e, "observed": got}, key="gate-refuses-rounding")
            if min(e) < -1e-6 * max(1.0, max(abs(x) for x in e)) and got == "accept":
                ctx.violation(f"assert_valid_covariance accepts the clearly indefinite matrix diag{tuple(e)}", {"matrix": e}, key="gate-accepts-indefinite")
        txt = ("From Coq Require Import List ZArith QArith Bool.\nFrom FV Require Import Base.ListMat gen.EkfB.\nImport ListNotations.\n"
               "Fixpoint bad (l : list bool) (i : nat) : list (nat * nat) := match l with [] => [] | b :: r => (if b then [] else [(i, 1%nat)]) ++ bad r (S i) end.\n"
               "Definition rows : list bool := [\n " + ";\n ".join(rows) + "].\nEval vm_compute in (bad rows 0).\n")
        ok, out = ctx.coq_eval("gate", txt)
        pairs = glue.parse_pairs(out) if ok else None
        if pairs is None:
            ctx.broken.append({"kind": "correspondence", "name": "gate model could not be evaluated"})
        elif pairs:
            i0 = pairs[0][0]
            ctx.broken.append({"kind": "correspondence", "name": "regenerated validity gate vs assert_valid_covariance on diagonal matrices",
                               "detail": f"{len(pairs)} of {len(rows)} differ; first: diag{tuple(cases[i0])} implementation={r['results'][i0]}"})
        ctx.cov["traces_validated_against_impl"] = len(rows)
        dist["gate_cases"] = len(rows)
    ctx.cov["input_distribution"] = dist
    return ("histories of predictions (dt <= max_dt, several sizes) and sensor updates on the project's mass/z/v/a model and on random bounded "
            "linear models, half of them with singular process Jacobians (copied / constant / projected states), from SPD, identity and rank-one "
            "covariances, plus the corpus histories; while the first-order rounding bound of the history stays below 1e-10 of the magnitude every step must be accepted and "
            "the negative eigenvalue / asymmetry must stay below that bound; a refusal beyond it is the listed finding F12; the validity gate is compared with its regenerated "
            "model on diagonal matrices around the tolerance; non-trivial = singular-Jacobian model that ran >= 50 steps; distinct by (model, first ops)")
