"""Regenerates MANIFEST.json from the table below (kept valid at all times)."""
import json, subprocess
CLAIMED = {
 "C10": ("Theorems over Q for every max_dt>0, cur, out (direction, bound, 1e-9 sum, no step when equal, count) about the step list that the REGENERATED Python _process_model and the C++ hand model are proved to apply; PrimFloat instance of the same definitions compared bit-for-bit with runtime.ManagedFilter and the compiled ManagedFilter.h.",
         "Coq theorems (Q) about regenerated Python code + hand-modelled C++; bit-exact PrimFloat correspondence; property predicate on implementation traces as search",
         "py2v translator; C++ header hand-modelled (tied by compiled-header traces); float rounding modelled by PrimFloat and checked on traces, not proved; g++", "5 C10"),
 "C11": ("Theorem: the regenerated Python tick equals the specification fold (propagate, update, hold per reading; report at output time) for every reading list and every wrapped filter, by induction; same for the C++ hand model; hence equal call sequences. Tied by bit-exact recorded call traces on random multi-tick histories for Python and all four C++ Tag combinations.",
         "Coq induction over reading lists on regenerated Python tick + C++ hand model; recorded-trace correspondence",
         "py2v translator; C++ tick overloads hand-modelled; the wrapped filter is abstract", "5 C11"),
 "C01": ("Theorems for every definition, every interpretation of function symbols, every input and every CSE result meeting the stated contract: BasicBlock.execute is the sequential-let semantics; Model.model returns, by name, the value of each state's update expression; CSE-independence. Argument/call orders and temporary scopes are regenerated from python.py on every run; the exported post-CSE program is re-executed exactly in Coq and compared with the implementation; sympy subs/evalf oracle by name.",
         "Coq theorems (stdlib) over parameters regenerated from python.py; exported-program correspondence over Q by vm_compute; exact symbolic oracle as search",
         "sympy cse/simplify/lambdify contracts are premises (validated per instance); float rounding at 1e-9 relative; gen_layout.py translator", "5 C01"),
 "C03": ("Theorem: for every shape (rectangular included) the un-flattened entry (row name, column name) is the value of the derivative-oracle entry, given stride = number of symbolic columns - the index expressions, shapes and loop ranges are regenerated from the three Jacobian methods and the side conditions re-proved on every run; refutation witness for any other stride. Exported Jacobian blocks are un-flattened in Coq and compared with the implementation and with independently computed sympy.diff entries.",
         "Coq theorems on regenerated index expressions (lia side conditions); exported-block correspondence over Q; sympy.diff oracle by name",
         "sympy Matrix.jacobian/diff is an oracle (contract validated per instance); gen_layout.py", "5 C03"),
 "C04": ("MathComp theorem for every dimension and real field: the covariance expression regenerated from process_model equals G P G^T + V M V^T and preserves symmetric PSD; stdlib theorems: M is the symmetric diagonal-by-name matrix of the supplied noise. The whole chain (exported blocks, un-flattening, named noise, regenerated formula) is evaluated exactly in Coq against the implementation; purity checked by translator and by before/after comparison.",
         "MathComp proof about regenerated formula + stdlib noise-assembly theorems; exact chained correspondence; exact sympy oracle",
         "the executed list rendering is proved to refine the MathComp rendering (Props/C04_refine.v; shape premises evaluated per case); the process-noise loop is translated and proved equal to its closed form; numpy operations are oracles; float rounding", "5 C04"),
 "C05": ("MathComp theorems for every reading dimension: the regenerated sensor_model is x + K(z-h), P - K H P with S = H P H^T + Q, K = P H^T S^-1; recorded (z-h, S) in both branches; fixed point; posterior symmetric PSD and <= prior (P - P' PSD); Q diagonal by name (stdlib). Exact chained correspondence in Coq, exact sympy Kalman oracle by name.",
         "MathComp proofs (unit S via positive-definiteness, PSD identity) about regenerated update; exact chained correspondence; oracle",
         "the executed list rendering is proved to refine the MathComp rendering with the inverse by certificate S X = I (Props/C05_refine.v; premises evaluated per case); np.linalg.inv oracle; float rounding; conditioning guard cond(S) <= 1e6", "5 C05"),
 "C06": ("MathComp theorems over any real closed field: the regenerated Python predicate and C++ helper are true exactly when z^T S^-1 z > k sqrt(2m) + m; disabled settings never discard; same decision; a discard returns the inputs and still records the innovation (both back ends). PrimFloat instance of the regenerated threshold compared bit-for-bit with Python and the compiled helper at and within 3 ulp of the boundary.",
         "MathComp rcfType proofs on regenerated predicates (Python + C++ header + template); PrimFloat boundary correspondence; exact rational oracle",
         "gen_ekf.py (regex/expression parser for the C++ header and template); g++ -ffp-contract=off + Eigen stand-in; NIS value itself exact-arithmetic only", "5 C06"),
 "C09": ("MathComp theorem by induction over arbitrary histories of regenerated predict/update steps (any Jacobians, singular included): symmetric PSD is preserved; the validity gate never refuses a PSD matrix (per real eigenpair, tol <= 0 <= scale). Gate constants regenerated and compared with the implementation on diagonal matrices; long histories on singular-Jacobian models checked on the implementation.",
         "MathComp induction over histories of regenerated steps + gate theorem; implementation histories as search",
         "rounding inside matmul/eig not modelled: 'up to rounding' is decided on histories against a first-order rounding bound whose propagation rule is proved (perturbation identities, Loewner monotonicity, row-sum domination), followed while it stays below 1e-10 of the magnitude (partial); one listed known finding (F12)", "5 C09"),
 "C02": ("Stdlib theorems about the generator's emission layout (Model/CppGen.v): slot consistency and injectivity for any distinct names, entry (i,j) of every Jacobian-like function is the derivative of the i-th row expression w.r.t. the j-th column symbol, every entry assigned exactly once; side conditions on parameters regenerated from ast_fragments.py / cpp.py. Generated text parsed back and compared with the model in Coq; generated code compiled and every function compared by name with exact sympy values.",
         "Coq theorems on a generator model with regenerated parameters; parse-back correspondence in Coq; compile-and-run against exact oracle",
         "sympy diff/subs/ccode, g++, Eigen stand-in (real Eigen absent): values are checked by running, not proved", "5 C02"),
 "C07": ("MathComp theorems: the regenerated C++ templates and Python methods compute the same prediction and update (state, covariance, stored innovation) for the same decision function, and take the same decision; compiled generated filters run against the Python filter on the same named inputs.",
         "MathComp equality of regenerated C++ and Python formulas (associativity); compiled-filter vs Python correspondence",
         "gen_ekf.py for both sides; Eigen stand-in; float summation order; values of G,V,M,h,H,Q by C02/C03", "5 C07"),
 "C08": ("Theorems: any post-CSE program meeting the contract gives the original values (Python block, every program and input); CSE-independence; prefix scope = first i temporaries (regenerated); certified single-assignment checker with soundness theorem, run inside Coq on every generated C++ body and exported Python program; CSE on/off outputs compared on both back ends incl. deeply nested sharing.",
         "Coq theorems (execute = sequential let; ssa_ok sound) + certified checker on real programs; CSE on/off differential",
         "sympy cse/simplify value preservation is the stated premise, validated per instance", "5 C08"),
 "C12": ("Finite proof over the four control x calibration combinations that every ManagedFilter call site passes the argument kinds the generator emits (signatures regenerated from ast_fragments.py; header call sites hand-modelled); tick = specification fold (C11). Real generated filters compiled against the real header for all combinations x 0-3 sensors x several max_dt; recorded steps vs PrimFloat model; tick vs by-hand replay bit-for-bit.",
         "finite Coq proof on regenerated signatures + hand-modelled header; compile/run correspondence with by-hand replay",
         "partial: C++ overload resolution/template instantiation modelled as argument kinds; compilation is an observation of g++", "5 C12"),
 "C13": ("Theorems: named vector/covariance store values under their names, refuse unknown names, shape check, defaults; name-sorted layout is invariant under any permutation of the declaration; evaluation commutes with any consistent renaming; C++ slot consistency. Containers (sequences of constructions on one class) compared with the model in Coq; renamed twins and re-declared copies run through Python and compiled C++ and compared by name.",
         "Coq theorems (named containers, sort canonicity, renaming substitution lemma) + container correspondence + twin differential",
         "named containers hand-modelled; renaming theorem is about evaluation, implementations exercised on twins", "5 C13"),
 "C14": ("Theorems: each of the five entry points accepts exactly the definitions structurally valid in the facts it sees (boolean equivalences under unique dict keys), hence Python and C++ agree; guard sequences re-extracted from the source each run. Every single fault of the listed kinds at every position plus random pairs through all five real entry points (C++ with real output paths), verdicts compared with the model in Coq and with the property text.",
         "Coq equivalence proofs between guard-sequence models and the validity predicate; exhaustive single-fault injection",
         "guard models hand-written, pinned by gen_guards.py; sympy free_symbols / set / dict semantics", "5 C14"),
 "C15": ("Theorems: every layout list is the name-sorted declared list (regenerated facts) and sorting is invariant under permutation, so layout and argument list do not depend on declaration order / container / hash seed; audit of every iteration site of the generators proves none walks a set/dict in hash order where it can reach output. Generation under several hash seeds, containers, orders, repeated in-process.",
         "Coq permutation-invariance theorem + regenerated sortedness facts + iteration-site audit; multi-seed differential",
         "partial: sympy's own output determinism is observed only; symbols distinct as strings", "5 C15"),
 "C16": ("Theorems: the row slicing yields consecutive disjoint pieces of the control and sensor sizes in sorted key order that concatenate to the row (any sizes); one output row per data row; NIS >= 0 (MathComp); constants (dt, weights, order) regenerated. Adapter vs by-hand run of the exported filter, what the adapter passes to the filter (recorded) vs the Coq slicing model, score formula, repeatability, parameter immutability.",
         "Coq list theorems on the slicing model + MathComp NIS >= 0; recorded-call correspondence; by-hand differential",
         "transform loop hand-modelled, source pinned by gen_adapter.py; numeric values are the filter's (C04/C05)", "5 C16"),
 "C17": ("Theorems: get-then-set is the identity; a config field changes exactly that field (frame); unknown names refused; for any minimiser vector the fitted process-noise map names exactly the controls and is strictly positive. Operation sequences compared with the model in Coq; flatten/un-flatten on adversarial vectors; real fits.",
         "Coq theorems on a parameter-store model + operation-sequence correspondence; oracle-quantified fit theorem",
         "scipy minimize / sklearn clone are oracles; set_params and flatten pair hand-modelled, pinned by gen_adapter.py", "5 C17"),
 "C18": ("Theorems: BFS soundness for any graph with distinct transition names; for the regenerated 3-state graph all 3x3 pairs found iff reachable, end in the target, shortest (by computation, finite); history invariant by induction. Real searches on real objects (incl. a fitted state), histories after branching / refused fits, minimum-sample guard, real grid searches.",
         "Coq BFS soundness + finite table on the regenerated graph + history induction; real-object correspondence",
         "search loop hand-modelled, source pinned; scikit-learn GridSearchCV is an oracle", "5 C18"),
 "C19": ("Theorems over R about the expressions exported from the imported module on every run: rates = vec(q (0,w) q*), acceleration = rotated bias-corrected specific force / |q|^2 + gravity (|q|^2 <> 0), exact constant-acceleration integrals, orientation step, by ring/field; compiled Python model vs closed form in exact fractions.",
         "ring/field proofs over R on regenerated expressions; compiled-model correspondence",
         "standard real-number axioms (listed by Print Assumptions); sympy export structural", "5 C19"),
}
props = [json.loads(l) for l in open("/verif/properties.jsonl")]
checks, na = [], []
for p in props:
    pid = p["id"]
    if pid in CLAIMED:
        text, tech, note, ref = CLAIMED[pid]
        checks.append({
            "property_id": pid,
            "quick_cmd": f"./check {pid} --tier quick",
            "thorough_cmd": f"./check {pid} --tier thorough",
            "evidence_file": f"/verif/evidence/{pid}.json",
            "replay_cmd_template": f"./check {pid} --replay {{path}}",
            "engine": "coq",
            "level_claimed": {"category": "proof", "text": text, "design_ref": "DESIGN.md section " + ref},
            "level_note": note,
            "technique": tech,
        })
    else:
        na.append({"property_id": pid, "reason": "not claimed in this revision: check not built yet (see DESIGN.md for the planned theorem)"})
commits = subprocess.run(["git", "-C", "/repo", "log", "--format=%H %s", "--grep=^verif hook"], capture_output=True, text=True).stdout.strip().splitlines()
m = {
 "version": 1,
 "setup_cmd": "./setup.sh",
 "hooks": {"guard": "FORMAK_VERIF", "enable": "FORMAK_VERIF=1 in the environment of every implementation run (tools/lib/ctx.py impl_env); Python only, nothing to rebuild",
           "baseline_off_cmd": "cd /repo && env -u FORMAK_VERIF /venv/bin/python -m pytest -ra -q -p no:cacheprovider --timeout=900 --continue-on-collection-errors",
           "source_commits": [c.split()[0] for c in commits], "add_only": True},
 "engines": [{"name": "coq", "path": "/verif/coq", "serves_properties": sorted(CLAIMED), "kind_free_text": "Coq 8.16.1 development (stdlib + MathComp), models regenerated from /repo by tools/translate, correspondence by vm_compute case files"}],
 "checks": checks,
 "not_applicable": na,
 "notes": "All checks: ./check <id> [--tier quick|thorough]; see DESIGN.md. Fix commits in /repo are listed in known_findings.json as fixed entries.",
}
json.dump(m, open("/verif/MANIFEST.json", "w"), indent=1)
print("claimed", sorted(CLAIMED), "unclaimed", len(na))
