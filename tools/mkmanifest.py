"""Regenerates MANIFEST.json from the table below (kept valid at all times)."""
import json, subprocess
CLAIMED = {
 "C10": ("Theorems over Q for every max_dt>0, cur, out (direction, bound, 1e-9 sum, no step when equal, count) about the step list that the REGENERATED Python _process_model and the C++ hand model are proved to apply; PrimFloat instance of the same definitions compared bit-for-bit with runtime.ManagedFilter and the compiled ManagedFilter.h.",
         "Coq theorems (Q) about regenerated Python code + hand-modelled C++; bit-exact PrimFloat correspondence; property predicate on implementation traces as search",
         "py2v translator; C++ header hand-modelled (tied by compiled-header traces); float rounding modelled by PrimFloat and checked on traces, not proved; g++", "5 C10"),
 "C11": ("Theorem: the regenerated Python tick equals the specification fold (propagate, update, hold per reading; report at output time) for every reading list and every wrapped filter, by induction; same for the C++ hand model; hence equal call sequences. Tied by bit-exact recorded call traces on random multi-tick histories for Python and all four C++ Tag combinations.",
         "Coq induction over reading lists on regenerated Python tick + C++ hand model; recorded-trace correspondence",
         "py2v translator; C++ tick overloads hand-modelled; the wrapped filter is abstract", "5 C11"),
}
props = [json.loads(l) for l in open("/verif/properties.jsonl")]
checks, na = [], []
for p in props:
    pid = p["id"]
    if pid in CLAIMED:
        text, tech, note, ref = CLAIMED[pid]
        checks.append({
            "property_id": pid,
            "quick_cmd": f"./check {pid} --tier quick",
            "thorough_cmd": f"./check {pid} --tier thorough",
            "evidence_file": f"/verif/evidence/{pid}.json",
            "replay_cmd_template": f"./check {pid} --replay {{path}}",
            "engine": "coq",
            "level_claimed": {"category": "proof", "text": text, "design_ref": "DESIGN.md section " + ref},
            "level_note": note,
            "technique": tech,
        })
    else:
        na.append({"property_id": pid, "reason": "not claimed in this revision: check not built yet (see DESIGN.md for the planned theorem)"})
commits = subprocess.run(["git", "-C", "/repo", "log", "--format=%H %s", "--grep=^verif hook"], capture_output=True, text=True).stdout.strip().splitlines()
m = {
 "version": 1,
 "setup_cmd": "./setup.sh",
 "hooks": {"guard": "FORMAK_VERIF", "enable": "FORMAK_VERIF=1 in the environment of every implementation run (tools/lib/ctx.py impl_env); Python only, nothing to rebuild",
           "baseline_off_cmd": "cd /repo && env -u FORMAK_VERIF /venv/bin/python -m pytest -ra -q -p no:cacheprovider --timeout=900 --continue-on-collection-errors",
           "source_commits": [c.split()[0] for c in commits], "add_only": True},
 "engines": [{"name": "coq", "path": "/verif/coq", "serves_properties": sorted(CLAIMED), "kind_free_text": "Coq 8.16.1 development (stdlib + MathComp), models regenerated from /repo by tools/translate, correspondence by vm_compute case files"}],
 "checks": checks,
 "not_applicable": na,
 "notes": "All checks: ./check <id> [--tier quick|thorough]; see DESIGN.md. Fix commits in /repo are listed in known_findings.json as fixed entries.",
}
json.dump(m, open("/verif/MANIFEST.json", "w"), indent=1)
print("claimed", sorted(CLAIMED), "unclaimed", len(na))
