import argparse, importlib, os, sys, json, traceback
sys.path.insert(0, os.path.dirname(os.path.abspath(__file__)))
from lib.ctx import Ctx

def main():
    ap = argparse.ArgumentParser()
    ap.add_argument("pid")
    ap.add_argument("--tier", default=os.environ.get("VERIF_TIER", "quick"), choices=["quick", "thorough"])
    ap.add_argument("--replay", default=None)
    ap.add_argument("--seed", type=int, default=int(os.environ.get("VERIF_SEED", "1")))
    a = ap.parse_args()
    mod = importlib.import_module(f"props.{a.pid}")
    ctx = Ctx(a.pid, a.tier, a.seed)
    if a.replay:
        rp = json.load(open(a.replay))
        sys.exit(mod.replay(ctx, rp) if hasattr(mod, "replay") else 2)
    try:
        rule = mod.run(ctx)
    except Exception:
        traceback.print_exc()
        ctx.broken.append({"kind": "harness-error", "detail": traceback.format_exc()[-1500:]})
        rule = "harness error"
    sys.exit(ctx.finish(rule if isinstance(rule, str) else ""))

main()
