// Driver for the REAL cpp/include/formak/innovation_filtering.h (Eigen stand-in): reads cases
// "m k z_0..z_{m-1} S_00 .. S_{m-1,m-1}" (hex floats) and prints the decision of removeInnovation.
#include <formak/innovation_filtering.h>
#include <cstdio>
#include <cstdlib>
#include <iostream>
#include <sstream>
#include <string>

template <int M>
int decide(double k, std::istringstream& ss) {
  Eigen::Matrix<double, M, 1> z; Eigen::Matrix<double, M, M> S;
  std::string t;
  for (int i = 0; i < M; ++i) { ss >> t; z(i, 0) = std::strtod(t.c_str(), nullptr); }
  for (int i = 0; i < M; ++i) for (int j = 0; j < M; ++j) { ss >> t; S(i, j) = std::strtod(t.c_str(), nullptr); }
  return formak::innovation_filtering::edit::removeInnovation<M>(k, z, S) ? 1 : 0;
}

int main() {
  std::string line;
  while (std::getline(std::cin, line)) {
    std::istringstream ss(line);
    int m; std::string ks; ss >> m >> ks;
    double k = std::strtod(ks.c_str(), nullptr);
    int r = -1;
    switch (m) {
      case 1: r = decide<1>(k, ss); break;
      case 2: r = decide<2>(k, ss); break;
      case 3: r = decide<3>(k, ss); break;
      case 4: r = decide<4>(k, ss); break;
      case 5: r = decide<5>(k, ss); break;
      case 9: r = decide<9>(k, ss); break;
    }
    std::printf("%d\n", r);
  }
  return 0;
}
