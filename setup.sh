#!/bin/sh
# MANIFEST.setup_cmd: regenerate coq/gen from /repo, build the whole Coq development (full .vo build, no -vos).
set -e
D=$(cd "$(dirname "$0")" && pwd)
cd "$D"
mkdir -p coq/gen coq/run evidence replays
for t in tools/translate/gen_*.py; do
  [ -f "$t" ] || continue
  ( cd /repo && PYTHONPATH=/repo/py FORMAK_VERIF=1 PYTHONHASHSEED=0 MPLBACKEND=Agg /venv/bin/python "$D/$t" /repo "$D/coq/gen" ) || echo "translator $t failed (fail-closed file written)"
done
cd coq
coq_makefile -f _CoqProject -o Makefile
timeout 3000 make -k -j16 || echo "some Coq files did not build (reported by the individual checks)"
